//! C12 inputs assembled by hand (crate::asm) for the features `gimli::write` cannot emit:
//! line programs with every opcode and non-default header parameters, and units with
//! indexed strings / addresses / lists, every list entry kind, every data / reference form.

use super::{check_dwarf, check_line};
use crate::asm::{uleb_bytes, Asm, Enc};
use crate::mon::entries::Secs;
use crate::rt::{Ctx, Rng};
use gimli::SectionId;
use serde_json::json;

fn rbytes(r: &mut Rng, n: u64) -> Vec<u8> {
    let k = r.below(n) as usize;
    r.bytes(k)
}

// ---------------------------------------------------------------- string pools

#[derive(Default)]
pub struct Pool {
    pub buf: Vec<u8>,
}
impl Pool {
    pub fn add(&mut self, s: &[u8]) -> u64 {
        let off = self.buf.len() as u64;
        self.buf.extend_from_slice(s);
        self.buf.push(0);
        off
    }
}

// ---------------------------------------------------------------- line programs

pub struct LineStats {
    pub ops: Vec<&'static str>,
    pub rows: usize,
}

const STD_LENGTHS: [u8; 12] = [0, 1, 1, 1, 1, 0, 0, 0, 1, 0, 0, 1];

/// Emit one line program into `a` (a `.debug_line` section under construction).
/// `force`: an operation that must occur at least once (catalogue mode).
pub fn gen_line_program(
    r: &mut Rng,
    enc: Enc,
    a: &mut Asm,
    line_str: &mut Pool,
    strs: &mut Pool,
    force: Option<&'static str>,
    plain: bool,
    st: &mut LineStats,
) {
    let v = enc.version;
    let w = enc.fmt64;
    let asz = enc.addr as usize;
    let mask = enc.addr_mask();
    let min_len: u64 = *r.pick(&[1u64, 1, 1, 2, 4]);
    let mut max_ops: u64 = if v >= 4 { *r.pick(&[1u64, 1, 1, 2, 4]) } else { 1 };
    let line_base: i64 = -(r.below(8) as i64);
    let line_range: u64 = ((-line_base) as u64 + 1 + r.below(16)).min(250);
    let mut opcode_base: u64 = match r.below(8) {
        0 => 10,
        1 => 14 + r.below(6),
        2 if v <= 3 => 10,
        _ => 13,
    };
    if let Some(f) = force {
        // the forced operation must exist under this opcode_base
        if matches!(f, "set_prologue_end" | "set_epilogue_begin" | "set_isa") && opcode_base < 13 {
            opcode_base = 13;
        }
        if f == "unknown_standard" {
            opcode_base = 16;
        }
        if f == "set_address.mid_sequence" && super::SKIP_VLIW_MID_SEQUENCE_SET_ADDRESS {
            max_ops = 1;
        }
    }
    let default_is_stmt = r.bool();
    let extra_lengths: Vec<u8> = (13..opcode_base).map(|_| r.below(3) as u8).collect();

    let m = a.begin_length(w);
    a.u16(v);
    if v >= 5 {
        a.u8(enc.addr).u8(0);
    }
    let hl_at = a.len();
    a.word(w, 0);
    let hstart = a.len();
    a.u8(min_len as u8);
    if v >= 4 {
        a.u8(max_ops as u8);
    }
    a.u8(default_is_stmt as u8).u8(line_base as i8 as u8).u8(line_range as u8).u8(opcode_base as u8);
    for k in 1..opcode_base {
        if k <= 12 {
            a.u8(STD_LENGTHS[(k - 1) as usize]);
        } else {
            a.u8(extra_lengths[(k - 13) as usize]);
        }
    }
    // tables
    let ndirs = 1 + r.below(3); // v5: incl. dir 0; v<=4: include dirs 1..
    let nfiles = 1 + r.below(3);
    let mut nfile_total: u64; // number of valid file indices (upper bound, exclusive for v5 / inclusive for v<=4)
    if v >= 5 {
        let sform = |r: &mut Rng| -> u64 { *r.pick(&[0x08u64, 0x1f, 0x0e]) };
        let emit_str = |a: &mut Asm, form: u64, s: &[u8], line_str: &mut Pool, strs: &mut Pool| match form {
            0x08 => {
                a.cstr(s);
            }
            0x1f => {
                let o = line_str.add(s);
                a.word(w, o);
            }
            _ => {
                let o = strs.add(s);
                a.word(w, o);
            }
        };
        let dform = sform(r);
        a.u8(1).uleb(1).uleb(dform);
        a.uleb(ndirs);
        for k in 0..ndirs {
            let s = if k == 0 { b"/comp/dir".to_vec() } else { format!("inc{}", k).into_bytes() };
            emit_str(a, dform, &s, line_str, strs);
        }
        let pform = sform(r);
        let iform = *r.pick(&[0x0fu64, 0x0b, 0x05]); // udata, data1, data2
        let has_time = r.chance(1, 3);
        let has_size = r.chance(1, 3);
        let has_md5 = r.chance(1, 2);
        let tform = *r.pick(&[0x0fu64, 0x06, 0x07]); // udata, data4, data8
        let count = 2 + has_time as u8 + has_size as u8 + has_md5 as u8;
        a.u8(count).uleb(1).uleb(pform).uleb(2).uleb(iform);
        if has_time {
            a.uleb(3).uleb(tform);
        }
        if has_size {
            a.uleb(4).uleb(tform);
        }
        if has_md5 {
            a.uleb(5).uleb(0x1e);
        }
        a.uleb(nfiles + 1);
        for k in 0..(nfiles + 1) {
            let s = if k == 0 { b"unit.c".to_vec() } else { format!("f{}.h", k).into_bytes() };
            emit_str(a, pform, &s, line_str, strs);
            let d = if k == 0 { 0 } else { r.below(ndirs) };
            match iform {
                0x0f => {
                    a.uleb(d);
                }
                0x0b => {
                    a.u8(d as u8);
                }
                _ => {
                    a.u16(d as u16);
                }
            }
            for present in [has_time, has_size] {
                if present {
                    let val = r.boundary();
                    match tform {
                        0x0f => {
                            a.uleb(val);
                        }
                        0x06 => {
                            a.u32(val as u32);
                        }
                        _ => {
                            a.u64(val);
                        }
                    }
                }
            }
            if has_md5 {
                a.bytes(&r.bytes(16));
            }
        }
        nfile_total = nfiles + 1;
    } else {
        for k in 1..ndirs {
            a.cstr(format!("inc{}", k).as_bytes());
        }
        a.u8(0);
        for k in 0..nfiles {
            a.cstr(format!("f{}.h", k + 1).as_bytes());
            a.uleb(r.below(ndirs)).uleb(r.boundary()).uleb(r.boundary());
        }
        a.u8(0);
        nfile_total = nfiles;
    }
    let hlen = (a.len() - hstart) as u64;
    a.patch_uint(hl_at, if w { 8 } else { 4 }, hlen);

    // ---- program
    let have = |op: u64| op < opcode_base;
    let budget: u64 = (mask / 2).min(1 << 40);
    let mut forced_done = force.is_none();
    let nseq = 1 + r.below(3);
    let mut next_base: u64 = (1 + r.below(8)) * min_len;
    for s in 0..nseq {
        // registers
        let mut addr: u64;
        let mut op_index: u64 = 0;
        let mut line: i64 = 1;
        let tomb = r.chance(1, 12) && force.is_none() && !plain;
        if s == 0 && r.chance(1, 10) && force.is_none() && !plain {
            addr = 0; // no set_address at all
        } else if tomb {
            addr = mask;
            a.u8(0).uleb(1 + asz as u64).u8(2).uint(asz, mask);
            st.ops.push("set_address.tombstone");
        } else {
            addr = next_base & mask;
            if !plain && have(2) && r.chance(1, 4) {
                // an advance that the following set_address overrides (valid DWARF; the
                // converter must not let it leak into the converted rows); kept small so
                // that the set_address is not a decrease (which would tombstone the sequence)
                let adv = 1 + r.below(((addr / min_len.max(1)).min(6)).max(1));
                if min_len.wrapping_mul(adv) <= addr {
                    a.u8(2).uleb(adv);
                    st.ops.push("advance_before_set_address");
                }
            }
            a.u8(0).uleb(1 + asz as u64).u8(2).uint(asz, addr);
            st.ops.push("set_address");
        }
        let start = addr;
        let nrows = 1 + r.below(7);
        let mut row = 0;
        while row < nrows {
            // register-setting operations
            for _ in 0..r.below(4) {
                let pick = if !forced_done && r.chance(1, 2) { 99 } else { r.below(11) };
                let f = force.unwrap_or("");
                let sel: &str = if pick == 99 {
                    f
                } else {
                    ["set_file", "set_column", "negate_stmt", "set_basic_block", "set_prologue_end", "set_epilogue_begin", "set_isa", "set_discriminator", "advance_line", "define_file", "unknown"][pick as usize]
                };
                match sel {
                    "set_file" if have(4) => {
                        let f = if v >= 5 { r.below(nfile_total) } else { 1 + r.below(nfile_total) };
                        a.u8(4).uleb(f);
                        st.ops.push("set_file");
                    }
                    "set_column" if have(5) => {
                        a.u8(5).uleb(r.small(70000));
                        st.ops.push("set_column");
                    }
                    "negate_stmt" if have(6) => {
                        a.u8(6);
                        st.ops.push("negate_stmt");
                    }
                    "set_basic_block" if have(7) => {
                        a.u8(7);
                        st.ops.push("set_basic_block");
                    }
                    "set_prologue_end" if have(10) && v >= 3 => {
                        a.u8(10);
                        st.ops.push("set_prologue_end");
                    }
                    "set_epilogue_begin" if have(11) && v >= 3 => {
                        a.u8(11);
                        st.ops.push("set_epilogue_begin");
                    }
                    "set_isa" if have(12) && v >= 3 => {
                        a.u8(12).uleb(r.small(300));
                        st.ops.push("set_isa");
                    }
                    "set_discriminator" if v >= 4 => {
                        let d = r.small(500);
                        let b = uleb_bytes(d);
                        a.u8(0).uleb(1 + b.len() as u64).u8(4).bytes(&b);
                        st.ops.push("set_discriminator");
                    }
                    "advance_line" if have(3) => {
                        let d: i64 = match r.below(4) {
                            0 => r.irange(-(line - 1).min(1000), 1000),
                            1 => r.irange(0, 0x7fff_0000 - line.min(0x7fff_0000)),
                            2 => -(line - 1),
                            _ => r.irange(-(line - 1).min(5), 20),
                        };
                        line += d;
                        a.u8(3).sleb(d);
                        st.ops.push("advance_line");
                    }
                    "define_file" if v <= 4 => {
                        let name = format!("def{}.c", nfile_total);
                        let mut body = Asm::new(enc.le);
                        body.u8(3).cstr(name.as_bytes()).uleb(r.below(ndirs)).uleb(r.boundary()).uleb(r.boundary());
                        a.u8(0).uleb(body.len() as u64).bytes(&body.buf);
                        nfile_total += 1;
                        st.ops.push("define_file");
                    }
                    "unknown" | "unknown_extended" => {
                        // unknown extended opcode: skipped by consumers
                        let payload = rbytes(r, 4);
                        a.u8(0).uleb(1 + payload.len() as u64).u8(0x80).bytes(&payload);
                        st.ops.push("unknown_extended");
                    }
                    "unknown_standard" if opcode_base > 13 => {
                        let op = 13 + r.below(opcode_base - 13);
                        a.u8(op as u8);
                        for _ in 0..extra_lengths[(op - 13) as usize] {
                            a.uleb(r.small(1000));
                        }
                        st.ops.push("unknown_standard");
                    }
                    _ => {}
                }
                if pick == 99 && st.ops.last().copied() == force {
                    forced_done = true;
                }
            }
            // address-changing operation
            let room = addr.wrapping_sub(start) < budget;
            let f = force.unwrap_or("");
            let which = if !forced_done && matches!(f, "advance_pc" | "const_add_pc" | "fixed_advance_pc" | "set_address.mid_sequence") {
                f
            } else {
                *r.pick(&["none", "none", "advance_pc", "const_add_pc", "fixed_advance_pc", "set_address.mid_sequence", "none"])
            };
            let op_adv_apply = |addr: &mut u64, op_index: &mut u64, adv: u64| {
                if max_ops == 1 {
                    *addr = addr.wrapping_add(min_len.wrapping_mul(adv));
                } else {
                    let t = *op_index + adv;
                    *addr = addr.wrapping_add(min_len.wrapping_mul(t / max_ops));
                    *op_index = t % max_ops;
                }
            };
            if room && !tomb {
                match which {
                    "advance_pc" if have(2) => {
                        let adv = match r.below(4) {
                            0 => r.small(100_000).min(budget / (4 * min_len).max(1)),
                            _ => r.below(20),
                        };
                        a.u8(2).uleb(adv);
                        op_adv_apply(&mut addr, &mut op_index, adv);
                        st.ops.push("advance_pc");
                        if which == f {
                            forced_done = true;
                        }
                    }
                    "const_add_pc" if have(8) && mask > 0xffff => {
                        let adv = (255 - opcode_base) / line_range;
                        a.u8(8);
                        op_adv_apply(&mut addr, &mut op_index, adv);
                        st.ops.push("const_add_pc");
                        if which == f {
                            forced_done = true;
                        }
                    }
                    "fixed_advance_pc" if have(9) && mask > 0xff => {
                        // multiples of min_len (the writer documents aligned offsets); > 0 when op_index > 0
                        let k = if op_index > 0 { 1 + r.below(8) } else { r.below(8) };
                        let operand = (k * min_len).min(0xffff);
                        a.u8(9).u16(operand as u16);
                        addr = addr.wrapping_add(operand);
                        op_index = 0;
                        st.ops.push("fixed_advance_pc");
                        if which == f {
                            forced_done = true;
                        }
                    }
                    "set_address.mid_sequence" if row > 0 && !(super::SKIP_VLIW_MID_SEQUENCE_SET_ADDRESS && max_ops > 1) => {
                        if r.chance(1, 2) {
                            // a dead advance (no row) immediately before the set_address
                            match r.below(3) {
                                0 if have(8) && mask > 0xffff => {
                                    a.u8(8);
                                    op_adv_apply(&mut addr, &mut op_index, (255 - opcode_base) / line_range);
                                    st.ops.push("advance_before_set_address");
                                }
                                1 if have(9) && mask > 0xff => {
                                    let operand = ((1 + r.below(8)) * min_len).min(0xffff);
                                    a.u8(9).u16(operand as u16);
                                    addr = addr.wrapping_add(operand);
                                    op_index = 0;
                                    st.ops.push("advance_before_set_address");
                                }
                                _ if have(2) => {
                                    let adv = 1 + r.below(20);
                                    a.u8(2).uleb(adv);
                                    op_adv_apply(&mut addr, &mut op_index, adv);
                                    st.ops.push("advance_before_set_address");
                                }
                                _ => {}
                            }
                        }
                        let bump = (if op_index > 0 { 1 + r.below(8) } else { r.below(8) }) * min_len;
                        addr = addr.wrapping_add(bump);
                        op_index = 0;
                        a.u8(0).uleb(1 + asz as u64).u8(2).uint(asz, addr);
                        st.ops.push("set_address.mid_sequence");
                        if which == f {
                            forced_done = true;
                        }
                    }
                    _ => {}
                }
            }
            // the row: copy or a special opcode
            let want_special = r.chance(2, 3) || (!forced_done && f == "special");
            let mut emitted = false;
            if want_special {
                // choose (line_adv, op_adv) that fits
                for _ in 0..4 {
                    let line_adv = line_base + r.below(line_range) as i64;
                    let op_adv = if room && !tomb { r.below(4) } else { 0 };
                    let opcode = (line_adv - line_base) as u64 + line_range * op_adv + opcode_base;
                    if opcode <= 255 && line + line_adv >= 1 {
                        a.u8(opcode as u8);
                        line += line_adv;
                        op_adv_apply(&mut addr, &mut op_index, op_adv);
                        st.ops.push("special");
                        if f == "special" {
                            forced_done = true;
                        }
                        emitted = true;
                        break;
                    }
                }
            }
            if !emitted {
                if have(1) {
                    a.u8(1);
                    st.ops.push("copy");
                } else {
                    // no copy opcode: special opcode with zero advances, if representable
                    let opcode = (0 - line_base) as u64 + opcode_base;
                    a.u8(opcode as u8);
                    st.ops.push("special");
                }
            }
            if !tomb {
                st.rows += 1;
            }
            row += 1;
        }
        // end of sequence: advance, then end_sequence
        if !tomb && addr.wrapping_sub(start) < budget && have(2) {
            let adv = 1 + r.below(16);
            a.u8(2).uleb(adv);
            if max_ops == 1 {
                addr = addr.wrapping_add(min_len * adv);
            } else {
                let t = op_index + adv;
                addr = addr.wrapping_add(min_len * (t / max_ops));
            }
        }
        a.u8(0).uleb(1).u8(1);
        st.ops.push("end_sequence");
        next_base = if tomb { next_base } else { (addr.wrapping_add(min_len * (1 + r.below(4)))) & mask };
        if next_base >= mask.saturating_sub(0x200) {
            break;
        }
    }
    a.end_length(m);
}

pub const LINE_FORCE: &[&str] = &[
    "set_file",
    "set_column",
    "negate_stmt",
    "set_basic_block",
    "set_prologue_end",
    "set_epilogue_begin",
    "set_isa",
    "set_discriminator",
    "advance_line",
    "define_file",
    "unknown_extended",
    "unknown_standard",
    "advance_pc",
    "const_add_pc",
    "fixed_advance_pc",
    "set_address.mid_sequence",
    "special",
];

fn line_case(ctx: &mut Ctx, stream: &str, i: u64, enc: Enc, force: Option<&'static str>) {
    let mut r = ctx.rng(stream, i);
    ctx.eval();
    let mut a = Asm::new(enc.le);
    a.map = false;
    let mut line_str = Pool::default();
    let mut strs = Pool::default();
    let mut st = LineStats { ops: vec![], rows: 0 };
    gen_line_program(&mut r, enc, &mut a, &mut line_str, &mut strs, force, false, &mut st);
    let mut secs = Secs::default();
    secs.set(SectionId::DebugLine, a.buf);
    if !line_str.buf.is_empty() {
        secs.set(SectionId::DebugLineStr, line_str.buf);
    }
    if !strs.buf.is_empty() {
        secs.set(SectionId::DebugStr, strs.buf);
    }
    let ops = st.ops.clone();
    let oks = check_line(ctx, "asm.line", &secs, enc, &|| json!({"ops": ops, "force": force}));
    if oks > 0 {
        let mut seen = std::collections::BTreeSet::new();
        for o in &st.ops {
            if seen.insert(*o) {
                ctx.obs(&format!("lnop.{}", o));
            }
        }
    }
    if st.rows >= 1 {
        ctx.nontrivial(secs.digest());
    }
    ctx.sample("asm.line", || json!({"enc": enc.label(), "ops": st.ops, "sections": secs.json()}));
}

// ---------------------------------------------------------------- units

#[derive(Clone, Debug)]
enum Part {
    Raw(Vec<u8>),
    /// reference to entry `target` (index into the unit's entry list, or global (unit, entry))
    Fix { size: FixSize, unit: usize, target: usize, section_rel: bool },
}

#[derive(Clone, Copy, Debug, PartialEq)]
enum FixSize {
    U8,
    U16,
    U32,
    U64,
    /// padded ULEB128 of exactly n bytes
    Uleb(usize),
    /// address-sized (ref_addr in DWARF 2)
    Word(usize),
}

impl FixSize {
    fn len(self) -> usize {
        match self {
            FixSize::U8 => 1,
            FixSize::U16 => 2,
            FixSize::U32 => 4,
            FixSize::U64 => 8,
            FixSize::Uleb(n) => n,
            FixSize::Word(n) => n,
        }
    }
}

fn parts_len(p: &[Part]) -> usize {
    p.iter()
        .map(|x| match x {
            Part::Raw(b) => b.len(),
            Part::Fix { size, .. } => size.len(),
        })
        .sum()
}

#[derive(Clone, Debug)]
struct AttrSpec {
    at: u64,
    form: u64,
    /// abbreviation-side constant for DW_FORM_implicit_const
    implicit: Option<i64>,
    /// use DW_FORM_indirect in the abbreviation and put the form in front of the value
    indirect: bool,
    parts: Vec<Part>,
}

#[derive(Clone, Debug)]
struct EntrySpec {
    tag: u64,
    depth: usize,
    force_children_flag: bool,
    attrs: Vec<AttrSpec>,
}

fn raw(b: Vec<u8>) -> Vec<Part> {
    vec![Part::Raw(b)]
}

struct Shared {
    abbrev: Asm,
    info: Asm,
    strs: Pool,
    line_str: Pool,
    str_offsets: Asm,
    addr: Asm,
    rnglists: Asm,
    loclists: Asm,
    ranges: Asm,
    loc: Asm,
    line: Asm,
}

/// Expression catalogue: raw bytes without entry references (usable inside lists).
fn simple_expr(r: &mut Rng, enc: Enc, obs: &mut Vec<&'static str>) -> Vec<u8> {
    let mut a = Asm::new(enc.le);
    match r.below(9) {
        0 => {
            // constants that re-encode shorter
            a.u8(0x0e).u64(3); // const8u 3 -> lit3
            a.u8(0x0c).u32(31); // const4u 31 -> lit31
            a.u8(0x0a).u16(32); // const2u 32 -> const1u
            a.u8(0x08).u8(0); // const1u 0 -> lit0
            a.u8(0x10).bytes(&crate::asm::uleb_padded(5, 3)); // padded constu
            a.u8(0x0f).u64(0xffff_ffff_ffff_ffff); // const8s -1
            a.u8(0x0d).u32(0xffff_ff00); // const4s -256
            a.u8(0x0b).u16(0x7fff).u8(0x09).u8(0x80);
            a.u8(0x11).sleb(*r.pick(&[0i64, -1, 63, 64, -64, -65, i64::MIN, i64::MAX]));
            obs.push("expr.const.shorter");
        }
        1 => {
            // lit1 bra->end ; lit2 ; skip -> end
            a.u8(0x31).u8(0x28).u16(4).u8(0x32).u8(0x2f).u16(0);
            obs.push("expr.branch.to_end");
        }
        2 => {
            // backward branch over a const that shrinks: const8u 5; dup; lit0; bra -> start; skip -> the dup
            a.u8(0x0e).u64(5); // offset 0..9
            a.u8(0x12); // 9
            a.u8(0x30); // 10
            a.u8(0x28).u16((-(14i32)) as u16); // 11..14 -> target 0
            a.u8(0x2f).u16((-(8i32)) as u16); // 14..17 -> target 9
            a.u8(0x9f);
            obs.push("expr.branch.backward");
            obs.push("expr.const.shorter");
        }
        3 => {
            // forward branch across constants that shrink
            a.u8(0x30).u8(0x28).u16(9 + 5); // bra over const8u + const4u
            a.u8(0x0e).u64(1).u8(0x0c).u32(2);
            a.u8(0x2f).u16(3).u8(0x0a).u16(300); // skip over const2u
            a.u8(0x96);
            obs.push("expr.const.shorter");
        }
        4 => {
            a.u8(0x03).uint(enc.addr as usize, r.boundary() & enc.addr_mask());
            a.u8(0x23).uleb(r.boundary());
            a.u8(0x06);
        }
        5 => {
            a.u8(0x50 + r.below(32) as u8).u8(0x93).uleb(r.small(64));
            a.u8(0x90).uleb(r.small(70000)).u8(0x9d).uleb(r.small(64)).uleb(r.small(8));
            a.u8(0x9e).uleb(3).bytes(&[1, 2, 3]).u8(0x93).uleb(3);
        }
        6 => {
            a.u8(0x70 + r.below(32) as u8).sleb(r.boundary() as i64);
            a.u8(0x92).uleb(r.small(300)).sleb(r.boundary() as i64);
            a.u8(0x91).sleb(r.boundary() as i64).u8(0x94).u8(*r.pick(&[1u8, 2, 4, 8, enc.addr]));
            a.u8(0x9c).u8(0x97).u8(0x9b).u8(0x18).u8(0x95).u8(2);
        }
        7 => {
            // every plain arithmetic / stack opcode
            for op in [0x12u8, 0x13, 0x14, 0x16, 0x17, 0x19, 0x1a, 0x1b, 0x1c, 0x1d, 0x1e, 0x1f, 0x20, 0x21, 0x22, 0x24, 0x25, 0x26, 0x27, 0x29, 0x2a, 0x2b, 0x2c, 0x2d, 0x2e, 0x96] {
                a.u8(op);
            }
            a.u8(0x15).u8(r.next() as u8);
            a.u8(0x9f);
        }
        _ => {
            // nested entry_value with a branch inside
            let mut inner = Asm::new(enc.le);
            inner.u8(0x50 + r.below(8) as u8);
            if r.bool() {
                inner.u8(0x31).u8(0x28).u16(1).u8(0x96);
            }
            let op = if r.bool() { 0xa3u8 } else { 0xf3 };
            a.u8(op).uleb(inner.len() as u64).bytes(&inner.buf);
            a.u8(0x9f);
        }
    }
    a.buf
}

/// Build one set of sections with `nunits` hand-assembled units.
/// `focus` (catalogue mode) forces a feature: 0.. = list kinds etc.
fn gen_info(r: &mut Rng, enc: Enc, focus: Option<u64>, obs: &mut Vec<&'static str>, total_entries: &mut usize) -> Secs {
    let v = enc.version;
    let w = enc.fmt64;
    let ws = enc.word() as usize;
    let asz = enc.addr as usize;
    let mask = enc.addr_mask();
    let le = enc.le;
    let mut sh = Shared {
        abbrev: Asm::new(le),
        info: Asm::new(le),
        strs: Pool::default(),
        line_str: Pool::default(),
        str_offsets: Asm::new(le),
        addr: Asm::new(le),
        rnglists: Asm::new(le),
        loclists: Asm::new(le),
        ranges: Asm::new(le),
        loc: Asm::new(le),
        line: Asm::new(le),
    };
    for x in [&mut sh.abbrev, &mut sh.info, &mut sh.str_offsets, &mut sh.addr, &mut sh.rnglists, &mut sh.loclists, &mut sh.ranges, &mut sh.loc, &mut sh.line] {
        x.map = false;
    }
    // some leading padding in the pools so that offset 0 is not the only value used
    sh.strs.add(b"pad");
    sh.line_str.add(b"lpad");
    let nunits = 1 + r.below(2) as usize;
    // plan entry counts first so that cross-unit references can name targets
    let counts: Vec<usize> = (0..nunits).map(|_| 1 + r.below(8) as usize).collect();
    let mut unit_specs: Vec<Vec<EntrySpec>> = vec![];
    let mut unit_starts: Vec<usize> = vec![];
    let mut unit_fix: Vec<Vec<(usize, Part)>> = vec![]; // (absolute position in info, fix)
    let mut entry_offsets: Vec<Vec<usize>> = vec![]; // absolute offsets in .debug_info

    for u in 0..nunits {
        let n = counts[u];
        // ---- per-unit tables
        let low_pc: Option<u64> = match focus.map(|f| f % 3).unwrap_or(r.below(3)) {
            0 => None,
            1 => Some(0),
            _ => Some((0x10 + r.below(0x40)) & mask),
        };
        // address table (v5)
        let mut addr_table: Vec<u64> = vec![];
        let mut addrx = |val: u64, t: &mut Vec<u64>| -> u64 {
            t.push(val);
            (t.len() - 1) as u64
        };
        // string offsets table (v5)
        let mut strx_table: Vec<u64> = vec![];

        // ---- lists
        // each list: (offset-or-index parts builder) ; we build the lists first, then attributes refer to them
        let mut range_list_offsets: Vec<u64> = vec![]; // section offsets
        let mut loc_list_offsets: Vec<u64> = vec![];
        let mut rnglists_base = 0u64;
        let mut loclists_base = 0u64;
        let nlists = 1 + r.below(3) as usize;
        if v >= 5 {
            // rnglists contribution
            {
                let a = &mut sh.rnglists;
                let m = a.begin_length(w);
                a.u16(5).u8(enc.addr).u8(0).u32(nlists as u32);
                rnglists_base = a.len() as u64;
                let table_at = a.len();
                for _ in 0..nlists {
                    a.word(w, 0);
                }
                for k in 0..nlists {
                    let off = a.len();
                    range_list_offsets.push(off as u64);
                    a.patch_uint(table_at + k * ws, ws, (off - table_at) as u64);
                    let kinds = 1 + r.below(5);
                    for j in 0..kinds {
                        let b = (0x20 + r.below(0x40)) & mask;
                        let len = 1 + r.below(0x10);
                        let e = (b + len) & mask;
                        let kind = match focus {
                            Some(f) if j == 0 && k == 0 => (f / 3) % 7,
                            _ => r.below(7),
                        };
                        match kind {
                            0 => {
                                let i = addrx((0x10 + r.below(0x30)) & mask, &mut addr_table);
                                a.u8(1).uleb(i);
                                obs.push("rle.base_addressx");
                            }
                            1 => {
                                let i = addrx(b, &mut addr_table);
                                let j2 = addrx(e, &mut addr_table);
                                a.u8(2).uleb(i).uleb(j2);
                                obs.push("rle.startx_endx");
                            }
                            2 => {
                                let i = addrx(b, &mut addr_table);
                                a.u8(3).uleb(i).uleb(len);
                                obs.push("rle.startx_length");
                            }
                            3 => {
                                a.u8(4).uleb(r.below(0x20)).uleb(0x20 + r.below(0x20));
                                obs.push("rle.offset_pair");
                            }
                            4 => {
                                a.u8(5).uint(asz, (0x10 + r.below(0x30)) & mask);
                                obs.push("rle.base_address");
                            }
                            5 => {
                                a.u8(6).uint(asz, b).uint(asz, e);
                                obs.push("rle.start_end");
                            }
                            _ => {
                                a.u8(7).uint(asz, b).uleb(if r.chance(1, 8) { 0 } else { len });
                                obs.push("rle.start_length");
                            }
                        }
                    }
                    a.u8(0);
                }
                a.end_length(m);
            }
            {
                let mut exprs: Vec<Vec<u8>> = vec![];
                for _ in 0..8 {
                    exprs.push(simple_expr(r, enc, obs));
                }
                let a = &mut sh.loclists;
                let m = a.begin_length(w);
                a.u16(5).u8(enc.addr).u8(0).u32(nlists as u32);
                loclists_base = a.len() as u64;
                let table_at = a.len();
                for _ in 0..nlists {
                    a.word(w, 0);
                }
                for k in 0..nlists {
                    let off = a.len();
                    loc_list_offsets.push(off as u64);
                    a.patch_uint(table_at + k * ws, ws, (off - table_at) as u64);
                    let kinds = 1 + r.below(5);
                    for j in 0..kinds {
                        let b = (0x20 + r.below(0x40)) & mask;
                        let len = 1 + r.below(0x10);
                        let e = (b + len) & mask;
                        let x = exprs[r.usize(exprs.len())].clone();
                        let kind = match focus {
                            Some(f) if j == 0 && k == 0 => (f / 3) % 8,
                            _ => r.below(8),
                        };
                        match kind {
                            0 => {
                                let i = addrx((0x10 + r.below(0x30)) & mask, &mut addr_table);
                                a.u8(1).uleb(i);
                                obs.push("lle.base_addressx");
                            }
                            1 => {
                                let i = addrx(b, &mut addr_table);
                                let j2 = addrx(e, &mut addr_table);
                                a.u8(2).uleb(i).uleb(j2).uleb(x.len() as u64).bytes(&x);
                                obs.push("lle.startx_endx");
                            }
                            2 => {
                                let i = addrx(b, &mut addr_table);
                                a.u8(3).uleb(i).uleb(len).uleb(x.len() as u64).bytes(&x);
                                obs.push("lle.startx_length");
                            }
                            3 => {
                                a.u8(4).uleb(r.below(0x20)).uleb(0x20 + r.below(0x20)).uleb(x.len() as u64).bytes(&x);
                                obs.push("lle.offset_pair");
                            }
                            4 => {
                                a.u8(5).uleb(x.len() as u64).bytes(&x);
                                obs.push("lle.default_location");
                            }
                            5 => {
                                a.u8(6).uint(asz, (0x10 + r.below(0x30)) & mask);
                                obs.push("lle.base_address");
                            }
                            6 => {
                                a.u8(7).uint(asz, b).uint(asz, e).uleb(x.len() as u64).bytes(&x);
                                obs.push("lle.start_end");
                            }
                            _ => {
                                a.u8(8).uint(asz, b).uleb(len).uleb(x.len() as u64).bytes(&x);
                                obs.push("lle.start_length");
                            }
                        }
                    }
                    a.u8(0);
                }
                a.end_length(m);
            }
        } else {
            // legacy lists: "based" when the unit has a non-zero low_pc or the list starts with a
            // base selection entry; "absolute" otherwise
            let unit_based = matches!(low_pc, Some(x) if x != 0);
            for k in 0..nlists {
                let a = &mut sh.ranges;
                range_list_offsets.push(a.len() as u64);
                let select = r.chance(1, 3) || matches!(focus, Some(f) if k == 0 && (f / 3) % 2 == 1);
                if select {
                    a.uint(asz, mask).uint(asz, (0x10 + r.below(0x30)) & mask);
                }
                if unit_based || select {
                    obs.push("legacy.ranges.based");
                } else {
                    obs.push("legacy.ranges.absolute");
                }
                for _ in 0..(1 + r.below(4)) {
                    let b = (1 + r.below(0x30)) & mask;
                    let e = (b + if r.chance(1, 8) { 0 } else { 1 + r.below(0x10) }) & mask;
                    if b == 0 && e == 0 {
                        continue;
                    }
                    a.uint(asz, b).uint(asz, e);
                }
                a.uint(asz, 0).uint(asz, 0);
            }
            let mut exprs: Vec<Vec<u8>> = vec![];
            for _ in 0..6 {
                exprs.push(simple_expr(r, enc, obs));
            }
            for k in 0..nlists {
                let a = &mut sh.loc;
                loc_list_offsets.push(a.len() as u64);
                let select = r.chance(1, 3) || matches!(focus, Some(f) if k == 0 && (f / 3) % 2 == 1);
                if select {
                    a.uint(asz, mask).uint(asz, (0x10 + r.below(0x30)) & mask);
                }
                if unit_based || select {
                    obs.push("legacy.loc.based");
                } else {
                    obs.push("legacy.loc.absolute");
                }
                for _ in 0..(1 + r.below(3)) {
                    let b = (1 + r.below(0x30)) & mask;
                    let e = (b + 1 + r.below(0x10)) & mask;
                    let x = exprs[r.usize(exprs.len())].clone();
                    a.uint(asz, b).uint(asz, e).u16(x.len() as u16).bytes(&x);
                }
                a.uint(asz, 0).uint(asz, 0);
            }
        }

        // ---- line program for this unit
        let line_off = sh.line.len() as u64;
        let mut lst = LineStats { ops: vec![], rows: 0 };
        {
            let mut dummy = Pool::default();
            std::mem::swap(&mut dummy, &mut sh.line_str);
            let mut dummy2 = Pool::default();
            std::mem::swap(&mut dummy2, &mut sh.strs);
            gen_line_program(r, enc, &mut sh.line, &mut dummy, &mut dummy2, None, true, &mut lst);
            sh.line_str = dummy;
            sh.strs = dummy2;
        }

        // ---- helpers for forms
        let sec_off_form = |r: &mut Rng| -> u64 {
            if v >= 4 {
                0x17
            } else if w {
                0x07
            } else {
                let _ = r;
                0x06
            }
        };
        let mut string_attr = |r: &mut Rng, at: u64, s: &[u8], strs: &mut Pool, line_str: &mut Pool, obs: &mut Vec<&'static str>| -> AttrSpec {
            let choice = r.below(if v >= 5 { 8 } else { 2 });
            let (form, bytes): (u64, Vec<u8>) = match choice {
                0 => {
                    let mut b = s.to_vec();
                    b.push(0);
                    (0x08, b)
                }
                1 => {
                    let o = strs.add(s);
                    let mut a = Asm::new(le);
                    a.word(w, o);
                    (0x0e, a.buf)
                }
                2 => {
                    let o = line_str.add(s);
                    let mut a = Asm::new(le);
                    a.word(w, o);
                    (0x1f, a.buf)
                }
                k => {
                    let o = strs.add(s);
                    strx_table.push(o);
                    let i = (strx_table.len() - 1) as u64;
                    obs.push("form.strx");
                    let mut a = Asm::new(le);
                    match k {
                        3 => {
                            a.uleb(i);
                            (0x1a, a.buf)
                        }
                        4 => {
                            a.u8(i as u8);
                            (0x25, a.buf)
                        }
                        5 => {
                            a.u16(i as u16);
                            (0x26, a.buf)
                        }
                        6 => {
                            a.uint(3, i);
                            (0x27, a.buf)
                        }
                        _ => {
                            a.u32(i as u32);
                            (0x28, a.buf)
                        }
                    }
                }
            };
            AttrSpec { at, form, implicit: None, indirect: false, parts: raw(bytes) }
        };

        // ---- entries
        let mut specs: Vec<EntrySpec> = vec![];
        // root
        {
            let mut attrs = vec![];
            attrs.push(string_attr(r, 0x03, b"unit.c", &mut sh.strs, &mut sh.line_str, obs));
            attrs.push(string_attr(r, 0x1b, b"/comp/dir", &mut sh.strs, &mut sh.line_str, obs));
            if let Some(lp) = low_pc {
                let mut a = Asm::new(le);
                if v >= 5 && r.bool() {
                    let i = addrx(lp, &mut addr_table);
                    a.uleb(i);
                    obs.push("form.addrx");
                    attrs.push(AttrSpec { at: 0x11, form: 0x1b, implicit: None, indirect: false, parts: raw(a.buf) });
                } else {
                    a.uint(asz, lp);
                    attrs.push(AttrSpec { at: 0x11, form: 0x01, implicit: None, indirect: false, parts: raw(a.buf) });
                }
            }
            {
                let f = sec_off_form(r);
                let mut a = Asm::new(le);
                a.word(w, line_off);
                attrs.push(AttrSpec { at: 0x10, form: f, implicit: None, indirect: false, parts: raw(a.buf) });
            }
            // the base attributes are patched in after the tables are laid out: placeholders
            if v >= 5 {
                for at in [0x72u64, 0x73, 0x74, 0x8c] {
                    // str_offsets_base, addr_base, rnglists_base, loclists_base
                    let mut a = Asm::new(le);
                    a.word(w, 0);
                    attrs.push(AttrSpec { at, form: 0x17, implicit: None, indirect: false, parts: raw(a.buf) });
                }
            }
            r.shuffle(&mut attrs);
            specs.push(EntrySpec { tag: 0x11, depth: 0, force_children_flag: false, attrs });
        }
        let mut depth = 1usize;
        for k in 1..=n {
            let tag = *r.pick(&[0x24u64, 0x2e, 0x34, 0x05, 0x0b, 0x13, 0x0d, 0x16, 0x0f, 0x39, 0x04, 0x28, 0x1d, 0x4109]);
            // first entries: base types at depth 1 (targets of typed operations)
            let (tag, d) = if k <= 2 { (0x24, 1) } else { (tag, depth) };
            let mut attrs: Vec<AttrSpec> = vec![];
            let mut names: Vec<u64> = (0..22).collect();
            r.shuffle(&mut names);
            let take = r.below(6) as usize;
            for &which in names.iter().take(take) {
                let simple = |at: u64, form: u64, b: Vec<u8>| AttrSpec { at, form, implicit: None, indirect: false, parts: raw(b) };
                let mut a = Asm::new(le);
                let spec: Option<AttrSpec> = match which {
                    0 => Some(string_attr(r, 0x03, format!("e{}", k).as_bytes(), &mut sh.strs, &mut sh.line_str, obs)),
                    1 => Some(string_attr(r, 0x6e, b"_Zlinkage", &mut sh.strs, &mut sh.line_str, obs)),
                    2 => {
                        // low_pc: addr / addrx*
                        let val = (0x10 + r.below(0x60)) & mask;
                        if v >= 5 && r.chance(2, 3) {
                            let i = addrx(val, &mut addr_table);
                            obs.push("form.addrx");
                            Some(match r.below(5) {
                                0 => {
                                    a.uleb(i);
                                    simple(0x11, 0x1b, a.buf)
                                }
                                1 => {
                                    a.u8(i as u8);
                                    simple(0x11, 0x29, a.buf)
                                }
                                2 => {
                                    a.u16(i as u16);
                                    simple(0x11, 0x2a, a.buf)
                                }
                                3 => {
                                    a.uint(3, i);
                                    simple(0x11, 0x2b, a.buf)
                                }
                                _ => {
                                    a.u32(i as u32);
                                    simple(0x11, 0x2c, a.buf)
                                }
                            })
                        } else {
                            a.uint(asz, val);
                            Some(simple(0x11, 0x01, a.buf))
                        }
                    }
                    3 => {
                        // high_pc: data1/2/4/8/udata/sdata or addr
                        let val = r.boundary();
                        Some(match r.below(7) {
                            0 => {
                                a.u8(val as u8);
                                simple(0x12, 0x0b, a.buf)
                            }
                            1 => {
                                a.u16(val as u16);
                                simple(0x12, 0x05, a.buf)
                            }
                            2 => {
                                a.u32(val as u32);
                                simple(0x12, 0x06, a.buf)
                            }
                            3 => {
                                a.u64(val);
                                simple(0x12, 0x07, a.buf)
                            }
                            4 => {
                                a.uleb(val);
                                simple(0x12, 0x0f, a.buf)
                            }
                            5 => {
                                a.sleb((val >> 1) as i64);
                                simple(0x12, 0x0d, a.buf)
                            }
                            _ => {
                                a.uint(asz, val & mask);
                                simple(0x12, 0x01, a.buf)
                            }
                        })
                    }
                    4 => {
                        // const_value: every data form, blocks, strings
                        let val = r.boundary();
                        Some(match r.below(11) {
                            0 => {
                                a.u8(val as u8);
                                simple(0x1c, 0x0b, a.buf)
                            }
                            1 => {
                                a.u16(val as u16);
                                simple(0x1c, 0x05, a.buf)
                            }
                            2 => {
                                a.u32(val as u32);
                                simple(0x1c, 0x06, a.buf)
                            }
                            3 => {
                                a.u64(val);
                                simple(0x1c, 0x07, a.buf)
                            }
                            4 => {
                                a.uleb(val);
                                simple(0x1c, 0x0f, a.buf)
                            }
                            5 => {
                                a.sleb(val as i64);
                                simple(0x1c, 0x0d, a.buf)
                            }
                            6 if v >= 5 => {
                                a.u128(((val as u128) << 64) | r.next() as u128);
                                simple(0x1c, 0x1e, a.buf)
                            }
                            7 => {
                                let b = rbytes(r, 20);
                                a.u8(b.len() as u8).bytes(&b);
                                simple(0x1c, 0x0a, a.buf)
                            }
                            8 => {
                                let b = rbytes(r, 300);
                                a.u16(b.len() as u16).bytes(&b);
                                simple(0x1c, 0x03, a.buf)
                            }
                            9 => {
                                let b = rbytes(r, 20);
                                a.u32(b.len() as u32).bytes(&b);
                                simple(0x1c, 0x04, a.buf)
                            }
                            _ => {
                                let b = rbytes(r, 200);
                                a.uleb(b.len() as u64).bytes(&b);
                                simple(0x1c, 0x09, a.buf)
                            }
                        })
                    }
                    5 if v >= 5 => Some(AttrSpec { at: 0x3b, form: 0x21, implicit: Some(r.boundary() as i64), indirect: false, parts: vec![] }),
                    6 => {
                        // flags
                        Some(if v >= 4 && r.bool() {
                            simple(0x3f, 0x19, vec![])
                        } else {
                            simple(0x3f, 0x0c, vec![*r.pick(&[0u8, 1, 2, 0xff])])
                        })
                    }
                    7 | 8 => {
                        // references of every form to an entry of this unit (or another)
                        let at = if which == 7 { 0x49 } else { 0x47 };
                        let target_unit = if r.chance(1, 4) { r.usize(nunits) } else { u };
                        let t = r.usize(counts[target_unit] + 1);
                        if target_unit != u {
                            let size = if v == 2 { FixSize::Word(asz) } else if w { FixSize::U64 } else { FixSize::U32 };
                            if asz < 2 && v == 2 {
                                None
                            } else {
                                Some(AttrSpec { at, form: 0x10, implicit: None, indirect: false, parts: vec![Part::Fix { size, unit: target_unit, target: t, section_rel: true }] })
                            }
                        } else {
                            let (form, size, sect) = match r.below(6) {
                                0 => (0x11, FixSize::U8, false),
                                1 => (0x12, FixSize::U16, false),
                                2 => (0x13, FixSize::U32, false),
                                3 => (0x14, FixSize::U64, false),
                                4 => (0x15, FixSize::Uleb(3), false),
                                _ => {
                                    if v == 2 {
                                        (0x10, FixSize::Word(asz), true)
                                    } else if w {
                                        (0x10, FixSize::U64, true)
                                    } else {
                                        (0x10, FixSize::U32, true)
                                    }
                                }
                            };
                            if matches!(size, FixSize::Word(1)) {
                                None
                            } else {
                                Some(AttrSpec { at, form, implicit: None, indirect: false, parts: vec![Part::Fix { size, unit: u, target: t, section_rel: sect }] })
                            }
                        }
                    }
                    9 if v >= 4 => {
                        a.u64(r.boundary());
                        Some(simple(0x69, 0x20, a.buf))
                    }
                    10 => {
                        // ranges
                        obs.push("attr.ranges");
                        if v >= 5 && r.bool() {
                            a.uleb(r.below(nlists as u64));
                            obs.push("form.rnglistx");
                            Some(simple(0x55, 0x23, a.buf))
                        } else {
                            a.word(w, range_list_offsets[r.usize(nlists)]);
                            Some(simple(0x55, sec_off_form(r), a.buf))
                        }
                    }
                    11 => {
                        // location list
                        obs.push("attr.loclist");
                        if v >= 5 && r.bool() {
                            a.uleb(r.below(nlists as u64));
                            obs.push("form.loclistx");
                            Some(simple(0x02, 0x22, a.buf))
                        } else {
                            a.word(w, loc_list_offsets[r.usize(nlists)]);
                            Some(simple(0x02, sec_off_form(r), a.buf))
                        }
                    }
                    12 | 13 => {
                        // expression: exprloc (v4+) or block forms
                        let at = if which == 12 { 0x40 } else { 0x38 };
                        let mut parts: Vec<Part> = vec![];
                        match r.below(4) {
                            0 if v >= 4 => {
                                // typed operations referring to the base types (entries 1, 2) by padded ULEB unit offset
                                let t = 1 + r.usize(2.min(n));
                                parts.push(Part::Raw(vec![0xa5, 5])); // regval_type reg5
                                parts.push(Part::Fix { size: FixSize::Uleb(2), unit: u, target: t, section_rel: false });
                                parts.push(Part::Raw(vec![0xa8]));
                                parts.push(Part::Fix { size: FixSize::Uleb(2), unit: u, target: t, section_rel: false });
                                parts.push(Part::Raw(vec![0xa6, 4]));
                                parts.push(Part::Fix { size: FixSize::Uleb(2), unit: u, target: t, section_rel: false });
                                parts.push(Part::Raw(vec![0xa4]));
                                parts.push(Part::Fix { size: FixSize::Uleb(2), unit: u, target: t, section_rel: false });
                                parts.push(Part::Raw(vec![2, 0xaa, 0xbb, 0xa9, 0x00, 0x9f]));
                                obs.push("expr.entry_ref");
                            }
                            1 => {
                                // call2 / call4 / call_ref / implicit_pointer / variable_value / parameter_ref
                                let t = r.usize(n + 1);
                                parts.push(Part::Raw(vec![0x98]));
                                parts.push(Part::Fix { size: FixSize::U16, unit: u, target: t, section_rel: false });
                                parts.push(Part::Raw(vec![0x99]));
                                parts.push(Part::Fix { size: FixSize::U32, unit: u, target: t, section_rel: false });
                                if v >= 3 {
                                    let sz = if w { FixSize::U64 } else { FixSize::U32 };
                                    parts.push(Part::Raw(vec![0x9a]));
                                    parts.push(Part::Fix { size: sz, unit: u, target: t, section_rel: true });
                                    parts.push(Part::Raw(vec![*r.pick(&[0xa0u8, 0xf2])]));
                                    parts.push(Part::Fix { size: sz, unit: u, target: t, section_rel: true });
                                    parts.push(Part::Raw(crate::asm::sleb_bytes(r.boundary() as i64)));
                                    parts.push(Part::Raw(vec![0xfd]));
                                    parts.push(Part::Fix { size: sz, unit: u, target: t, section_rel: true });
                                }
                                parts.push(Part::Raw(vec![0xfa]));
                                parts.push(Part::Fix { size: FixSize::U32, unit: u, target: t, section_rel: false });
                                obs.push("expr.entry_ref");
                            }
                            2 if v >= 5 => {
                                // addrx / constx
                                let i = addrx((0x40 + r.below(0x40)) & mask, &mut addr_table);
                                let j = addrx(r.boundary() & mask, &mut addr_table);
                                let mut e = Asm::new(le);
                                e.u8(0xa1).uleb(i).u8(0xa2).uleb(j).u8(0x22);
                                parts.push(Part::Raw(e.buf));
                                obs.push("form.addrx");
                            }
                            _ => parts.push(Part::Raw(simple_expr(r, enc, obs))),
                        }
                        let len = parts_len(&parts) as u64;
                        let (form, mut prefix) = if v >= 4 && r.chance(2, 3) {
                            (0x18u64, uleb_bytes(len))
                        } else {
                            match r.below(3) {
                                0 if len < 256 => (0x0a, vec![len as u8]),
                                1 => {
                                    let mut a2 = Asm::new(le);
                                    a2.u16(len as u16);
                                    (0x03, a2.buf)
                                }
                                _ => (0x09, uleb_bytes(len)),
                            }
                        };
                        let mut all = vec![Part::Raw(std::mem::take(&mut prefix))];
                        all.extend(parts);
                        Some(AttrSpec { at, form, implicit: None, indirect: false, parts: all })
                    }
                    14 => {
                        // decl_file: small index that exists (1..) with data1 / data2 / udata
                        let idx = 1u64;
                        Some(match r.below(3) {
                            0 => simple(0x3a, 0x0b, vec![idx as u8]),
                            1 => {
                                a.u16(idx as u16);
                                simple(0x3a, 0x05, a.buf)
                            }
                            _ => simple(0x3a, 0x0f, uleb_bytes(idx)),
                        })
                    }
                    15 => {
                        // named constants through various widths
                        let (at, val) = *r.pick(&[(0x3eu64, 5u64), (0x32, 2), (0x17, 1), (0x4c, 1), (0x36, 2), (0x20, 3), (0x09, 1), (0x42, 2), (0x33, 1), (0x65, 1), (0x5e, 5), (0x13, 0x1c)]);
                        Some(match r.below(3) {
                            0 => simple(at, 0x0b, vec![val as u8]),
                            1 => {
                                a.u16(val as u16);
                                simple(at, 0x05, a.buf)
                            }
                            _ => simple(at, 0x0f, uleb_bytes(val)),
                        })
                    }
                    16 => {
                        // byte_size via udata / sdata / data forms
                        let val = r.boundary();
                        Some(match r.below(4) {
                            0 => simple(0x0b, 0x0f, uleb_bytes(val)),
                            1 => simple(0x0b, 0x0d, crate::asm::sleb_bytes((val >> 1) as i64)),
                            2 => {
                                a.u32(val as u32);
                                simple(0x0b, 0x06, a.buf)
                            }
                            _ => {
                                a.u8(val as u8);
                                simple(0x0b, 0x0b, a.buf)
                            }
                        })
                    }
                    17 => {
                        // vendor attribute with an arbitrary simple form
                        let val = r.boundary();
                        Some(match r.below(4) {
                            0 => {
                                a.u32(val as u32);
                                simple(0x2007, 0x06, a.buf)
                            }
                            1 => simple(0x2007, 0x0d, crate::asm::sleb_bytes(val as i64)),
                            2 => simple(0x2007, 0x0c, vec![1]),
                            _ => {
                                let mut b = format!("vendor{}", val % 100).into_bytes();
                                b.push(0);
                                simple(0x2007, 0x08, b)
                            }
                        })
                    }
                    18 => {
                        // DW_AT_sibling: dropped from the dump and regenerated by the writer
                        let t = r.usize(n + 1);
                        Some(AttrSpec { at: 0x01, form: 0x13, implicit: None, indirect: false, parts: vec![Part::Fix { size: FixSize::U32, unit: u, target: t, section_rel: false }] })
                    }
                    19 if v >= 4 => {
                        // supplementary references (ref_sup4 in v5, GNU_ref_alt before) and strp_sup
                        if v >= 5 {
                            a.u32(r.boundary() as u32);
                            Some(simple(0x49 + 0x1000, 0x1c, a.buf)).map(|mut s: AttrSpec| {
                                s.at = 0x2008;
                                s
                            })
                        } else {
                            a.word(w, r.boundary_bits(if w { 64 } else { 32 }));
                            Some(simple(0x2008, 0x1f20, a.buf))
                        }
                    }
                    20 => {
                        // macro_info / macros raw offset
                        a.word(w, r.boundary_bits(if w { 64 } else { 32 }));
                        Some(simple(if v >= 5 { 0x79 } else { 0x43 }, sec_off_form(r), a.buf))
                    }
                    _ => None,
                };
                if let Some(mut sp) = spec {
                    if attrs.iter().any(|x: &AttrSpec| x.at == sp.at) {
                        continue;
                    }
                    if sp.form != 0x21 && r.chance(1, 12) {
                        sp.indirect = true;
                    }
                    attrs.push(sp);
                }
            }
            specs.push(EntrySpec { tag, depth: d, force_children_flag: r.chance(1, 8), attrs });
            // next depth
            depth = match r.below(4) {
                0 => d + 1,
                1 => d.saturating_sub(1).max(1),
                _ => d,
            };
            if k < 2 {
                depth = 1;
            }
        }
        *total_entries += specs.len();

        // ---- tables for this unit
        let mut str_offsets_base = 0u64;
        let mut addr_base = 0u64;
        if v >= 5 {
            let a = &mut sh.str_offsets;
            let m = a.begin_length(w);
            a.u16(5).u16(0);
            str_offsets_base = a.len() as u64;
            for o in &strx_table {
                a.word(w, *o);
            }
            a.end_length(m);
            let a = &mut sh.addr;
            let m = a.begin_length(w);
            a.u16(5).u8(enc.addr).u8(0);
            addr_base = a.len() as u64;
            for x in &addr_table {
                a.uint(asz, *x);
            }
            a.end_length(m);
        }
        // patch the base attributes of the root
        for at in specs[0].attrs.iter_mut() {
            let val = match at.at {
                0x72 => Some(str_offsets_base),
                0x73 => Some(addr_base),
                0x74 => Some(rnglists_base),
                0x8c => Some(loclists_base),
                _ => None,
            };
            if let Some(val) = val {
                let mut a = Asm::new(le);
                a.word(w, val);
                at.parts = raw(a.buf);
            }
        }

        // ---- abbreviations + unit
        let abbrev_off = sh.abbrev.len() as u64;
        for (k, e) in specs.iter().enumerate() {
            let has_children = e.force_children_flag || specs.get(k + 1).map(|nx| nx.depth > e.depth).unwrap_or(false);
            sh.abbrev.uleb(k as u64 + 1).uleb(e.tag).u8(has_children as u8);
            for at in &e.attrs {
                sh.abbrev.uleb(at.at);
                if at.indirect {
                    sh.abbrev.uleb(0x16);
                } else {
                    sh.abbrev.uleb(at.form);
                    if let Some(c) = at.implicit {
                        sh.abbrev.sleb(c);
                    }
                }
            }
            sh.abbrev.uleb(0).uleb(0);
        }
        sh.abbrev.uleb(0);
        let ustart = sh.info.len();
        unit_starts.push(ustart);
        let m = sh.info.begin_length(w);
        sh.info.u16(v);
        if v >= 5 {
            sh.info.u8(1).u8(enc.addr).word(w, abbrev_off);
        } else {
            sh.info.word(w, abbrev_off).u8(enc.addr);
        }
        let mut offs = vec![];
        let mut fixes = vec![];
        for (k, e) in specs.iter().enumerate() {
            offs.push(sh.info.len());
            let has_children = e.force_children_flag || specs.get(k + 1).map(|nx| nx.depth > e.depth).unwrap_or(false);
            sh.info.uleb(k as u64 + 1);
            for at in &e.attrs {
                if at.indirect {
                    sh.info.uleb(at.form);
                }
                for p in &at.parts {
                    match p {
                        Part::Raw(b) => {
                            sh.info.bytes(b);
                        }
                        Part::Fix { size, .. } => {
                            fixes.push((sh.info.len(), p.clone()));
                            for _ in 0..size.len() {
                                sh.info.u8(0);
                            }
                        }
                    }
                }
            }
            let open = e.depth + has_children as usize;
            let next_depth = specs.get(k + 1).map(|nx| nx.depth).unwrap_or(0);
            for _ in next_depth..open {
                sh.info.u8(0);
            }
        }
        sh.info.end_length(m);
        entry_offsets.push(offs);
        unit_fix.push(fixes);
        unit_specs.push(specs);
    }
    // ---- resolve fixups
    for u in 0..nunits {
        for (pos, p) in &unit_fix[u] {
            if let Part::Fix { size, unit, target, section_rel } = p {
                let t = entry_offsets[*unit].get(*target).copied().unwrap_or(entry_offsets[*unit][0]);
                let val = if *section_rel { t as u64 } else { (t - unit_starts[*unit]) as u64 };
                match size {
                    FixSize::U8 => sh.info.patch_uint(*pos, 1, val.min(0xff)),
                    FixSize::U16 => sh.info.patch_uint(*pos, 2, val.min(0xffff)),
                    FixSize::U32 => sh.info.patch_uint(*pos, 4, val),
                    FixSize::U64 => sh.info.patch_uint(*pos, 8, val),
                    FixSize::Word(n) => sh.info.patch_uint(*pos, *n, val),
                    FixSize::Uleb(n) => {
                        let b = crate::asm::uleb_padded(val, *n);
                        for (k, x) in b.iter().take(*n).enumerate() {
                            sh.info.buf[*pos + k] = *x;
                        }
                    }
                }
            }
        }
    }
    let mut out = Secs::default();
    out.set(SectionId::DebugAbbrev, sh.abbrev.buf);
    out.set(SectionId::DebugInfo, sh.info.buf);
    out.set(SectionId::DebugStr, sh.strs.buf);
    out.set(SectionId::DebugLineStr, sh.line_str.buf);
    out.set(SectionId::DebugLine, sh.line.buf);
    if v >= 5 {
        out.set(SectionId::DebugStrOffsets, sh.str_offsets.buf);
        out.set(SectionId::DebugAddr, sh.addr.buf);
        out.set(SectionId::DebugRngLists, sh.rnglists.buf);
        out.set(SectionId::DebugLocLists, sh.loclists.buf);
    } else {
        out.set(SectionId::DebugRanges, sh.ranges.buf);
        out.set(SectionId::DebugLoc, sh.loc.buf);
    }
    out
}

fn info_case(ctx: &mut Ctx, stream: &str, i: u64, enc: Enc, focus: Option<u64>) {
    let mut r = ctx.rng(stream, i);
    ctx.eval();
    let mut obs: Vec<&'static str> = vec![];
    let mut total = 0usize;
    let secs = gen_info(&mut r, enc, focus, &mut obs, &mut total);
    let oks = check_dwarf(ctx, "asm.info", &secs, enc, &|| json!({"focus": focus}));
    // per-feature success ratios (a converter that rejects every range / location list is not a
    // violation of C12 - Err is always acceptable - but must show up as inconclusive)
    for (feature, class) in [("attr.ranges", "asm.info.with_ranges"), ("attr.loclist", "asm.info.with_loclist")] {
        if obs.contains(&feature) {
            ctx.obs(&format!("class.{}.{}", class, if oks > 0 { "ok" } else { "err" }));
        }
    }
    if oks > 0 {
        let mut seen = std::collections::BTreeSet::new();
        for o in &obs {
            if seen.insert(*o) {
                ctx.obs(o);
            }
        }
    }
    if total >= 2 {
        ctx.nontrivial(secs.digest());
    }
    ctx.sample("asm.info", || json!({"enc": enc.label(), "entries": total, "sections": secs.json()}));
}

/// Minimal witness of the known finding `SKIP_VLIW_MID_SEQUENCE_SET_ADDRESS`:
/// v4, max_ops 4: set_address 0x1000; row with op_index k; set_address 0x2000; row with op_index 1.
fn vliw_witness(first_op_index: u8) -> Secs {
    let mut a = Asm::new(true);
    a.map = false;
    let m = a.begin_length(false);
    a.u16(4);
    let hl = a.len();
    a.u32(0);
    let hs = a.len();
    a.u8(1).u8(4).u8(1).u8(0).u8(1).u8(13);
    a.bytes(&STD_LENGTHS);
    a.u8(0); // no include directories
    a.cstr(b"a.c").uleb(0).uleb(0).uleb(0).u8(0);
    let hlen = (a.len() - hs) as u64;
    a.patch_uint(hl, 4, hlen);
    a.u8(0).uleb(9).u8(2).u64(0x1000);
    a.u8(13 + first_op_index); // special: op advance = first_op_index, line += 0
    a.u8(0).uleb(9).u8(2).u64(0x2000);
    a.u8(14); // op advance 1 -> (0x2000, op_index 1)
    a.u8(2).uleb(4);
    a.u8(0).uleb(1).u8(1);
    a.end_length(m);
    let mut secs = Secs::default();
    secs.set(SectionId::DebugLine, a.buf);
    secs
}

fn known_vliw(ctx: &mut Ctx) {
    for (i, k) in [1u8, 2].into_iter().enumerate() {
        if !ctx.want_hashed("known.vliw_set_address", i as u64) {
            continue;
        }
        let enc = Enc::new(true, false, 4, 8);
        let secs = vliw_witness(k);
        ctx.eval();
        if !super::SKIP_VLIW_MID_SEQUENCE_SET_ADDRESS {
            check_line(ctx, "asm.line", &secs, enc, &|| json!({"witness": "vliw mid-sequence set_address", "first_op_index": k}));
            continue;
        }
        // observation only while the finding is skipped
        let r = ctx.guard_raw("known.vliw_set_address", || -> Result<bool, String> {
            use crate::mon::dump;
            let endian = enc.endian();
            fn prog_of<'a>(d: &gimli::Dwarf<super::Slice<'a>>) -> gimli::Result<gimli::IncompleteLineProgram<super::Slice<'a>>> {
                d.debug_line.program(gimli::DebugLineOffset(0), 8, None, None)
            }
            let dwarf = super::load(&secs, endian);
            let d0 = dump::dump_line_program(&dwarf, None, prog_of(&dwarf).map_err(|e| format!("{:?}", e))?);
            let mut w = gimli::write::Dwarf::new();
            let program = w
                .read_line_program(&dwarf, prog_of(&dwarf).map_err(|e| format!("{:?}", e))?, None, None)
                .and_then(|cp| cp.convert(&super::identity_address))
                .map_err(|e| format!("{:?}", e))?
                .0;
            w.line_programs.push(program);
            let out = super::write_dwarf(&mut w, endian).map_err(|e| format!("{:?}", e))?;
            let dwarf1 = super::load(&out, endian);
            let d1 = dump::dump_line_program(&dwarf1, None, prog_of(&dwarf1).map_err(|e| format!("{:?}", e))?);
            Ok(dump::first_diff(&d0, &d1).is_none())
        });
        let outcome = match r {
            Err(p) => format!("panic.{}", crate::rt::panic_kind(&p.message).replace(' ', "_")),
            Ok(Err(_)) => "err".to_string(),
            Ok(Ok(true)) => "equal".to_string(),
            Ok(Ok(false)) => "op_index_altered".to_string(),
        };
        ctx.obs(&format!("known.vliw_set_address.first_op_index_{}.{}", k, outcome));
        ctx.sample("known.vliw_set_address", || json!({"first_op_index": k, "outcome": outcome, "sections": secs.json()}));
    }
}

pub fn run(ctx: &mut Ctx) {
    known_vliw(ctx);
    // ---- line programs: catalogue (every forced opcode x every version x both formats/endians by index), then random
    let ncat = (LINE_FORCE.len() * 4 * 4) as u64;
    for i in 0..ncat {
        if !ctx.want_hashed("asm.line.cat", i) {
            continue;
        }
        let force = LINE_FORCE[(i as usize) % LINE_FORCE.len()];
        let k = i / LINE_FORCE.len() as u64;
        let version = 2 + (k % 4) as u16;
        let addr = [2u8, 4, 8, 4][((k / 4) % 4) as usize];
        let enc = Enc::new(i % 2 == 0, (i / 2) % 3 == 0, version, addr);
        line_case(ctx, "asm.line.cat", i, enc, Some(force));
    }
    let n = ctx.size(3000, 40_000, 4);
    for i in 0..n {
        if !ctx.want_hashed("asm.line", i) {
            continue;
        }
        line_case(ctx, "asm.line", i, Enc::nth(i), None);
    }
    // ---- units: catalogue (list kind x base mode x version), then random
    let ncat = 3 * 8 * 4 * 2;
    for i in 0..ncat {
        if !ctx.want_hashed("asm.info.cat", i) {
            continue;
        }
        let focus = i % 24;
        let version = 2 + ((i / 24) % 4) as u16;
        let enc = Enc::new(i % 2 == 0, (i / 96) % 2 == 1, version, if i % 3 == 0 { 8 } else { 4 });
        info_case(ctx, "asm.info.cat", i, enc, Some(focus));
    }
    let n = ctx.size(2500, 40_000, 4);
    for i in 0..n {
        if !ctx.want_hashed("asm.info", i) {
            continue;
        }
        info_case(ctx, "asm.info", i, Enc::nth(i), None);
    }
}

//! C06 — unwind table rows equal DWARF call-frame semantics.
//!
//! Oracle: `model::cfi::interpret` (independent row interpreter with configurable storage)
//! run on the instruction list the hand assembler (`gen::cfi`) encoded.  Every row gimli
//! yields (start, end, CFA, every register rule, args size) is compared with the model's,
//! the number of rows before an error, and the specific error.  Both `UnwindTable` row
//! iteration and `FrameDescriptionEntry::unwind_info_for_address` are driven, with the
//! default heap storage and eight custom storages, on fresh and on reused contexts.

use crate::gen::cfi::{build, Built, CieSpec, Entry, FdeSpec, Ins, Item, Kind, SectionSpec};
use crate::model::cfi::{self as m, error_matches, interpret, row_from_gimli, Bases, CfiError, Limits, Row, Table};
use crate::props::PropInfo;
use crate::rt::{hex, Ctx, Rng};
use gimli::read::ReaderOffset;
use gimli::{
    BaseAddresses, DebugFrame, EhFrame, EndianSlice, FrameDescriptionEntry, Register, RegisterRule, RunTimeEndian, SectionBaseAddresses, StoreOnHeap,
    UnwindContext, UnwindContextStorage, UnwindOffset, UnwindSection, UnwindTableRow, Vendor,
};
use serde_json::{json, Value};

#[path = "c06_corpus.rs"]
mod corpus;

pub fn info() -> PropInfo {
    PropInfo {
        id: "C06",
        level: "exploration",
        rule: "Programs are lists of call-frame instructions assembled by gen/cfi.rs into a one-CIE one-FDE .debug_frame or .eh_frame section (byte order, address size 1/2/4/8, 32/64-bit entries, CIE version 1/3/4 and storage type vary with the case index) and interpreted by model/cfi.rs. Streams: `exh` = every sequence of length <= 4 over a 16-instruction alphabet x every CIE/FDE split x 5 alignment-factor pairs (rel: all 1 724 325 programs; dbg: length <= 3 fully and a seed-chosen 1/32 slice of length 4, 1/4 in the thorough tier); `opc` = every opcode byte 0x00-0xff x 96 operand/context variants (boundary operands, CIE or FDE placement, expression-CFA / remembered-state prefixes, both vendors, set_loc under every 'R' pointer encoding); `raw` = truncated / over-long operands; `cap` = programs that reach exactly N-1, N and N+1 rules / rows for each of 9 storages (incl. initial-rule copy row, remembers in the CIE, pops past the minimum); `rand` = seeded random programs of up to 300 instructions. A case is non-trivial when the model executes at least one instruction; enumerated cases are distinct by construction (index <-> program bijection), random ones are de-duplicated by (config, section bytes) digest. `corpus` (external-tool oracle; mon/corpus.rs) = small C (two translation units + a header in a sub-directory) and C++ (templates, inlining, virtual calls, destructors, throw/catch) programs compiled and linked at check time with gcc 12 / clang 14: quick tier 4 configurations (g++ -gdwarf-5 -O2; clang -gdwarf-5 -O2 -fno-asynchronous-unwind-tables; gcc -m32 -gdwarf-3 -O2 static without libc; clang++ -gdwarf-4 -O0), thorough tier 58 ({gcc,clang} x -gdwarf-{2,3,4,5} x {-O0,-O2} x {C,C++}, -gdwarf64 with gcc-written line tables, -fdebug-types-section, .debug_frame builds, 32-bit builds, --gc-sections, frame pointers, -Os/-O3); one case per configuration, sharded by index; executables and tool dumps are cached under .work/corpus by a hash of compiler version, flags and sources. For C06 the rows of every FDE (default heap storage, one reused UnwindContext) are compared with `readelf --debug-dump=frames-interp`: row start addresses, CFA (register+offset, or 'exp'), the rule of every register readelf has a column for or gimli lists (through registers() and through register(r) for r up to the largest column), rows chained and ending at the FDE end; and the decoded instruction list of every CIE and FDE is compared with the list printed by `llvm-dwarfdump --eh-frame` (mnemonic class, registers, offsets after applying the alignment factors). Non-trivial when readelf printed at least one entry; distinct by digest of the section.",
        assumptions: &[
            "storage capacities (StoreOnHeap: 4 rows / 192 rules; custom storages: their array sizes; Vec: unlimited) and the rule 'rows used = 1 + remembered + (1 if the CIE leaves >= 2 initial rules)' are taken from the pinned tree; only 'success iff the model's need fits, the specific error otherwise' is judged",
            "advance_loc/set_loc inside CIE initial instructions are interpreted like in an FDE starting at address 0 with the rows discarded (the standard is silent)",
            "DW_CFA_GNU_args_size is part of the remembered row state; rows remembered by the CIE stay on the stack for the FDE; restore of a register without initial rule removes the rule",
            "an explicit DW_CFA_undefined rule is reported as Some(Undefined), a register never mentioned as None",
            "the last row ends at initial_location + address_range wrapped to the address size even when the instructions advanced past it",
            "after the first error of a table no further call is made (the property fixes only the error itself)",
            "corpus: readelf 2.40 (rows) and llvm-dwarfdump 14 (instruction lists) are the oracles; tool/compiler failures and unparsable dumps are inconclusive, never violations",
            "corpus normalisations (presentation only): readelf 'u' and a register without a column both mean gimli None or Some(Undefined); readelf prints no table for an FDE whose instructions are all DW_CFA_nop - the expected table is then the CIE's row starting at the FDE's initial location; expression rules are compared as 'exp'/'vexp' without their contents; saved_args_size is not printed by readelf and not compared; register names are mapped to x86-64 / i386 DWARF numbers ('ra' = the CIE's return-address column); llvm's advance_loc1/2/4, offset_extended, restore_extended are folded into gimli's AdvanceLoc/Offset/Restore and expression operands are not compared",
            "corpus: llvm-dwarfdump 14's own row interpretation is not used (it does not restore the CFA on DW_CFA_restore_state)",
        ],
        exhaustive_subspaces: &[
            "all instruction sequences of length <= 4 over the 16-instruction alphabet x all CIE/FDE splits x 5 alignment-factor pairs (rel profile)",
            "all 256 DW_CFA opcode bytes (x 96 variants each)",
            "rule counts N-1, N, N+1 and row depths up to capacity+1 for each of the 9 storages",
        ],
        must_observe: &[
            "api.rows", "api.unwind_info_for_address", "api.rows.reused_ctx",
            "err.StackFull", "err.TooManyRegisterRules", "err.PopWithEmptyStack", "err.InvalidContext", "err.InvalidSetLoc", "err.AddressOverflow", "err.UnknownInstruction", "err.UnsupportedRegister", "err.Eof", "err.Pe",
            "err.in_cie", "ok.table",
            "sto.Heap", "sto.S11", "sto.S22", "sto.S33", "sto.S42", "sto.S8x256", "sto.S50", "sto.VecR8", "sto.VecVec",
            "cap.heap.rows.exact", "cap.heap.rows.over", "cap.heap.rules.exact", "cap.heap.rules.over",
            "kind.debug_frame", "kind.eh_frame", "addr.1", "addr.2", "addr.4", "addr.8",
            "opc.all256", "vendor.aarch64", "vendor.default", "negate_ra_state.ok",
            "exh.factor.0", "exh.factor.1", "exh.factor.2", "exh.factor.3", "exh.factor.4",
            "corpus.object", "corpus.cc.gcc", "corpus.cc.clang", "corpus.lang.c", "corpus.lang.cpp", "corpus.unwind.eh_frame", "corpus.unwind.debug_frame", "corpus.unwind.addr4", "corpus.unwind.fde", "corpus.unwind.rows",
            "corpus.unwind.fde.all_nops", "corpus.unwind.cfa.regoff", "corpus.unwind.cfa.exp", "corpus.unwind.rule.offset", "corpus.unwind.rule.undefined", "corpus.unwind.ins",
            "corpus.unwind.ins.remember_state", "corpus.unwind.ins.restore_state", "corpus.unwind.ins.def_cfa_expression", "corpus.unwind.ins.def_cfa_register", "corpus.unwind.ins.advance_loc", "corpus.unwind.ins.offset",
        ],
        run,
    }
}

type Rd<'a> = EndianSlice<'a, RunTimeEndian>;

// ---------------------------------------------------------------- storages

macro_rules! array_storage {
    ($name:ident, $stack:expr, $rules:expr) => {
        pub struct $name;
        impl<T: ReaderOffset> UnwindContextStorage<T> for $name {
            type Rules = [(Register, RegisterRule<T>); $rules];
            type Stack = [UnwindTableRow<T, Self>; $stack];
        }
    };
}
array_storage!(S11, 1, 1);
array_storage!(S22, 2, 2);
array_storage!(S33, 3, 3);
array_storage!(S42, 4, 2);
array_storage!(S50, 5, 0);
pub struct S8x256;
impl<T: ReaderOffset> UnwindContextStorage<T> for S8x256 {
    type Rules = [(Register, RegisterRule<T>); 256];
    type Stack = Box<[UnwindTableRow<T, Self>; 8]>;
}
pub struct VecR8;
impl<T: ReaderOffset> UnwindContextStorage<T> for VecR8 {
    type Rules = [(Register, RegisterRule<T>); 8];
    type Stack = Vec<UnwindTableRow<T, Self>>;
}
pub struct VecVec;
impl<T: ReaderOffset> UnwindContextStorage<T> for VecVec {
    type Rules = Vec<(Register, RegisterRule<T>)>;
    type Stack = Vec<UnwindTableRow<T, Self>>;
}

#[derive(Clone, Copy, Debug, PartialEq, Eq)]
pub enum Sto {
    Heap,
    S11,
    S22,
    S33,
    S42,
    S8x256,
    S50,
    VecR8,
    VecVec,
}

pub const ALL_STO: [Sto; 9] = [Sto::Heap, Sto::S11, Sto::S22, Sto::S33, Sto::S42, Sto::S8x256, Sto::S50, Sto::VecR8, Sto::VecVec];

impl Sto {
    pub fn limits(self) -> Limits {
        let (s, r) = match self {
            Sto::Heap => (Some(4), Some(192)),
            Sto::S11 => (Some(1), Some(1)),
            Sto::S22 => (Some(2), Some(2)),
            Sto::S33 => (Some(3), Some(3)),
            Sto::S42 => (Some(4), Some(2)),
            Sto::S8x256 => (Some(8), Some(256)),
            Sto::S50 => (Some(5), Some(0)),
            Sto::VecR8 => (None, Some(8)),
            Sto::VecVec => (None, None),
        };
        Limits { stack: s, rules: r }
    }
    pub fn name(self) -> &'static str {
        match self {
            Sto::Heap => "Heap",
            Sto::S11 => "S11",
            Sto::S22 => "S22",
            Sto::S33 => "S33",
            Sto::S42 => "S42",
            Sto::S8x256 => "S8x256",
            Sto::S50 => "S50",
            Sto::VecR8 => "VecR8",
            Sto::VecVec => "VecVec",
        }
    }
}

// ---------------------------------------------------------------- observation of gimli

#[derive(Debug, Clone)]
pub struct ObsRow {
    pub row: Row,
    /// entries yielded by registers()
    pub entries: usize,
    /// first register for which register(r) disagrees with registers()
    pub register_mismatch: Option<u16>,
}

#[derive(Debug, Clone, Default)]
pub struct Obs {
    pub init_err: Option<gimli::Error>,
    pub rows: Vec<ObsRow>,
    pub end_err: Option<gimli::Error>,
    /// next_row() after Ok(None) yielded something else than Ok(None)
    pub not_fused: bool,
    pub runaway: bool,
}

fn obs_row<S: UnwindContextStorage<usize>>(row: &UnwindTableRow<usize, S>, probe: &[u16]) -> ObsRow {
    let (r, n) = row_from_gimli(row);
    let mut bad = None;
    for reg in r.rules.keys().copied().chain(probe.iter().copied()) {
        let got = row.register(Register(reg));
        let via_iter = row.registers().find(|(x, _)| x.0 == reg).map(|(_, rule)| rule.clone());
        if got != via_iter {
            bad = Some(reg);
            break;
        }
    }
    ObsRow { row: r, entries: n, register_mismatch: bad }
}

/// A gimli row as a model row (used by C05 for `unwind_info_for_address` results).
pub fn obs_row_pub<S: UnwindContextStorage<usize>>(row: &UnwindTableRow<usize, S>) -> Row {
    row_from_gimli(row).0
}

pub fn observe_rows<'a, Sec, S>(sec: &Sec, bases: &BaseAddresses, fde: &FrameDescriptionEntry<Rd<'a>>, uctx: &mut UnwindContext<usize, S>, probe: &[u16], max_rows: usize) -> Obs
where
    Sec: UnwindSection<Rd<'a>>,
    S: UnwindContextStorage<usize>,
{
    let mut o = Obs::default();
    let mut table = match fde.rows(sec, bases, uctx) {
        Ok(t) => t,
        Err(e) => {
            o.init_err = Some(e);
            return o;
        }
    };
    loop {
        match table.next_row() {
            Ok(Some(row)) => {
                o.rows.push(obs_row(row, probe));
                if o.rows.len() > max_rows {
                    o.runaway = true;
                    return o;
                }
            }
            Ok(None) => {
                for _ in 0..2 {
                    if !matches!(table.next_row(), Ok(None)) {
                        o.not_fused = true;
                    }
                }
                return o;
            }
            Err(e) => {
                o.end_err = Some(e);
                return o;
            }
        }
    }
}

/// Compare an observation with the model table. Returns (signature suffix, description).
pub fn diff_table(t: &Table, o: &Obs) -> Option<(&'static str, String)> {
    if o.runaway {
        return Some(("runaway", format!("more than {} rows yielded, model has {}", o.rows.len() - 1, t.rows.len())));
    }
    if t.error_in_cie {
        let e = t.error.as_ref().unwrap();
        return match &o.init_err {
            Some(g) if error_matches(e, g) => None,
            Some(g) => Some(("init_error", format!("rows(): expected Err({e:?}) observed Err({g:?})"))),
            None => Some(("init_error.missing", format!("rows(): expected Err({e:?}) but the table was created; rows {:?} end {:?}", o.rows.iter().map(|r| &r.row).collect::<Vec<_>>(), o.end_err))),
        };
    }
    if let Some(g) = &o.init_err {
        return Some(("init_error.spurious", format!("rows() failed with {g:?}; model: {} rows then {:?}", t.rows.len(), t.error)));
    }
    for (i, mr) in t.rows.iter().enumerate() {
        let Some(or) = o.rows.get(i) else {
            return Some(("rows.missing", format!("row {i} missing: expected {mr:?}; observed {} rows then {:?}", o.rows.len(), o.end_err)));
        };
        if or.row.start != mr.start || or.row.end != mr.end {
            return Some(("row.address", format!("row {i}: expected [{:#x},{:#x}) observed [{:#x},{:#x})", mr.start, mr.end, or.row.start, or.row.end)));
        }
        if or.row.cfa != mr.cfa {
            return Some(("row.cfa", format!("row {i}: expected {:?} observed {:?}", mr.cfa, or.row.cfa)));
        }
        if or.row.rules != mr.rules {
            return Some(("row.rules", format!("row {i}: expected {:?} observed {:?}", mr.rules, or.row.rules)));
        }
        if or.row.args_size != mr.args_size {
            return Some(("row.args_size", format!("row {i}: expected {} observed {}", mr.args_size, or.row.args_size)));
        }
        if or.entries != or.row.rules.len() {
            return Some(("row.duplicate_rules", format!("row {i}: registers() yielded {} entries for {} distinct registers", or.entries, or.row.rules.len())));
        }
        if let Some(r) = or.register_mismatch {
            return Some(("row.register_accessor", format!("row {i}: register({r}) disagrees with registers()")));
        }
    }
    if o.rows.len() > t.rows.len() {
        return Some(("rows.extra", format!("expected {} rows then {:?}; observed extra row {:?}", t.rows.len(), t.error, o.rows[t.rows.len()].row)));
    }
    match (&t.error, &o.end_err) {
        (None, None) => {}
        (Some(e), Some(g)) if error_matches(e, g) => {}
        (Some(e), Some(g)) => return Some(("error.kind", format!("after {} rows: expected Err({e:?}) observed Err({g:?})", t.rows.len()))),
        (Some(e), None) => return Some(("error.missing", format!("after {} rows: expected Err({e:?}) observed end of table", t.rows.len()))),
        (None, Some(g)) => return Some(("error.spurious", format!("after {} rows: expected end of table observed Err({g:?})", t.rows.len()))),
    }
    if o.not_fused {
        return Some(("not_fused", "next_row() after Ok(None) did not return Ok(None)".into()));
    }
    None
}

pub fn gimli_bases(b: &Bases) -> BaseAddresses {
    BaseAddresses {
        eh_frame_hdr: SectionBaseAddresses::default(),
        eh_frame: SectionBaseAddresses { section: b.section, text: b.text, data: b.data },
    }
}

fn err_key(e: &CfiError) -> &'static str {
    match e {
        CfiError::StackFull => "err.StackFull",
        CfiError::TooManyRegisterRules => "err.TooManyRegisterRules",
        CfiError::PopWithEmptyStack => "err.PopWithEmptyStack",
        CfiError::InvalidContext => "err.InvalidContext",
        CfiError::InvalidSetLoc(_) => "err.InvalidSetLoc",
        CfiError::AddressOverflow => "err.AddressOverflow",
        CfiError::UnknownInstruction(_) => "err.UnknownInstruction",
        CfiError::UnsupportedRegister(_) => "err.UnsupportedRegister",
        CfiError::Eof => "err.Eof",
        CfiError::BadLeb => "err.BadLeb",
        CfiError::Pe(_) => "err.Pe",
        CfiError::NoUnwindInfo => "err.NoUnwindInfo",
    }
}

// ---------------------------------------------------------------- one program

#[derive(Clone, Debug)]
pub struct Prog {
    pub kind: Kind,
    pub le: bool,
    pub addr_size: u8,
    pub fmt64: bool,
    pub version: u8,
    pub aarch64: bool,
    pub code_align: u64,
    pub data_align: i64,
    /// `Some(enc)`: CIE augmentation "zR" with this FDE pointer encoding
    pub fde_enc: Option<u8>,
    pub bases: Bases,
    pub initial: u64,
    pub range: u64,
    pub cie: Vec<Ins>,
    pub fde: Vec<Ins>,
    pub pad_nops: usize,
}

/// The address size configured on the section object.  A version 4 `.debug_frame` CIE carries
/// its own address size, which must govern everything (pointer widths, the overflow check of
/// `DW_CFA_advance_loc*`); `set_address_size` is documented as only used for older CIEs, so for
/// v4 the section is deliberately configured with a *different* size in 3 of 4 cases.
fn section_addr_size(p: &Prog) -> u8 {
    if p.kind == Kind::DebugFrame && p.version == 4 {
        let k = (p.initial ^ p.range.rotate_left(7) ^ (p.cie.len() as u64) ^ ((p.fde.len() as u64) << 3)) % 4;
        [1u8, 2, 4, 8][k as usize]
    } else {
        p.addr_size
    }
}

impl Prog {
    pub fn spec(&self) -> SectionSpec {
        let cie = CieSpec {
            fmt64: self.fmt64,
            version: self.version,
            aug: if self.fde_enc.is_some() { b"zR".to_vec() } else { vec![] },
            v4_addr_size: self.addr_size,
            code_align: self.code_align,
            data_align: self.data_align,
            ra: 16,
            fde_enc: self.fde_enc.unwrap_or(0),
            insns: self.cie.clone(),
            pad_nops: self.pad_nops,
            ..CieSpec::default()
        };
        let fde = FdeSpec { cie: 0, fmt64: self.fmt64, initial: self.initial, range: self.range, insns: self.fde.clone(), pad_nops: self.pad_nops, ..FdeSpec::default() };
        let mut items = vec![Item::Cie(cie), Item::Fde(fde)];
        if self.kind == Kind::EhFrame {
            items.push(Item::ZeroLength { fmt64: false });
        }
        SectionSpec { kind: self.kind, le: self.le, addr_size: self.addr_size, aarch64: self.aarch64, bases: self.bases, raw_pointers: false, items }
    }
    pub fn json(&self, built: &Built) -> Value {
        json!({
            "kind": format!("{:?}", self.kind), "le": self.le, "addr_size": self.addr_size, "fmt64": self.fmt64, "cie_version": self.version,
            "aarch64": self.aarch64, "code_align": self.code_align, "data_align": self.data_align, "fde_enc": self.fde_enc,
            "bases": format!("{:?}", self.bases), "initial": self.initial, "range": self.range,
            "cie_insns": format!("{:?}", self.cie), "fde_insns": format!("{:?}", self.fde), "section": hex(&built.bytes),
        })
    }
}

struct Checker<'c> {
    ctx: &'c mut Ctx,
    tag: &'static str,
}

fn check_storage<'a, Sec, S>(ck: &mut Checker, sec: &Sec, p: &Prog, built: &Built, fde_off: usize, sto: Sto, probes: &[u64], reuse: bool)
where
    Sec: UnwindSection<Rd<'a>>,
    Sec::Offset: UnwindOffset<usize>,
    S: UnwindContextStorage<usize>,
{
    let ctx = &mut *ck.ctx;
    let tag = ck.tag;
    let program = built.program(1).expect("entry 1 is the FDE");
    let table = interpret(&program, sto.limits());
    let bases = gimli_bases(&p.bases);
    let input = || {
        let mut v = p.json(built);
        v["storage"] = json!(sto.name());
        v
    };
    ctx.obs(&format!("sto.{}", sto.name()));
    match &table.error {
        Some(e) => {
            ctx.obs(err_key(e));
            if table.error_in_cie {
                ctx.obs("err.in_cie");
            }
        }
        None => ctx.obs("ok.table"),
    }
    let probe_regs: [u16; 6] = [0, 1, 2, 3, 34, 0xffff];
    let max_rows = table.rows.len() + 4;
    // ---- parse the FDE
    let fde = match ctx.guard("UnwindSection::fde_from_offset", &input, || sec.fde_from_offset(&bases, Sec::Offset::from(fde_off), Sec::cie_from_offset)) {
        None => return,
        Some(Err(e)) => {
            ctx.fail(&format!("{tag}.fde_parse"), &format!("the generated FDE does not parse: {e:?}"), &input);
            return;
        }
        Some(Ok(f)) => f,
    };
    // ---- rows on a fresh context
    let Some(mut uctx) = ctx.guard("UnwindContext::new_in", &input, || -> Box<UnwindContext<usize, S>> { Box::new(UnwindContext::new_in()) }) else { return };
    ctx.eval();
    ctx.obs("api.rows");
    let Some(o) = ctx.guard("UnwindTable::next_row", &input, || observe_rows(sec, &bases, &fde, &mut uctx, &probe_regs, max_rows)) else { return };
    if let Some((sig, what)) = diff_table(&table, &o) {
        ctx.fail(&format!("{tag}.rows.{sig}"), &format!("UnwindTable rows [{}]: {what}", sto.name()), &input);
        return;
    }
    // ---- address-driven evaluation on the (now used) context
    for &a in probes {
        ctx.eval();
        ctx.obs("api.unwind_info_for_address");
        let want = table.lookup(a);
        let Some(got) = ctx.guard("FrameDescriptionEntry::unwind_info_for_address", &input, || fde.unwind_info_for_address(sec, &bases, &mut uctx, a).map(|r| obs_row(r, &probe_regs))) else {
            return;
        };
        let bad = match (&want, &got) {
            (Ok(w), Ok(g)) => {
                if **w != g.row || g.entries != g.row.rules.len() || g.register_mismatch.is_some() {
                    Some(format!("expected row {w:?} observed {g:?}"))
                } else {
                    None
                }
            }
            (Err(e), Err(g)) => {
                if error_matches(e, g) {
                    None
                } else {
                    Some(format!("expected Err({e:?}) observed Err({g:?})"))
                }
            }
            (Ok(w), Err(g)) => Some(format!("expected row {w:?} observed Err({g:?})")),
            (Err(e), Ok(g)) => Some(format!("expected Err({e:?}) observed row {:?}", g.row)),
        };
        if let Some(b) = bad {
            ctx.fail(&format!("{tag}.unwind_info_for_address"), &format!("unwind_info_for_address({a:#x}) [{}]: {b}", sto.name()), &|| {
                let mut v = input();
                v["probe"] = json!(a);
                v
            });
            return;
        }
    }
    // ---- rows again on the reused context
    if reuse {
        ctx.eval();
        ctx.obs("api.rows.reused_ctx");
        let Some(o) = ctx.guard("UnwindTable::next_row(reused ctx)", &input, || observe_rows(sec, &bases, &fde, &mut uctx, &probe_regs, max_rows)) else { return };
        if let Some((sig, what)) = diff_table(&table, &o) {
            ctx.fail(&format!("{tag}.rows_reused.{sig}"), &format!("UnwindTable rows on a reused context [{}]: {what}", sto.name()), &input);
        }
    }
}

fn with_section<'a>(ck: &mut Checker, p: &Prog, built: &'a Built, stos: &[Sto], probes: &[u64], reuse: bool) {
    let endian = if p.le { RunTimeEndian::Little } else { RunTimeEndian::Big };
    let fde_off = match &built.entries[1] {
        Entry::Fde(f) => f.offset as usize,
        _ => return,
    };
    macro_rules! each {
        ($sec:expr) => {{
            let sec = $sec;
            for &s in stos {
                match s {
                    Sto::Heap => check_storage::<_, StoreOnHeap>(ck, &sec, p, built, fde_off, s, probes, reuse),
                    Sto::S11 => check_storage::<_, S11>(ck, &sec, p, built, fde_off, s, probes, reuse),
                    Sto::S22 => check_storage::<_, S22>(ck, &sec, p, built, fde_off, s, probes, reuse),
                    Sto::S33 => check_storage::<_, S33>(ck, &sec, p, built, fde_off, s, probes, reuse),
                    Sto::S42 => check_storage::<_, S42>(ck, &sec, p, built, fde_off, s, probes, reuse),
                    Sto::S8x256 => check_storage::<_, S8x256>(ck, &sec, p, built, fde_off, s, probes, reuse),
                    Sto::S50 => check_storage::<_, S50>(ck, &sec, p, built, fde_off, s, probes, reuse),
                    Sto::VecR8 => check_storage::<_, VecR8>(ck, &sec, p, built, fde_off, s, probes, reuse),
                    Sto::VecVec => check_storage::<_, VecVec>(ck, &sec, p, built, fde_off, s, probes, reuse),
                }
            }
        }};
    }
    match p.kind {
        Kind::DebugFrame => {
            ck.ctx.obs("kind.debug_frame");
            let mut sec = DebugFrame::new(&built.bytes, endian);
            sec.set_address_size(section_addr_size(p));
            if p.aarch64 {
                sec.set_vendor(Vendor::AArch64);
            }
            each!(sec)
        }
        Kind::EhFrame => {
            ck.ctx.obs("kind.eh_frame");
            let mut sec = EhFrame::new(&built.bytes, endian);
            sec.set_address_size(section_addr_size(p));
            if p.aarch64 {
                sec.set_vendor(Vendor::AArch64);
            }
            each!(sec)
        }
    }
}

fn check_unparsable(ctx: &mut Ctx, tag: &'static str, p: &Prog, built: &Built) {
    let Entry::Fde(f) = &built.entries[1] else { return };
    let Err(want) = f.initial.clone() else { return };
    let endian = if p.le { RunTimeEndian::Little } else { RunTimeEndian::Big };
    let bases = gimli_bases(&p.bases);
    let input = || p.json(built);
    ctx.eval();
    ctx.obs("fde.unparsable");
    let off = f.offset as usize;
    let got = match p.kind {
        Kind::DebugFrame => {
            let mut sec = DebugFrame::new(&built.bytes, endian);
            sec.set_address_size(section_addr_size(p));
            ctx.guard("UnwindSection::fde_from_offset", &input, || sec.fde_from_offset(&bases, off.into(), DebugFrame::cie_from_offset).map(|f| f.initial_address()))
        }
        Kind::EhFrame => {
            let mut sec = EhFrame::new(&built.bytes, endian);
            sec.set_address_size(section_addr_size(p));
            ctx.guard("UnwindSection::fde_from_offset", &input, || sec.fde_from_offset(&bases, off.into(), EhFrame::cie_from_offset).map(|f| f.initial_address()))
        }
    };
    let Some(got) = got else { return };
    match got {
        Err(e) if m::pe_error_matches(&want, &e) => {}
        other => ctx.fail(&format!("{tag}.fde_parse.error"), &format!("FDE address decoding: expected Err({want:?}) observed {other:?}"), &input),
    }
}

/// Probe addresses derived from the unlimited model table.
fn probes_for(p: &Prog, t: &Table, max: usize) -> Vec<u64> {
    let mut v = vec![p.initial, p.initial.wrapping_sub(1)];
    let end = p.initial.wrapping_add(p.range) & m::addr_mask(p.addr_size);
    v.push(end.wrapping_sub(1));
    v.push(end);
    for r in t.rows.iter().rev().take(3) {
        v.push(r.start);
        v.push(r.end.wrapping_sub(1));
        v.push(r.end);
    }
    if let Some(r) = t.rows.get(t.rows.len() / 2) {
        v.push(r.start);
    }
    v.sort();
    v.dedup();
    // deterministic thinning
    if v.len() > max {
        let step = v.len() as f64 / max as f64;
        let mut out = vec![];
        for k in 0..max {
            out.push(v[(k as f64 * step) as usize]);
        }
        out.push(p.initial);
        out.sort();
        out.dedup();
        return out;
    }
    v
}

/// Run one program under the given storages. Returns the unlimited model table.
fn run_prog(ctx: &mut Ctx, tag: &'static str, p: &Prog, stos: &[Sto], max_probes: usize, reuse: bool) -> (Built, Table) {
    let spec = p.spec();
    let built = build(&spec);
    let Some(program) = built.program(1) else {
        // the FDE's own addresses do not decode (missing base, unsupported application):
        // parsing the FDE must report exactly that error
        check_unparsable(ctx, tag, p, &built);
        let t = Table { rows: vec![], error: None, error_in_cie: false, need: Default::default(), initial_rules: Default::default(), steps: 0 };
        return (built, t);
    };
    let unlimited = interpret(&program, Limits::default());
    let probes = probes_for(p, &unlimited, max_probes);
    ctx.obs(&format!("addr.{}", p.addr_size));
    ctx.obs(if p.aarch64 { "vendor.aarch64" } else { "vendor.default" });
    {
        let mut ck = Checker { ctx, tag };
        with_section(&mut ck, p, &built, stos, &probes, reuse);
    }
    // model self-check: a capacity error happens exactly when the need does not fit
    if unlimited.error.is_none() {
        for &s in stos {
            let lim = s.limits();
            let program = built.program(1).unwrap();
            let t = interpret(&program, lim);
            let fits = lim.stack.map_or(true, |c| unlimited.need.peak_rows <= c) && lim.rules.map_or(true, |c| unlimited.need.peak_rules <= c);
            let cap_err = matches!(t.error, Some(CfiError::StackFull) | Some(CfiError::TooManyRegisterRules));
            if fits == cap_err || (!cap_err && t.error.is_some()) {
                ctx.harness_error(&format!("model self-check failed: need {:?} limits {:?} error {:?}", unlimited.need, lim, t.error));
            }
        }
    }
    (built, unlimited)
}

// ---------------------------------------------------------------- configuration helpers

fn initial_for(addr_size: u8, r: &mut Rng) -> (u64, u64) {
    // (initial address, range); occasionally close to the top of the address space
    let mask = m::addr_mask(addr_size);
    match r.below(8) {
        0 => (mask - 9, 8),
        1 => (mask - 0x20 + 1, 0x20), // end wraps to 0
        _ => match addr_size {
            1 => (0x10, 0x60),
            2 => (0x1000, 0x800),
            4 => (0x0010_0000, 0x1_0000),
            _ => (0x1_0000_0000, 0x10_0000),
        },
    }
}

fn base_prog(r: &mut Rng) -> Prog {
    let kind = if r.bool() { Kind::DebugFrame } else { Kind::EhFrame };
    let addr_size = *r.pick(&[1u8, 2, 4, 8]);
    let (initial, range) = initial_for(addr_size, r);
    Prog {
        kind,
        le: r.bool(),
        addr_size,
        fmt64: r.chance(1, 4),
        version: *r.pick(&[1u8, 3, 4]),
        aarch64: r.chance(1, 4),
        code_align: 1,
        data_align: 1,
        fde_enc: None,
        bases: Bases { section: Some(0x40), text: Some(0x20), data: Some(0x30), func: None },
        initial,
        range,
        cie: vec![],
        fde: vec![],
        pad_nops: r.usize(4),
    }
}

// ---------------------------------------------------------------- exhaustive stream

pub const FACTORS: [(u64, i64); 5] = [(1, 1), (4, -8), (0, 0), (255, -128), (1 << 63, i64::MIN)];

pub fn alphabet() -> Vec<Ins> {
    vec![
        Ins::AdvanceLoc(1),
        Ins::DefCfa(7, 16),
        Ins::DefCfaRegister(6),
        Ins::DefCfaOffsetSf(-2),
        Ins::Offset(1, 1),
        Ins::OffsetExtendedSf(2, -3),
        Ins::Restore(1),
        Ins::RestoreExtended(2),
        Ins::Undefined(1),
        Ins::SameValue(2),
        Ins::Register(3, 1),
        Ins::RememberState,
        Ins::RestoreState,
        Ins::ValOffset(1, 3),
        Ins::ArgsSize(24),
        Ins::DefCfaExpression(vec![0x96]),
    ]
}

fn exhaustive(ctx: &mut Ctx) {
    let alpha = alphabet();
    let dbg = ctx.dbg() || ctx.slow();
    // dbg profile: a seed-chosen 1/32 slice of the length-4 programs (1/4 in the thorough tier)
    let slice_div: u64 = if ctx.quick() { 32 } else { 4 };
    let slice = ctx.seed % slice_div;
    let mut idx = 0u64;
    for len in 0..=4usize {
        let nseq = 16u64.pow(len as u32);
        for s in 0..nseq {
            for split in 0..=len {
                for (fi, (ca, da)) in FACTORS.iter().enumerate() {
                    let i = idx;
                    idx += 1;
                    if dbg && len == 4 && (s * 5 + split as u64) % slice_div != slice {
                        continue;
                    }
                    if !ctx.want("exh", i) {
                        continue;
                    }
                    let mut r = ctx.rng("exh", i);
                    let mut p = base_prog(&mut r);
                    p.code_align = *ca;
                    p.data_align = *da;
                    let mut seq = vec![];
                    let mut x = s;
                    for _ in 0..len {
                        seq.push(alpha[(x % 16) as usize].clone());
                        x /= 16;
                    }
                    p.cie = seq[..split].to_vec();
                    p.fde = seq[split..].to_vec();
                    // heap storage always; one custom storage chosen by the index
                    let other = ALL_STO[1 + (r.below(8) as usize)];
                    let stos = [Sto::Heap, other];
                    run_prog(ctx, "exh", &p, &stos, 4, i % 8 == 0);
                    ctx.obs(&format!("exh.factor.{fi}"));
                    if len > 0 {
                        ctx.counted_distinct += 1;
                    }
                    if len == 4 && s == 0x1b74 && split == 2 && fi == 1 {
                        let spec = p.spec();
                        let b = build(&spec);
                        let t = interpret(&b.program(1).unwrap(), Sto::Heap.limits());
                        ctx.sample("exh", || json!({"program": p.json(&b), "model_rows": format!("{:?}", t.rows), "model_error": format!("{:?}", t.error)}));
                    }
                }
            }
        }
    }
}

// ---------------------------------------------------------------- opcode sweep

const OPERANDS_X: [u64; 12] = [0, 1, 2, 3, 0x3f, 0x40, 34, 0x7f, 0x80, 0xffff, 0x1_0000, u64::MAX];
const OPERANDS_Y: [u64; 16] = [0, 1, 2, 0x3f, 0x7f, 0x80, 0xff, 0xffff, 0x7fff_ffff, 0xffff_ffff, 1 << 32, 1 << 62, (1 << 63) - 1, 1 << 63, u64::MAX - 1, u64::MAX];

pub fn fde_encodings() -> Vec<u8> {
    let mut v = vec![];
    for ind in [0u8, 0x80] {
        for app in 0..=5u8 {
            for f in m::PE_FORMATS {
                v.push(ind | (app << 4) | f);
            }
        }
    }
    v
}

fn opcode_sweep(ctx: &mut Ctx) {
    const V: u64 = 96;
    let encs = fde_encodings();
    for b in 0..256u64 {
        for v in 0..V {
            let i = b * V + v;
            if !ctx.want("opc", i) {
                continue;
            }
            let mut r = ctx.rng("opc", i);
            let mut p = base_prog(&mut r);
            let (ca, da) = if v % 3 == 0 { (1, 1) } else { *r.pick(&FACTORS) };
            p.code_align = ca;
            p.data_align = da;
            let x = if v < 12 { OPERANDS_X[v as usize] } else { *r.pick(&OPERANDS_X) };
            let y = if v < 16 { OPERANDS_Y[v as usize] } else if r.chance(1, 4) { r.boundary() } else { *r.pick(&OPERANDS_Y) };
            let mut ins = Ins::for_opcode_byte(b as u8, x, y);
            if b == 1 {
                // set_loc: all 'R' encodings; targets around the current location
                p.kind = Kind::EhFrame;
                p.fde_enc = Some(encs[(v as usize) % encs.len()]);
                let t = match r.below(6) {
                    0 => p.initial.wrapping_sub(1),
                    1 => p.initial,
                    2 => p.initial.wrapping_add(8),
                    3 => y,
                    4 => m::addr_mask(p.addr_size),
                    _ => p.initial.wrapping_add(r.below(0x40)),
                };
                // bases: sometimes missing
                if r.chance(1, 4) {
                    p.bases = Bases { section: if r.bool() { Some(0x40) } else { None }, text: if r.bool() { Some(0x20) } else { None }, data: if r.bool() { Some(0x30) } else { None }, func: None };
                }
                ins = Ins::SetLoc(t);
            }
            if b == 0x2d {
                p.aarch64 = v % 2 == 0;
            }
            // context
            let prefix: Vec<Ins> = match (v / 16) % 6 {
                0 => vec![],
                1 => vec![Ins::DefCfaExpression(vec![0x96, 0x96])],
                2 => vec![Ins::RememberState, Ins::Offset(1, 2)],
                3 => vec![Ins::Offset(1, 2), Ins::Offset(2, 4), Ins::DefCfa(5, 8)],
                4 => vec![Ins::AdvanceLoc(2), Ins::Undefined(34)],
                _ => vec![Ins::NegateRaState, Ins::ValOffset(3, 1)],
            };
            let in_cie = v % 5 == 4;
            let cie_prefix = v % 7 >= 4;
            let mut body = vec![];
            if cie_prefix {
                p.cie = prefix.clone();
            } else {
                body.extend(prefix.clone());
            }
            if in_cie {
                p.cie.push(ins.clone());
                p.fde = body;
                p.fde.push(Ins::AdvanceLoc(1));
            } else {
                body.push(ins.clone());
                body.push(Ins::AdvanceLoc(1));
                body.push(Ins::Nop);
                p.fde = body;
            }
            let stos = [Sto::Heap, ALL_STO[1 + (i % 8) as usize]];
            let (_b, t) = run_prog(ctx, "opc", &p, &stos, 5, v % 4 == 0);
            ctx.obs(&format!("opc.0x{:02x}", b));
            if b == 0x2d && p.aarch64 && t.error.is_none() {
                ctx.obs("negate_ra_state.ok");
            }
            ctx.counted_distinct += 1;
            if b == 0x12 && v == 20 {
                let built = build(&p.spec());
                ctx.sample("opc", || json!({"opcode": "0x12 DW_CFA_def_cfa_sf", "program": p.json(&built), "model_rows": format!("{:?}", t.rows), "model_error": format!("{:?}", t.error)}));
            }
        }
    }
    // every opcode byte was enumerated (the loop above is total over 0..256)
    if ctx.only.is_none() {
        ctx.obs("opc.all256");
    }
}

// ---------------------------------------------------------------- raw (malformed operands)

fn raw_cases(ctx: &mut Ctx) {
    let mut cases: Vec<(Vec<u8>, CfiError)> = vec![];
    // truncated operands at the very end of the entry
    for op in [0x05u8, 0x06, 0x07, 0x08, 0x09, 0x0c, 0x0d, 0x0e, 0x0f, 0x10, 0x11, 0x12, 0x13, 0x14, 0x15, 0x16, 0x2e, 0x80, 0xbf] {
        cases.push((vec![op], CfiError::Eof));
        cases.push((vec![op, 0x80], CfiError::Eof));
        cases.push((vec![op, 0xff, 0xff], CfiError::Eof));
    }
    for op in [0x02u8, 0x03, 0x04, 0x01] {
        cases.push((vec![op], CfiError::Eof));
    }
    cases.push((vec![0x03, 0x01], CfiError::Eof));
    cases.push((vec![0x04, 0x01, 0x02, 0x03], CfiError::Eof));
    // expression longer than the rest of the entry
    cases.push((vec![0x0f, 0x05, 0x96, 0x96], CfiError::Eof));
    cases.push((vec![0x10, 0x01, 0x7f, 0x96], CfiError::Eof));
    cases.push((vec![0x16, 0x01, 0xff, 0xff, 0xff, 0xff, 0x0f], CfiError::Eof));
    // register operands beyond 16 bits
    cases.push((vec![0x07, 0x80, 0x80, 0x04], CfiError::UnsupportedRegister(0x10000)));
    cases.push((vec![0x0d, 0xff, 0xff, 0xff, 0xff, 0x0f], CfiError::UnsupportedRegister(0xffff_ffff)));
    // LEB128 that does not fit 64 bits
    let mut big = vec![0x0e];
    big.extend(vec![0xff; 10]);
    big.push(0x7f);
    cases.push((big, CfiError::BadLeb));
    let mut big = vec![0x13];
    big.extend(vec![0x80; 10]);
    big.push(0x01);
    cases.push((big, CfiError::BadLeb));
    let n = cases.len() as u64;
    for i in 0..n * 4 {
        if !ctx.want("raw", i) {
            continue;
        }
        let (bytes, expect) = cases[(i % n) as usize].clone();
        let mut r = ctx.rng("raw", i);
        let mut p = base_prog(&mut r);
        p.pad_nops = 0;
        let raw = Ins::Raw { bytes, expect };
        let in_cie = (i / n) % 2 == 1;
        let lead = if (i / n) >= 2 { vec![Ins::Offset(1, 1), Ins::AdvanceLoc(3)] } else { vec![] };
        if in_cie {
            p.cie = vec![Ins::DefCfa(7, 8), raw];
            p.fde = lead;
        } else {
            p.fde = lead;
            p.fde.push(raw);
        }
        run_prog(ctx, "raw", &p, &[Sto::Heap, Sto::VecVec], 4, true);
        ctx.counted_distinct += 1;
    }
}

// ---------------------------------------------------------------- storage boundaries

fn set_n_rules(n: usize, base: u64, kind: u64) -> Vec<Ins> {
    (0..n as u64)
        .map(|k| {
            let reg = base + k;
            match (kind + k) % 5 {
                0 => Ins::OffsetExtended(reg, k),
                1 => Ins::Undefined(reg),
                2 => Ins::SameValue(reg),
                3 => Ins::ValOffsetSf(reg, -(k as i64)),
                _ => Ins::Register(reg, k & 0xffff),
            }
        })
        .collect()
}

fn capacity(ctx: &mut Ctx) {
    let mut idx = 0u64;
    // ---- row-stack depth
    for &sto in &ALL_STO {
        let lim = sto.limits();
        let st = lim.stack.unwrap_or(12).min(12);
        let ru = lim.rules.unwrap_or(8);
        for init_rules in 0..=3usize {
            for k_cie in 0..=(st + 1) {
                for k_fde in 0..=(st + 1) {
                    if k_cie + k_fde > st + 3 {
                        continue;
                    }
                    for pops in 0..3u64 {
                        let i = idx;
                        idx += 1;
                        if !ctx.want("cap", i) {
                            continue;
                        }
                        let mut r = ctx.rng("cap", i);
                        let mut p = base_prog(&mut r);
                        p.aarch64 = false;
                        // CIE: rules first or remembers first
                        let rules = set_n_rules(init_rules.min(ru.max(init_rules)), 1, i);
                        let mut cie = vec![Ins::DefCfa(7, 8)];
                        if i % 2 == 0 {
                            cie.extend(rules.clone());
                            cie.extend(vec![Ins::RememberState; k_cie]);
                        } else {
                            cie.extend(vec![Ins::RememberState; k_cie]);
                            cie.extend(rules.clone());
                        }
                        p.cie = cie;
                        let mut fde = vec![];
                        for k in 0..k_fde {
                            fde.push(Ins::RememberState);
                            fde.push(Ins::DefCfaOffset(16 + k as u64));
                            fde.push(Ins::AdvanceLoc(1));
                        }
                        let total = k_cie + k_fde;
                        let npop = match pops {
                            0 => 0,
                            1 => total,
                            _ => total + 1,
                        };
                        for _ in 0..npop {
                            fde.push(Ins::RestoreState);
                            fde.push(Ins::AdvanceLoc(1));
                        }
                        fde.push(Ins::ArgsSize(3));
                        p.fde = fde;
                        let (_b, t) = run_prog(ctx, "cap", &p, &[sto], 6, true);
                        if sto == Sto::Heap && t.error.is_none() {
                            if t.need.peak_rows == 4 {
                                ctx.obs("cap.heap.rows.exact");
                            }
                            if t.need.peak_rows == 5 {
                                ctx.obs("cap.heap.rows.over");
                            }
                        }
                        ctx.counted_distinct += 1;
                    }
                }
            }
        }
    }
    // ---- rule count
    for &sto in &ALL_STO {
        let lim = sto.limits();
        let ru = lim.rules.unwrap_or(300);
        for delta in [-1i64, 0, 1] {
            let n = (ru as i64 + delta).max(0) as usize;
            for placement in 0..3u64 {
                for follow in 0..5u64 {
                    let i = idx;
                    idx += 1;
                    if !ctx.want("cap", i) {
                        continue;
                    }
                    let mut r = ctx.rng("cap", i);
                    let mut p = base_prog(&mut r);
                    p.aarch64 = i % 3 == 0;
                    let all = set_n_rules(n, 40, i);
                    let cut = match placement {
                        0 => 0,
                        1 => n,
                        _ => n / 2,
                    };
                    p.cie = vec![Ins::DefCfaSf(7, 2)];
                    p.cie.extend(all[..cut].iter().cloned());
                    let mut fde: Vec<Ins> = all[cut..].to_vec();
                    fde.push(Ins::AdvanceLoc(2));
                    match follow {
                        0 => {}
                        1 => {
                            // overwrite an existing rule at full capacity: no growth
                            fde.push(Ins::SameValue(40));
                            fde.push(Ins::AdvanceLoc(1));
                        }
                        2 => {
                            // restore one (removes it when it has no initial rule), add another
                            fde.push(Ins::RestoreExtended(40 + n as u64 - 1));
                            fde.push(Ins::AdvanceLoc(1));
                            fde.push(Ins::Undefined(20));
                            fde.push(Ins::AdvanceLoc(1));
                            fde.push(Ins::Undefined(21));
                        }
                        3 => {
                            // remember, add beyond, restore
                            fde.push(Ins::RememberState);
                            fde.push(Ins::Undefined(22));
                            fde.push(Ins::AdvanceLoc(1));
                            fde.push(Ins::RestoreState);
                        }
                        _ => {
                            // the AArch64 pseudo register needs a slot as well
                            fde.push(Ins::NegateRaState);
                            fde.push(Ins::AdvanceLoc(1));
                            fde.push(Ins::NegateRaState);
                        }
                    }
                    p.fde = fde;
                    let (_b, t) = run_prog(ctx, "cap", &p, &[sto], 6, true);
                    if sto == Sto::Heap && t.error.is_none() {
                        if t.need.peak_rules == 192 {
                            ctx.obs("cap.heap.rules.exact");
                        }
                        if t.need.peak_rules == 193 {
                            ctx.obs("cap.heap.rules.over");
                        }
                    }
                    ctx.counted_distinct += 1;
                }
            }
        }
    }
    // ---- deep stacks for the growable storages
    for (k, &depth) in [100usize, 1000, 5000].iter().enumerate() {
        let i = idx + k as u64;
        if !ctx.want("cap", i) {
            continue;
        }
        let mut r = ctx.rng("cap", i);
        let mut p = base_prog(&mut r);
        p.addr_size = 8;
        p.initial = 0x1000;
        p.range = 0x10_0000;
        p.cie = vec![Ins::DefCfa(7, 8), Ins::Offset(1, 1), Ins::Offset(2, 2)];
        let mut fde = vec![];
        for d in 0..depth {
            fde.push(Ins::RememberState);
            fde.push(Ins::DefCfaOffset(d as u64));
            if d % 64 == 0 {
                fde.push(Ins::AdvanceLoc(1));
            }
        }
        for d in 0..depth {
            fde.push(Ins::RestoreState);
            if d % 64 == 0 {
                fde.push(Ins::AdvanceLoc(1));
            }
        }
        p.fde = fde;
        run_prog(ctx, "cap", &p, &[Sto::VecVec, Sto::VecR8, Sto::Heap], 6, true);
        ctx.counted_distinct += 1;
    }
}

// ---------------------------------------------------------------- random programs

fn rand_reg(r: &mut Rng, pool: u64) -> u64 {
    match r.below(20) {
        0 => 34,
        1 => 0xffff,
        2 => 0x3f,
        3 => 0x40,
        _ => r.below(pool),
    }
}

fn rand_ins(r: &mut Rng, pool: u64, depth: &mut i64, expr_cfa: &mut bool, in_fde: bool, initial: u64, loc: &mut u64) -> Ins {
    let off_u = |r: &mut Rng| if r.chance(1, 6) { r.boundary() } else { r.below(64) };
    let off_s = |r: &mut Rng| if r.chance(1, 6) { r.boundary() as i64 } else { r.irange(-32, 32) };
    loop {
        let k = r.below(30);
        return match k {
            0..=4 => {
                let d = r.below(4) as u8;
                *loc = loc.wrapping_add(d as u64);
                match r.below(4) {
                    0 => Ins::AdvanceLoc(d),
                    1 => Ins::AdvanceLoc1(d),
                    2 => Ins::AdvanceLoc2(d as u16),
                    _ => Ins::AdvanceLoc4(d as u32),
                }
            }
            5 => {
                if !in_fde || r.chance(2, 3) {
                    continue;
                }
                let _ = initial;
                Ins::SetLoc(loc.wrapping_add(r.below(3)))
            }
            6 => {
                *expr_cfa = false;
                Ins::DefCfa(rand_reg(r, pool), off_u(r))
            }
            7 => {
                *expr_cfa = false;
                Ins::DefCfaSf(rand_reg(r, pool), off_s(r))
            }
            8 | 9 | 10 => {
                if *expr_cfa && r.chance(9, 10) {
                    continue;
                }
                match k {
                    8 => Ins::DefCfaRegister(rand_reg(r, pool)),
                    9 => Ins::DefCfaOffset(off_u(r)),
                    _ => Ins::DefCfaOffsetSf(off_s(r)),
                }
            }
            11 => {
                if r.chance(2, 3) {
                    continue;
                }
                *expr_cfa = true;
                let n = r.usize(4);
                Ins::DefCfaExpression(r.bytes(n))
            }
            12 => Ins::Undefined(rand_reg(r, pool)),
            13 => Ins::SameValue(rand_reg(r, pool)),
            14 => Ins::Offset(rand_reg(r, pool.min(0x40)) as u8 & 0x3f, off_u(r)),
            15 => Ins::OffsetExtended(rand_reg(r, pool), off_u(r)),
            16 => Ins::OffsetExtendedSf(rand_reg(r, pool), off_s(r)),
            17 => Ins::ValOffset(rand_reg(r, pool), off_u(r)),
            18 => Ins::ValOffsetSf(rand_reg(r, pool), off_s(r)),
            19 => Ins::Register(rand_reg(r, pool), rand_reg(r, pool)),
            20 => {
                let n = r.usize(3);
                Ins::Expression(rand_reg(r, pool), r.bytes(n))
            }
            21 => {
                let n = r.usize(3);
                Ins::ValExpression(rand_reg(r, pool), r.bytes(n))
            }
            22 | 23 => {
                if !in_fde && r.chance(19, 20) {
                    continue;
                }
                if k == 22 {
                    Ins::Restore(rand_reg(r, pool.min(0x40)) as u8 & 0x3f)
                } else {
                    Ins::RestoreExtended(rand_reg(r, pool))
                }
            }
            24 => {
                if *depth >= 3 && r.chance(3, 4) {
                    continue;
                }
                *depth += 1;
                Ins::RememberState
            }
            25 => {
                if *depth <= 0 && r.chance(14, 15) {
                    continue;
                }
                *depth -= 1;
                // the restored row's CFA kind is unknown to this light tracker
                *expr_cfa = false;
                Ins::RestoreState
            }
            26 => Ins::ArgsSize(off_u(r)),
            27 => {
                if r.chance(1, 2) {
                    continue;
                }
                Ins::NegateRaState
            }
            _ => Ins::Nop,
        };
    }
}

fn random_programs(ctx: &mut Ctx) {
    let n = ctx.size(12_000, 150_000, 6);
    let encs = fde_encodings();
    for i in 0..n {
        if !ctx.want("rand", i) {
            continue;
        }
        let mut r = ctx.rng("rand", i);
        let mut p = base_prog(&mut r);
        let (ca, da) = match r.below(4) {
            0 => *r.pick(&FACTORS),
            1 => (r.below(9), r.irange(-9, 9)),
            2 => (r.boundary(), r.boundary() as i64),
            _ => (1, -8),
        };
        p.code_align = ca;
        p.data_align = da;
        if r.chance(1, 3) {
            p.kind = Kind::EhFrame;
            p.fde_enc = Some(if r.chance(1, 2) { *r.pick(&[0x00u8, 0x1b, 0x03, 0x0b, 0x04, 0x0c, 0x01, 0x09]) } else { *r.pick(&encs) });
        }
        // NegateRaState only makes sense with the vendor; keep both
        let pool = match r.below(6) {
            0 => 3,
            1 => 300,
            2 => 0x1_0000,
            _ => 12,
        };
        let total = match r.below(10) {
            0 => r.below(300),
            1..=3 => r.below(60),
            _ => r.below(14),
        } as usize;
        let n_cie = if r.chance(1, 3) { 0 } else { r.usize(total.min(40) + 1) };
        let mut depth = 0i64;
        let mut expr_cfa = false;
        let mut loc = 0u64;
        for _ in 0..n_cie {
            let ins = rand_ins(&mut r, pool, &mut depth, &mut expr_cfa, false, p.initial, &mut loc);
            p.cie.push(ins);
        }
        loc = p.initial;
        for _ in n_cie..total {
            let ins = rand_ins(&mut r, pool, &mut depth, &mut expr_cfa, true, p.initial, &mut loc);
            p.fde.push(ins);
        }
        if r.chance(1, 2) {
            // make the range cover what the program advances (when the factor is 1)
            p.range = loc.wrapping_sub(p.initial).wrapping_add(r.below(8)) & m::addr_mask(p.addr_size);
        }
        let stos: Vec<Sto> = if r.chance(1, 8) { ALL_STO.to_vec() } else { vec![Sto::Heap, ALL_STO[1 + r.usize(8)], ALL_STO[1 + r.usize(8)]] };
        let (built, t) = run_prog(ctx, "rand", &p, &stos, 8, true);
        if t.steps > 0 {
            let mut salt = built.bytes.clone();
            salt.push(p.addr_size);
            salt.push(p.kind as u8);
            salt.push(p.le as u8);
            salt.push(p.aarch64 as u8);
            ctx.nontrivial_bytes("rand", &salt);
        }
        if i == 7 {
            ctx.sample("rand", || json!({"program": p.json(&built), "model_rows": format!("{:?}", t.rows.iter().take(6).collect::<Vec<_>>()), "model_error": format!("{:?}", t.error), "need": format!("{:?}", t.need)}));
        }
    }
}

pub fn run(ctx: &mut Ctx) {
    if ctx.slow() {
        // Miri slice: a thinned-out storage-boundary stream (ArrayVec push/pop/clear at and
        // beyond capacity is the unsafe code being interpreted) plus a few random programs
        ctx.slow_stride = 60;
        capacity(ctx);
        ctx.slow_stride = 1;
        random_programs(ctx);
        return;
    }
    corpus::run(ctx);
    raw_cases(ctx);
    capacity(ctx);
    opcode_sweep(ctx);
    random_programs(ctx);
    exhaustive(ctx);
}

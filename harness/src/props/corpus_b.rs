//! Shared helpers of the compiler-built corpus complements of C03, C08, C12 and C17
//! (`c03_corpus.rs`, `c08_corpus.rs`, `c12_corpus.rs`, `c17_corpus.rs`; each includes this
//! file with `#[path]`).
//!
//! * three small C / C++ sources are compiled at check time with gcc / clang under a list of
//!   configurations (`Cfg`): DWARF 2-5, -O0/-O2, DWARF64, type units, split DWARF (+ `dwp`,
//!   `llvm-dwp` packages), accelerator tables;
//! * builds are cached under `<work>/corpus-b/<hash of configuration + sources>/` (built in
//!   a private temporary directory and renamed into place, so concurrent shard processes
//!   cannot see half-built directories); `llvm-dwarfdump` outputs are cached next to them;
//! * `parse_info` turns `llvm-dwarfdump -v --debug-info --debug-types` text into units /
//!   entries / attributes (name, form, first-line value text, continuation lines);
//! * small text helpers for the other dump formats.
//!
//! Every failure of an external tool is returned as `Err(String)`; the callers report it
//! as *inconclusive*, never as a violation.
#![allow(dead_code)]

use crate::mon::entries::Secs;
use crate::rt::{fnv, fnv_add, Ctx};
use gimli::{EndianSlice, RunTimeEndian, SectionId};
use object::{Object, ObjectSection};
use std::collections::HashMap;
use std::path::{Path, PathBuf};
use std::process::Command;

pub type Slice<'a> = EndianSlice<'a, RunTimeEndian>;
pub const LE: RunTimeEndian = RunTimeEndian::Little;

// ---------------------------------------------------------------- sources

pub const A_C: &str = r#"
struct point { int x, y; };
struct node { struct node *next; struct point p; union { int i; float f; } u; };
enum color { RED, GREEN, BLUE = -3 };
typedef int (*fn_t)(struct node *, enum color);
extern int other(struct point *p);
extern int sink(int);
static const long long big = 0x123456789abcLL;
const unsigned char flags8 = 200;
const short neg16 = -12345;
volatile int gv;
struct big { char buf[300]; short s; };
struct big bigvar;
static const double dconst = 2.5;
static const __int128 wide = ((__int128)0x1122334455667788LL << 64) | 0x99aabbccddeeff00ULL;
static inline int helper(int a) { int r = 0; { int k = a * 2; r += k; { int m = k + 1; r += sink(m); } } return r; }
int walk(struct node *n, enum color c) { int s = 0; for (; n; n = n->next) { int t = n->p.x + helper(n->p.y); if (c == RED) { int q = t * 2; s += sink(q); } else s += t; } return s; }
int arr[10];
__attribute__((noinline)) int many(int a, int b, int c) { int x = a + b; int y = sink(x) * c; int z = y - a; gv = z; x = sink(y + z); for (int i = 0; i < b; i++) { int w = x * i; gv += sink(w); } return x + y + z; }
__attribute__((cold)) void coldpath(int v) { gv = v; sink(v); }
int main(int argc, char **argv) { struct node a = {0, {1,2}, {3}}; fn_t f = walk; if (argc > 5) coldpath(argc); return f(&a, argc > 1 ? RED : GREEN) + arr[argc] + other(&a.p) + many(argc, 3, 4) + (int)big + neg16 + (int)dconst + (int)(wide >> 70) + bigvar.buf[argc]; }
"#;

pub const B_C: &str = r#"
struct point { int x, y; };
struct box { struct point lo, hi; const char *name; long tags[4]; };
struct bits { unsigned a:3; unsigned b:5; int c:7; };
struct empty_user { struct { int a; struct { short b, c; } in; } nest; void (*cb)(void); };
extern volatile int gv;
int sink(int v) { gv += v; return gv; }
static int area(const struct box *b) { int w = b->hi.x - b->lo.x; int h = b->hi.y - b->lo.y; { int a = w * h; if (a < 0) { int n = -a; return n; } return a; } }
int other(struct point *p) { struct box b = { *p, { p->x + 3, p->y + 4 }, "b", {0} }; struct empty_user e = {{1,{2,3}},0}; struct bits bt = {1,2,3}; return area(&b) + e.nest.in.b + bt.c; }
double scale(double d, int n) { double r = d; while (n-- > 0) { double t = r * 1.5; r = t + sink(n); } return r; }
"#;

pub const C_CPP: &str = r#"
namespace geo { struct Vec { int x, y; int dot(const Vec &o) const { return x * o.x + y * o.y; } }; template <typename T> T twice(T v) { return v + v; } namespace inner { int depth(int a) { return twice<int>(a) + 1; } } }
extern "C" int sink(int);
class Shape { public: virtual ~Shape() {} virtual int area() const = 0; static int count; };
int Shape::count = 0;
class Rect : public Shape { int w, h; public: Rect(int w, int h) : w(w), h(h) { count++; } int area() const override { return w * h; } };
extern "C" int cxx_entry(int a) { geo::Vec v{a, 2}, u{3, a}; Rect r(a, 4); const Shape &s = r; long t = geo::twice<long>(a); return v.dot(u) + s.area() + geo::inner::depth(a) + (int)t + sink(a); }
"#;

const SCHEMA: &str = "corpus-b v3";

// ---------------------------------------------------------------- configurations

#[derive(Clone, Debug, PartialEq, Eq)]
pub struct Cfg {
    /// "gcc" | "clang"
    pub cc: &'static str,
    pub ver: u8,
    pub opt: &'static str,
    pub extra: Vec<&'static str>,
    /// `-gsplit-dwarf`: .dwo objects + packages
    pub split: bool,
}

impl Cfg {
    pub fn new(cc: &'static str, ver: u8, opt: &'static str, extra: &[&'static str]) -> Cfg {
        Cfg { cc, ver, opt, extra: extra.to_vec(), split: false }
    }
    pub fn split(cc: &'static str, ver: u8, opt: &'static str, extra: &[&'static str]) -> Cfg {
        Cfg { cc, ver, opt, extra: extra.to_vec(), split: true }
    }
    pub fn flags(&self) -> Vec<String> {
        let mut v = vec!["-g".to_string(), format!("-gdwarf-{}", self.ver), self.opt.to_string()];
        for e in &self.extra {
            v.push(e.to_string());
        }
        if self.split {
            v.push("-gsplit-dwarf".into());
        }
        v
    }
    pub fn label(&self) -> String {
        format!("{} {}", self.cc, self.flags().join(" "))
    }
    pub fn cxx(&self) -> &'static str {
        if self.cc == "gcc" {
            "g++"
        } else {
            "clang++"
        }
    }
    pub fn key(&self) -> u64 {
        let mut h = fnv(SCHEMA.as_bytes());
        h = fnv_add(h, self.label().as_bytes());
        h = fnv_add(h, A_C.as_bytes());
        h = fnv_add(h, B_C.as_bytes());
        fnv_add(h, C_CPP.as_bytes())
    }
    pub fn has(&self, flag: &str) -> bool {
        self.extra.iter().any(|f| *f == flag)
    }
}

/// {gcc, clang} x -gdwarf-{2,3,4,5} x {-O0, -O2}
pub fn matrix() -> Vec<Cfg> {
    let mut v = vec![];
    for cc in ["gcc", "clang"] {
        for ver in [2u8, 3, 4, 5] {
            for opt in ["-O0", "-O2"] {
                v.push(Cfg::new(cc, ver, opt, &[]));
            }
        }
    }
    v
}

/// DWARF64 (gcc only) and type units.
pub fn specials() -> Vec<Cfg> {
    vec![
        Cfg::new("gcc", 4, "-O2", &["-gdwarf64"]),
        Cfg::new("gcc", 5, "-O2", &["-gdwarf64"]),
        Cfg::new("gcc", 4, "-O1", &["-fdebug-types-section"]),
        Cfg::new("gcc", 5, "-O1", &["-fdebug-types-section"]),
        Cfg::new("clang", 4, "-O1", &["-fdebug-types-section"]),
        Cfg::new("clang", 5, "-O1", &["-fdebug-types-section"]),
    ]
}

/// `-gsplit-dwarf` objects.  gcc's variable location views are switched off for the
/// version 4 split objects: the `DW_LLE_GNU_view_pair` entries gcc puts into
/// `.debug_loc.dwo` are a GNU extension neither llvm-dwarfdump 14 nor gimli decodes.
pub fn splits() -> Vec<Cfg> {
    vec![
        Cfg::split("clang", 5, "-O2", &[]),
        Cfg::split("clang", 4, "-O2", &[]),
        Cfg::split("gcc", 5, "-O2", &[]),
        Cfg::split("gcc", 4, "-O2", &["-gno-variable-location-views"]),
        Cfg::split("clang", 4, "-O1", &["-fdebug-types-section"]),
        Cfg::split("clang", 5, "-O1", &["-fdebug-types-section"]),
        // (gcc -gsplit-dwarf -fdebug-types-section puts every type unit of a .dwo into a COMDAT
        // section of its own: several `.debug_types.dwo` sections in one file, which this
        // harness cannot hand to gimli as one section; not part of the corpus)
    ]
}

// ---------------------------------------------------------------- building

#[derive(Clone, Debug)]
pub struct Built {
    pub cfg: Cfg,
    pub dir: PathBuf,
}

fn run_tool(dir: &Path, prog: &str, args: &[String]) -> Result<Vec<u8>, String> {
    let out = Command::new(prog).current_dir(dir).args(args.iter()).output().map_err(|e| format!("{prog}: {e}"))?;
    if !out.status.success() {
        return Err(format!(
            "{prog} {} failed: {}",
            args.join(" "),
            String::from_utf8_lossy(&out.stderr).chars().take(240).collect::<String>()
        ));
    }
    Ok(out.stdout)
}

fn s(v: &[&str]) -> Vec<String> {
    v.iter().map(|x| x.to_string()).collect()
}

/// Build (or fetch from the cache) the objects of one configuration.
pub fn build(ctx: &Ctx, cfg: &Cfg) -> Result<Built, String> {
    let root = ctx.work.join("corpus-b");
    let dir = root.join(format!("{:016x}", cfg.key()));
    if dir.join("ok").exists() {
        return Ok(Built { cfg: cfg.clone(), dir });
    }
    std::fs::create_dir_all(&root).map_err(|e| e.to_string())?;
    // one builder per configuration: the dbg and the rel shard that own the same case start
    // at the same time; the second one waits for the first (at most a minute, then builds
    // anyway, so a stale lock can only cost time)
    struct Lock(Option<PathBuf>);
    impl Drop for Lock {
        fn drop(&mut self) {
            if let Some(p) = &self.0 {
                let _ = std::fs::remove_dir(p);
            }
        }
    }
    let lock_path = root.join(format!("lock-{:016x}", cfg.key()));
    let mut _lock = Lock(None);
    for _ in 0..600 {
        if dir.join("ok").exists() {
            return Ok(Built { cfg: cfg.clone(), dir });
        }
        if std::fs::create_dir(&lock_path).is_ok() {
            _lock = Lock(Some(lock_path.clone()));
            break;
        }
        std::thread::sleep(std::time::Duration::from_millis(100));
    }
    if dir.join("ok").exists() {
        return Ok(Built { cfg: cfg.clone(), dir });
    }
    let tmp = root.join(format!("tmp-{:016x}-{}-{}", cfg.key(), std::process::id(), ctx.profile.name()));
    let _ = std::fs::remove_dir_all(&tmp);
    std::fs::create_dir_all(&tmp).map_err(|e| e.to_string())?;
    let res = (|| -> Result<(), String> {
        std::fs::write(tmp.join("a.c"), A_C).map_err(|e| e.to_string())?;
        std::fs::write(tmp.join("b.c"), B_C).map_err(|e| e.to_string())?;
        std::fs::write(tmp.join("c.cpp"), C_CPP).map_err(|e| e.to_string())?;
        let mut args = cfg.flags();
        args.extend(s(&["-c", "a.c", "b.c", "c.cpp"]));
        run_tool(&tmp, cfg.cc, &args)?;
        run_tool(&tmp, cfg.cxx(), &s(&["a.o", "b.o", "c.o", "-o", "prog"]))?;
        let mut notes = String::new();
        if cfg.split {
            for d in ["a.dwo", "b.dwo", "c.dwo"] {
                if !tmp.join(d).exists() {
                    return Err(format!("{}: {d} was not produced", cfg.label()));
                }
            }
            // packages: a failing packager only makes that package unavailable
            if let Err(e) = run_tool(&tmp, "llvm-dwp", &s(&["a.dwo", "b.dwo", "c.dwo", "-o", "llvm.dwp"])) {
                notes.push_str(&format!("llvm-dwp: {e}\n"));
                let _ = std::fs::remove_file(tmp.join("llvm.dwp"));
            }
            // binutils dwp 2.40 does not understand DWARF 5 units
            if cfg.ver < 5 {
                if let Err(e) = run_tool(&tmp, "dwp", &s(&["-o", "gnu.dwp", "a.dwo", "b.dwo", "c.dwo"])) {
                    notes.push_str(&format!("dwp: {e}\n"));
                    let _ = std::fs::remove_file(tmp.join("gnu.dwp"));
                }
            }
        }
        for f in ["a.o", "b.o", "c.o"] {
            let _ = std::fs::remove_file(tmp.join(f));
        }
        std::fs::write(tmp.join("notes"), notes).map_err(|e| e.to_string())?;
        std::fs::write(tmp.join("ok"), cfg.label()).map_err(|e| e.to_string())?;
        Ok(())
    })();
    if let Err(e) = res {
        let _ = std::fs::remove_dir_all(&tmp);
        return Err(e);
    }
    // publish; losing the race against another process is fine
    if std::fs::rename(&tmp, &dir).is_err() {
        let _ = std::fs::remove_dir_all(&tmp);
    }
    if dir.join("ok").exists() {
        Ok(Built { cfg: cfg.clone(), dir })
    } else {
        Err(format!("{}: cache directory could not be published", cfg.label()))
    }
}

impl Built {
    pub fn path(&self, file: &str) -> PathBuf {
        self.dir.join(file)
    }
    pub fn exists(&self, file: &str) -> bool {
        self.dir.join(file).exists()
    }
    pub fn dwos(&self) -> Vec<&'static str> {
        if self.cfg.split {
            vec!["a.dwo", "b.dwo", "c.dwo"]
        } else {
            vec![]
        }
    }
    pub fn packages(&self) -> Vec<&'static str> {
        ["llvm.dwp", "gnu.dwp"].into_iter().filter(|p| self.exists(p)).collect()
    }
    /// `llvm-dwarfdump <args> <file>` (stdout), cached.
    pub fn dump(&self, args: &[&str], file: &str) -> Result<String, String> {
        let mut h = fnv(file.as_bytes());
        for a in args {
            h = fnv_add(h, a.as_bytes());
        }
        let cache = self.dir.join(format!("dump-{:016x}.txt", h));
        if let Ok(t) = std::fs::read_to_string(&cache) {
            return Ok(t);
        }
        let mut a = s(args);
        a.push(file.to_string());
        let out = Command::new("llvm-dwarfdump").current_dir(&self.dir).args(a.iter()).output().map_err(|e| format!("llvm-dwarfdump: {e}"))?;
        if !out.status.success() {
            // DWARF 4 split objects keep their range lists in the skeleton file's .debug_ranges;
            // llvm-dwarfdump complains about every DW_AT_ranges of the .dwo (and exits with a
            // failure status) but still prints the complete dump.  Anything else is a failure.
            let err = String::from_utf8_lossy(&out.stderr).to_string();
            let benign = !out.stdout.is_empty() && err.lines().all(|l| l.trim().is_empty() || l.starts_with("error: decoding address ranges: invalid range list offset"));
            if !benign {
                return Err(format!("llvm-dwarfdump {} failed: {}", a.join(" "), err.chars().take(240).collect::<String>()));
            }
        }
        let text = String::from_utf8_lossy(&out.stdout).to_string();
        let tmp = self.dir.join(format!("dump-{:016x}.tmp{}", h, std::process::id()));
        if std::fs::write(&tmp, &text).is_ok() {
            let _ = std::fs::rename(&tmp, &cache);
        }
        Ok(text)
    }
    pub fn load(&self, file: &str) -> Result<Obj, String> {
        Obj::load(&self.dir.join(file))
    }
}

// ---------------------------------------------------------------- object files

#[derive(Clone, Debug, Default)]
pub struct Obj {
    pub secs: HashMap<String, Vec<u8>>,
}

static EMPTY: [u8; 0] = [];

impl Obj {
    pub fn load(path: &Path) -> Result<Obj, String> {
        let data = std::fs::read(path).map_err(|e| format!("{}: {e}", path.display()))?;
        let file = object::File::parse(&*data).map_err(|e| format!("{}: {e}", path.display()))?;
        if !file.is_little_endian() {
            return Err("big-endian object".into());
        }
        let mut secs = HashMap::new();
        for sec in file.sections() {
            let Ok(name) = sec.name() else { continue };
            if !(name.starts_with(".debug_") || name == ".eh_frame" || name == ".eh_frame_hdr") {
                continue;
            }
            let d = sec.uncompressed_data().map_err(|e| format!("{name}: {e}"))?;
            if d.is_empty() {
                continue;
            }
            // gcc puts every type unit of a .dwo into a COMDAT section of its own; several
            // sections of one name cannot be handed to gimli as one section
            if secs.insert(name.to_string(), d.to_vec()).is_some() {
                return Err(format!("{}: several sections named {name} (COMDAT groups): not supported by this harness", path.display()));
            }
        }
        Ok(Obj { secs })
    }
    pub fn sec(&self, name: &str) -> &[u8] {
        self.secs.get(name).map(|v| &v[..]).unwrap_or(&EMPTY)
    }
    /// Sections under their ordinary names (`.debug_info`).
    pub fn dwarf(&self) -> gimli::Dwarf<Slice<'_>> {
        gimli::Dwarf::load(|id| Ok::<_, ()>(EndianSlice::new(self.sec(id.name()), LE))).unwrap()
    }
    /// Sections under their `.dwo` names (`.debug_info.dwo`), completed from the skeleton
    /// file with `Dwarf::make_dwo`.
    pub fn dwarf_dwo<'a>(&'a self, parent: &gimli::Dwarf<Slice<'a>>) -> gimli::Dwarf<Slice<'a>> {
        let mut d = gimli::Dwarf::load(|id| Ok::<_, ()>(EndianSlice::new(id.dwo_name().map(|n| self.sec(n)).unwrap_or(&EMPTY), LE))).unwrap();
        d.make_dwo(parent);
        d
    }
    /// `.dwp` package.
    pub fn package(&self) -> gimli::Result<gimli::DwarfPackage<Slice<'_>>> {
        gimli::DwarfPackage::load(|id| Ok::<_, gimli::Error>(EndianSlice::new(id.dwo_name().map(|n| self.sec(n)).unwrap_or(&EMPTY), LE)), EndianSlice::new(&EMPTY, LE))
    }
    /// The `.debug_*` sections of a non-split object keyed by `SectionId` (for C12).
    pub fn secs_by_id(&self) -> Secs {
        let mut out = Secs::default();
        for id in ALL_IDS {
            let d = self.sec(id.name());
            if !d.is_empty() {
                out.set(*id, d.to_vec());
            }
        }
        out
    }
    pub fn digest(&self) -> u64 {
        let mut names: Vec<&String> = self.secs.keys().collect();
        names.sort();
        let mut h = 0u64;
        for n in names {
            h = fnv_add(h, n.as_bytes());
            h = fnv_add(h, &self.secs[n]);
        }
        h
    }
}

pub const ALL_IDS: &[SectionId] = &[
    SectionId::DebugAbbrev,
    SectionId::DebugAddr,
    SectionId::DebugAranges,
    SectionId::DebugInfo,
    SectionId::DebugLine,
    SectionId::DebugLineStr,
    SectionId::DebugLoc,
    SectionId::DebugLocLists,
    SectionId::DebugMacinfo,
    SectionId::DebugMacro,
    SectionId::DebugRanges,
    SectionId::DebugRngLists,
    SectionId::DebugStr,
    SectionId::DebugStrOffsets,
    SectionId::DebugTypes,
];

// ---------------------------------------------------------------- text helpers

/// Leading `0x` hexadecimal number of `t`.
pub fn lead_hex(t: &str) -> Option<u64> {
    let r = t.strip_prefix("0x")?;
    let end = r.find(|c: char| !c.is_ascii_hexdigit()).unwrap_or(r.len());
    if end == 0 {
        return None;
    }
    u64::from_str_radix(&r[..end], 16).ok()
}

/// Leading bare hexadecimal number (no prefix).
pub fn lead_barehex(t: &str) -> Option<u64> {
    let end = t.find(|c: char| !c.is_ascii_hexdigit()).unwrap_or(t.len());
    if end == 0 {
        return None;
    }
    u64::from_str_radix(&t[..end], 16).ok()
}

pub fn hex_after(line: &str, key: &str) -> Option<u64> {
    let i = line.find(key)? + key.len();
    lead_hex(line[i..].trim_start())
}

/// A number as llvm prints plain integers: `0x..` hexadecimal, or (signed) decimal.
pub fn lead_num(t: &str) -> Option<i128> {
    if t.starts_with("0x") {
        return lead_hex(t).map(|v| v as i128);
    }
    let (neg, r) = match t.strip_prefix('-') {
        Some(r) => (true, r),
        None => (false, t),
    };
    let end = r.find(|c: char| !c.is_ascii_digit()).unwrap_or(r.len());
    if end == 0 {
        return None;
    }
    let v: i128 = r[..end].parse().ok()?;
    Some(if neg { -v } else { v })
}

/// Undo `raw_ostream::write_escaped` (`\\`, `\t`, `\n`, `\"`, `\XX` hexadecimal).
pub fn unescape(t: &str) -> Option<Vec<u8>> {
    let b = t.as_bytes();
    let mut out = Vec::with_capacity(b.len());
    let mut i = 0;
    while i < b.len() {
        if b[i] != b'\\' {
            out.push(b[i]);
            i += 1;
            continue;
        }
        let c = *b.get(i + 1)?;
        match c {
            b'\\' => out.push(b'\\'),
            b't' => out.push(b'\t'),
            b'n' => out.push(b'\n'),
            b'"' => out.push(b'"'),
            _ => {
                let h = std::str::from_utf8(b.get(i + 1..i + 3)?).ok()?;
                out.push(u8::from_str_radix(h, 16).ok()?);
                i += 1;
            }
        }
        i += 2;
    }
    Some(out)
}

/// The text between the first and the last double quote of `t`, unescaped.
pub fn quoted(t: &str) -> Option<Vec<u8>> {
    let a = t.find('"')?;
    let b = t.rfind('"')?;
    if b <= a {
        return None;
    }
    unescape(&t[a + 1..b])
}

/// `[0x..., 0x...)` at the start of `t` -> (begin, end, rest after the bracket)
pub fn bracket_range(t: &str) -> Option<(u64, u64, &str)> {
    let r = t.strip_prefix('[')?;
    let b = lead_hex(r)?;
    let comma = r.find(',')?;
    let r2 = r[comma + 1..].trim_start();
    let e = lead_hex(r2)?;
    let close = r2.find(')')?;
    Some((b, e, &r2[close + 1..]))
}

/// `(0x..., 0x...)` or `(0x...)` operands of a raw list entry line.
pub fn paren_operands(t: &str) -> Option<(Vec<u64>, &str)> {
    let open = t.find('(')?;
    let close = t[open..].find(')')? + open;
    let mut v = vec![];
    for p in t[open + 1..close].split(',') {
        v.push(lead_hex(p.trim())?);
    }
    Some((v, &t[close + 1..]))
}

// ---------------------------------------------------------------- --debug-info parser

#[derive(Clone, Debug, Default, PartialEq, Eq)]
pub struct DAttr {
    pub name: String,
    pub form: String,
    /// text after the opening parenthesis on the attribute's line (closing parenthesis
    /// stripped when the value is on one line)
    pub text: String,
    /// continuation lines (trimmed; the closing parenthesis of the last one stripped)
    pub cont: Vec<String>,
}

#[derive(Clone, Debug, Default, PartialEq, Eq)]
pub struct DDie {
    pub off: u64,
    pub depth: i64,
    /// "NULL" for null entries
    pub tag: String,
    pub attrs: Vec<DAttr>,
}

impl DDie {
    pub fn attr(&self, name: &str) -> Option<&DAttr> {
        self.attrs.iter().find(|a| a.name == name)
    }
}

#[derive(Clone, Debug, Default, PartialEq, Eq)]
pub struct DUnit {
    pub types_section: bool,
    pub offset: u64,
    pub length: u64,
    pub version: u64,
    pub fmt64: bool,
    pub addr_size: u64,
    pub unit_type: String,
    pub dwo_id: Option<u64>,
    pub type_signature: Option<u64>,
    pub dies: Vec<DDie>,
}

impl DUnit {
    pub fn root(&self) -> Option<&DDie> {
        self.dies.first()
    }
    /// The DWO id: unit header (version 5) or `DW_AT_GNU_dwo_id`.
    pub fn any_dwo_id(&self) -> Option<u64> {
        self.dwo_id.or_else(|| self.root().and_then(|r| r.attr("DW_AT_GNU_dwo_id")).and_then(|a| lead_hex(&a.text)))
    }
}

pub fn parse_info(text: &str) -> Result<Vec<DUnit>, String> {
    let mut units: Vec<DUnit> = vec![];
    let mut in_types = false;
    for line in text.lines() {
        if line.starts_with(".debug_") && line.ends_with("contents:") {
            in_types = line.starts_with(".debug_types");
            continue;
        }
        if line.starts_with("0x") {
            let Some(colon) = line.find(':') else { continue };
            let off = u64::from_str_radix(&line[2..colon], 16).map_err(|e| format!("offset: {e}"))?;
            let rest = &line[colon + 1..];
            if rest.contains(" Unit: length = ") {
                let ut = rest.find("unit_type = ").map(|i| rest[i + 12..].split(|c: char| c == ',' || c == ' ').next().unwrap_or("").to_string()).unwrap_or_default();
                units.push(DUnit {
                    types_section: in_types,
                    offset: off,
                    length: hex_after(rest, "length = ").ok_or("length")?,
                    version: hex_after(rest, "version = ").ok_or("version")?,
                    fmt64: rest.contains("format = DWARF64"),
                    addr_size: hex_after(rest, "addr_size = ").ok_or("addr_size")?,
                    unit_type: ut,
                    dwo_id: hex_after(rest, "DWO_id = "),
                    type_signature: hex_after(rest, "type_signature = "),
                    dies: vec![],
                });
                continue;
            }
            let spaces = rest.len() - rest.trim_start_matches(' ').len();
            let tag = rest.trim().split_whitespace().next().unwrap_or("");
            if !(tag.starts_with("DW_TAG_") || tag == "NULL") {
                return Err(format!("unrecognised entry line: {line}"));
            }
            let Some(u) = units.last_mut() else { return Err("entry before any unit".into()) };
            if spaces == 0 {
                return Err(format!("no indentation: {line}"));
            }
            u.dies.push(DDie { off, depth: ((spaces - 1) / 2) as i64, tag: tag.to_string(), attrs: vec![] });
            continue;
        }
        let t = line.trim();
        if t.is_empty() {
            continue;
        }
        let Some(d) = units.last_mut().and_then(|u| u.dies.last_mut()) else { continue };
        if t.starts_with("DW_AT_") {
            // DW_AT_name [DW_FORM_x]\t(value
            let name = t.split(|c: char| c.is_whitespace()).next().unwrap_or("").to_string();
            let form = match (t.find('['), t.find(']')) {
                (Some(a), Some(b)) if a < b => t[a + 1..b].to_string(),
                _ => return Err(format!("attribute line without form (not a verbose dump?): {line}")),
            };
            let Some(tab) = t.find('\t') else { return Err(format!("attribute line without tab: {line}")) };
            let v = &t[tab + 1..];
            let Some(v) = v.strip_prefix('(') else { return Err(format!("attribute value without parenthesis: {line}")) };
            d.attrs.push(DAttr { name, form, text: v.to_string(), cont: vec![] });
        } else if let Some(a) = d.attrs.last_mut() {
            a.cont.push(t.to_string());
        }
    }
    // strip the closing parenthesis
    for u in &mut units {
        for d in &mut u.dies {
            for a in &mut d.attrs {
                let last = if let Some(l) = a.cont.last_mut() { l } else { &mut a.text };
                if last.ends_with(')') {
                    last.pop();
                } else {
                    return Err(format!("value of {} at 0x{:x} does not end with a parenthesis", a.name, d.off));
                }
            }
        }
    }
    Ok(units)
}

/// Verbose `--debug-info --debug-types` dump of one file, parsed.
pub fn info_dump(b: &Built, file: &str) -> Result<Vec<DUnit>, String> {
    let text = b.dump(&["-v", "--debug-info", "--debug-types"], file)?;
    let units = parse_info(&text).map_err(|e| format!("cannot parse llvm-dwarfdump output: {e}"))?;
    if units.is_empty() {
        return Err("llvm-dwarfdump printed no units".into());
    }
    Ok(units)
}

// ---------------------------------------------------------------- name tables

fn rev_table(max: u32, f: impl Fn(u16) -> Option<&'static str>) -> HashMap<&'static str, u16> {
    let mut m = HashMap::new();
    for c in 0..=max {
        if let Some(s) = f(c as u16) {
            m.entry(s).or_insert(c as u16);
        }
    }
    m
}

pub struct Names {
    pub at: HashMap<&'static str, u16>,
    pub form: HashMap<&'static str, u16>,
}

impl Names {
    pub fn new() -> Names {
        Names { at: rev_table(0x3fff, |c| gimli::DwAt(c).static_string()), form: rev_table(0x1fff, |c| gimli::DwForm(c).static_string()) }
    }
    /// Attribute code of llvm's spelling, `None` when gimli's name table has no such name.
    pub fn at_code(&self, name: &str) -> Option<u16> {
        if let Some(h) = name.strip_prefix("DW_AT_unknown_") {
            return u16::from_str_radix(h, 16).ok();
        }
        self.at.get(name).copied()
    }
    pub fn form_code(&self, name: &str) -> Option<u16> {
        if let Some(h) = name.strip_prefix("DW_FORM_unknown_") {
            return u16::from_str_radix(h, 16).ok();
        }
        self.form.get(name).copied()
    }
}

// ---------------------------------------------------------------- gimli-side unit walk

/// All unit headers of a `Dwarf` (`.debug_info` then `.debug_types`).
pub fn headers<'a>(dwarf: &gimli::Dwarf<Slice<'a>>) -> Result<Vec<gimli::UnitHeader<Slice<'a>>>, String> {
    let mut hs = vec![];
    let mut it = dwarf.units();
    while let Some(h) = it.next().map_err(|e| format!("units: {e:?}"))? {
        hs.push(h);
    }
    let mut it = dwarf.type_units();
    while let Some(h) = it.next().map_err(|e| format!("type_units: {e:?}"))? {
        hs.push(h);
    }
    Ok(hs)
}

pub fn header_offset(h: &gimli::UnitHeader<Slice<'_>>) -> (bool, u64) {
    (h.section() == SectionId::DebugTypes, h.offset().0 as u64)
}

/// The skeleton unit of `parent` whose DWO id is `id`.
pub fn skeleton_for<'a>(parent: &gimli::Dwarf<Slice<'a>>, id: u64) -> Option<gimli::Unit<Slice<'a>>> {
    let mut it = parent.units();
    while let Ok(Some(h)) = it.next() {
        if let Ok(u) = parent.unit(h) {
            if u.dwo_id.map(|d| d.0) == Some(id) {
                return Some(u);
            }
        }
    }
    None
}

/// Independent reading of `.debug_addr`: little-endian 8-byte slot `index` after `base`.
pub fn addr_slot(debug_addr: &[u8], base: u64, index: u64, addr_size: u64) -> Option<u64> {
    let off = base.checked_add(index.checked_mul(addr_size)?)?;
    let off = usize::try_from(off).ok()?;
    let end = off.checked_add(addr_size as usize)?;
    let b = debug_addr.get(off..end)?;
    let mut v = 0u64;
    for (i, x) in b.iter().enumerate().take(8) {
        v |= (*x as u64) << (8 * i);
    }
    Some(v)
}

/// What llvm-dwarfdump says about the skeleton units of the linked file: DWO id ->
/// (address table base, ranges base, low_pc).
#[derive(Clone, Debug, Default)]
pub struct SkelFacts {
    pub addr_base: u64,
    pub ranges_base: u64,
    pub low_pc: Option<u64>,
}

pub fn skeleton_facts(units: &[DUnit], debug_addr: &[u8]) -> HashMap<u64, SkelFacts> {
    let mut m = HashMap::new();
    for u in units {
        let Some(id) = u.any_dwo_id() else { continue };
        let Some(r) = u.root() else { continue };
        let mut f = SkelFacts::default();
        // a DWARF 5 unit without DW_AT_addr_base uses the first table (after its 8-byte header)
        f.addr_base = if u.version >= 5 { 8 } else { 0 };
        for a in &r.attrs {
            match a.name.as_str() {
                "DW_AT_addr_base" | "DW_AT_GNU_addr_base" => f.addr_base = lead_hex(&a.text).unwrap_or(f.addr_base),
                "DW_AT_GNU_ranges_base" => f.ranges_base = lead_hex(&a.text).unwrap_or(0),
                _ => {}
            }
        }
        if let Some(a) = r.attr("DW_AT_low_pc") {
            f.low_pc = if a.form == "DW_FORM_addr" {
                lead_hex(&a.text)
            } else {
                // indexed (00000000) address = 0x...
                a.text.find("address = ").and_then(|i| lead_hex(&a.text[i + 10..])).or_else(|| {
                    let idx = a.text.find('(').and_then(|i| lead_barehex(&a.text[i + 1..]))?;
                    addr_slot(debug_addr, f.addr_base, idx, u.addr_size)
                })
            };
        }
        m.insert(id, f);
    }
    m
}

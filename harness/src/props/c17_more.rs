//! C17, second half: aranges, pubnames/pubtypes, indexed tables, packages, plumbing.

use super::{ceq, cfail, endian, guarded, Rd};
use crate::asm::{Asm, Enc};
use crate::gen::index::*;
use crate::model::index::*;
use crate::rt::{hex, Ctx, Rng};
use gimli::{EndianSlice, Reader, RunTimeEndian, Section, SectionId};
use serde_json::{json, Value};
use std::collections::{BTreeMap, BTreeSet};

#[path = "c17_pkg.rs"]
mod pkg;
#[path = "c17_plumb.rs"]
mod plumb;

pub use pkg::pkg_stream;
pub use plumb::plumb_stream;

// ================================================================== aranges

fn check_aranges(ctx: &mut Ctx, tag: &str, sets: &[ArangeSetM], le: bool, bytes: &[u8]) {
    let input = || {
        json!({"le": le, "bytes": hex(bytes), "sets": sets.iter().map(|s| json!({
            "fmt64": s.fmt64, "version": s.version, "addr_size": s.addr_size, "offset": s.offset,
            "tuples": s.tuples.iter().map(|t| format!("{:#x}+{:#x}", t.0, t.1)).collect::<Vec<_>>()})).collect::<Vec<_>>()})
    };
    ctx.eval();
    guarded(ctx, tag, &input, |ctx| {
        let da = gimli::DebugAranges::new(bytes, endian(le));
        let mut it = da.headers();
        let mut k = 0usize;
        loop {
            let h = match it.next() {
                Ok(Some(h)) => h,
                Ok(None) => break,
                Err(e) => {
                    cfail(ctx, &format!("{tag}.headers.err"), &format!("header iteration failed: {e:?}"), &input);
                    return;
                }
            };
            let Some(s) = sets.get(k) else {
                cfail(ctx, &format!("{tag}.headers.extra"), "more sets than encoded", &input);
                return;
            };
            k += 1;
            ctx.obs("aranges.set");
            ctx.obs(&format!("aranges.a{}", s.addr_size));
            if s.fmt64 {
                ctx.obs("aranges.fmt64");
            }
            if s.padding() > 0 {
                ctx.obs("aranges.pad.nonzero");
            }
            ceq(ctx, &format!("{tag}.header.offset"), &(s.offset as usize), &h.offset().0, &input);
            ceq(ctx, &format!("{tag}.header.length"), &(s.length as usize), &h.length(), &input);
            ceq(ctx, &format!("{tag}.header.debug_info_offset"), &(s.info_offset as usize), &h.debug_info_offset().0, &input);
            let e = h.encoding();
            ceq(ctx, &format!("{tag}.header.encoding"), &(s.fmt64, s.version, s.addr_size), &(e.format == gimli::Format::Dwarf64, e.version, e.address_size), &input);
            // header(offset) random access gives the same set
            match da.header(gimli::DebugArangesOffset(s.offset as usize)) {
                Ok(h2) => {
                    ceq(ctx, &format!("{tag}.header_at.length"), &(s.length as usize), &h2.length(), &input);
                }
                Err(e) => cfail(ctx, &format!("{tag}.header_at.err"), &format!("header({}) failed: {e:?}", s.offset), &input),
            }
            // cooked entries up to the first error
            let want = s.expected();
            let mut got = vec![];
            let mut ents = h.entries();
            for _ in 0..s.tuples.len() + 2 {
                match ents.next() {
                    Ok(Some(a)) => got.push(ArangeOut::Entry { begin: a.address(), length: a.length(), end: a.range().end }),
                    Ok(None) => break,
                    Err(gimli::Error::AddressOverflow) => {
                        got.push(ArangeOut::Overflow);
                        break;
                    }
                    Err(e) => {
                        cfail(ctx, &format!("{tag}.entries.err"), &format!("entry iteration failed: {e:?}"), &input);
                        break;
                    }
                }
            }
            for w in &want {
                match w {
                    ArangeOut::Entry { begin, .. } => {
                        ctx.obs("aranges.entry");
                        let _ = begin;
                    }
                    ArangeOut::Overflow => ctx.obs("aranges.overflow"),
                }
            }
            if s.tuples.iter().take(s.tuples.len().saturating_sub(1)).any(|t| *t == (0, 0)) {
                ctx.obs("aranges.zero_tuple");
            }
            if s.tuples.iter().any(|t| t.0 >= addr_mask(s.addr_size) - 1) {
                ctx.obs("aranges.tombstone");
            }
            ceq(ctx, &format!("{tag}.entries"), &want, &got, &input);
            // range begin must equal the address
            // raw entries: every tuple except (0,0), no filtering
            let want_raw = s.expected_raw();
            let mut got_raw = vec![];
            let mut ents = h.entries();
            for _ in 0..s.tuples.len() + 2 {
                match ents.next_raw() {
                    Ok(Some(a)) => got_raw.push((a.address(), a.length())),
                    Ok(None) => break,
                    Err(e) => {
                        cfail(ctx, &format!("{tag}.next_raw.err"), &format!("raw iteration failed: {e:?}"), &input);
                        break;
                    }
                }
            }
            ceq(ctx, &format!("{tag}.next_raw"), &want_raw, &got_raw, &input);
        }
        ceq(ctx, &format!("{tag}.headers.count"), &sets.len(), &k, &input);
    });
}

pub fn aranges_stream(ctx: &mut Ctx) {
    // header grid: address size x format x version x byte order, with a fixed tuple list
    let mut i = 0u64;
    for addr in [1u8, 2, 4, 8] {
        for fmt64 in [false, true] {
            for version in [2u16, 3] {
                for le in [true, false] {
                    for fill in [0u8, 0xa5] {
                        i += 1;
                        if !ctx.want("aranges.grid", i) {
                            continue;
                        }
                        let mask = addr_mask(addr);
                        let mut s = ArangeSetM {
                            fmt64,
                            version,
                            offset: 0,
                            length: 0,
                            info_offset: 0x1234_5678 & if fmt64 { u64::MAX } else { 0xffff_ffff },
                            addr_size: addr,
                            tuples: vec![(0x10 & mask, 0x5), (0, 0), (0x41 & mask, 0x3e & mask), (mask, 1), (mask - 1, 1), (0x7f & mask, 0), (0, 0)],
                        };
                        let mut a = Asm::new(le);
                        // a first set in front so that the judged set does not start at 0
                        let mut s0 = s.clone();
                        s0.tuples = vec![(1, 1), (0, 0)];
                        asm_arange_set(&mut a, &mut s0, fill);
                        asm_arange_set(&mut a, &mut s, fill);
                        check_aranges(ctx, "aranges", &[s0, s], le, &a.buf);
                        ctx.counted_distinct += 1;
                    }
                }
            }
        }
    }
    let n = ctx.size(15_000, 120_000, 6);
    for i in 0..n {
        if !ctx.want("aranges.rand", i) {
            continue;
        }
        let mut r = ctx.rng("aranges.rand", i);
        let le = r.bool();
        let n_sets = 1 + r.usize(3);
        let mut a = Asm::new(le);
        let mut sets = vec![];
        let fill = *r.pick(&[0u8, 0, 0xff, 0xa5, 1]);
        for _ in 0..n_sets {
            let f64_ = r.chance(1, 3);
            let asz = *r.pick(&[1u8, 2, 4, 8]);
            let mut s = gen_arange_set(&mut r, f64_, asz);
            // end exactly one past the address space: not judged (see assumptions)
            if s.has_edge_end() {
                ctx.obs("secondary.aranges.edge_end_skipped");
                let mask = addr_mask(s.addr_size);
                for t in s.tuples.iter_mut() {
                    if t.0 as u128 + t.1 as u128 == mask as u128 + 1 && *t != (0, 0) {
                        t.1 = t.1.wrapping_sub(1);
                    }
                }
            }
            asm_arange_set(&mut a, &mut s, fill);
            sets.push(s);
        }
        check_aranges(ctx, "aranges", &sets, le, &a.buf);
        if sets.iter().any(|s| !s.expected_raw().is_empty()) {
            ctx.nontrivial_bytes("aranges", &a.buf);
        }
        if i == 3 {
            let b = a.buf.clone();
            ctx.sample("aranges", || json!({"bytes": hex(&b), "expected": format!("{:?}", sets.iter().map(|s| s.expected()).collect::<Vec<_>>())}));
        }
    }
}

// ================================================================== pubnames / pubtypes

pub fn pub_stream(ctx: &mut Ctx) {
    let n = ctx.size(12_000, 80_000, 6);
    for i in 0..n {
        if !ctx.want("pub", i) {
            continue;
        }
        let mut r = ctx.rng("pub", i);
        let le = r.bool();
        let types = i % 2 == 1;
        let n_sets = r.usize(4);
        let mut a = Asm::new(le);
        let mut sets = vec![];
        for k in 0..n_sets {
            let f64_ = r.chance(1, 3);
            let s = gen_pub_set(&mut r, f64_);
            // a set without terminator is only generated when its entries fill the set exactly
            let term = !r.chance(1, 6);
            let junk_len = if r.chance(1, 5) { r.usize(6) } else { 0 };
            let junk = r.bytes(junk_len);
            asm_pub_set(&mut a, &s, term, &junk);
            let _ = k;
            sets.push(s);
        }
        let bytes = a.buf.clone();
        let want = pub_expected(&sets);
        let input = || json!({"le": le, "section": if types { ".debug_pubtypes" } else { ".debug_pubnames" }, "bytes": hex(&bytes), "expected": want.iter().map(|e| format!("{:#x}/{:#x}/{}", e.0, e.1, String::from_utf8_lossy(&e.2))).collect::<Vec<_>>()});
        ctx.eval();
        guarded(ctx, "pub", &input, |ctx| {
            let mut got = vec![];
            let mut err = None;
            if types {
                let p = gimli::DebugPubTypes::new(&bytes, endian(le));
                let mut it = p.items();
                for _ in 0..want.len() + 4 {
                    match it.next() {
                        Ok(Some(e)) => got.push((e.unit_header_offset().0 as u64, e.die_offset().0 as u64, e.name().slice().to_vec())),
                        Ok(None) => break,
                        Err(e) => {
                            err = Some(format!("{e:?}"));
                            break;
                        }
                    }
                }
                // the section type reports its own id and bytes
                ceq(ctx, "pubtypes.id", &SectionId::DebugPubTypes, &gimli::DebugPubTypes::<Rd>::id(), &input);
                ceq(ctx, "pubtypes.reader", &bytes, &p.reader().slice().to_vec(), &input);
            } else {
                let p = gimli::DebugPubNames::new(&bytes, endian(le));
                let mut it = p.items();
                for _ in 0..want.len() + 4 {
                    match it.next() {
                        Ok(Some(e)) => got.push((e.unit_header_offset().0 as u64, e.die_offset().0 as u64, e.name().slice().to_vec())),
                        Ok(None) => break,
                        Err(e) => {
                            err = Some(format!("{e:?}"));
                            break;
                        }
                    }
                }
                ceq(ctx, "pubnames.id", &SectionId::DebugPubNames, &gimli::DebugPubNames::<Rd>::id(), &input);
                ceq(ctx, "pubnames.reader", &bytes, &p.reader().slice().to_vec(), &input);
            }
            let tag = if types { "pubtypes" } else { "pubnames" };
            if let Some(e) = err {
                cfail(ctx, &format!("{tag}.items.err"), &format!("item iteration failed: {e}"), &input);
                return;
            }
            ctx.obs_n(if types { "pub.types.entry" } else { "pub.names.entry" }, want.len() as u64);
            if sets.iter().any(|s| s.entries.is_empty()) {
                ctx.obs("pub.set.empty");
            }
            if sets.iter().any(|s| s.fmt64) {
                ctx.obs("pub.fmt64");
            }
            ceq(ctx, &format!("{tag}.items"), &want, &got, &input);
        });
        if !want.is_empty() {
            ctx.nontrivial_bytes(if types { "pubtypes" } else { "pubnames" }, &bytes);
        }
        if i == 4 || i == 5 {
            ctx.sample("pub", || input());
        }
    }
}

// ================================================================== str_offsets / addr / attr_string

/// A minimal DWARF 5 compile unit whose root DIE carries DW_AT_str_offsets_base and
/// DW_AT_addr_base; returns (.debug_info, .debug_abbrev).
fn tiny_unit(enc: Enc, str_base: u64, addr_base: u64) -> (Vec<u8>, Vec<u8>) {
    let mut ab = Asm::new(enc.le);
    // code 1, DW_TAG_compile_unit, no children; DW_AT_str_offsets_base(0x72) sec_offset, DW_AT_addr_base(0x73) sec_offset
    ab.uleb(1).uleb(0x11).u8(0).uleb(0x72).uleb(0x17).uleb(0x73).uleb(0x17).u8(0).u8(0).u8(0);
    let mut a = Asm::new(enc.le);
    let lm = a.begin_length(enc.fmt64);
    a.u16(5).u8(0x01).u8(enc.addr).word(enc.fmt64, 0);
    a.uleb(1).word(enc.fmt64, str_base).word(enc.fmt64, addr_base);
    a.end_length(lm);
    (a.buf, ab.buf)
}

pub fn tables_stream(ctx: &mut Ctx) {
    let n = ctx.size(10_000, 80_000, 6);
    for i in 0..n {
        if !ctx.want("tables", i) {
            continue;
        }
        let mut r = ctx.rng("tables", i);
        let le = r.bool();
        let (so, so_tables) = gen_str_offsets(&mut r, le);
        let (ad, ad_tables) = gen_addr(&mut r, le);
        let so_b = so.buf.clone();
        let ad_b = ad.buf.clone();
        let input = || json!({"le": le, "debug_str_offsets": hex(&so_b), "debug_addr": hex(&ad_b),
            "str_tables": so_tables.iter().map(|t| json!({"base": t.base, "fmt64": t.fmt64, "n": t.entries.len()})).collect::<Vec<_>>(),
            "addr_tables": ad_tables.iter().map(|t| json!({"base": t.base, "size": t.entry_size, "n": t.entries.len()})).collect::<Vec<_>>()});
        ctx.eval();
        guarded(ctx, "tables", &input, |ctx| {
            let dso = gimli::DebugStrOffsets::from(EndianSlice::new(&so_b[..], endian(le)));
            for t in &so_tables {
                let fmt = if t.fmt64 { gimli::Format::Dwarf64 } else { gimli::Format::Dwarf32 };
                for (k, e) in t.entries.iter().enumerate() {
                    ctx.obs("stroff.get");
                    let got = dso.get_str_offset(fmt, gimli::DebugStrOffsetsBase(t.base as usize), gimli::DebugStrOffsetsIndex(k)).ok().map(|o| o.0 as u64);
                    if got != Some(*e) {
                        ceq(ctx, "get_str_offset", &Some(*e), &got, &|| json!({"base": t.base, "index": k, "tables": input()}));
                    }
                }
                // first index whose entry would lie (partly) outside the section must fail
                let word = t.entry_size as usize;
                let avail = so_b.len().saturating_sub(t.base as usize);
                let first_bad = avail / word;
                for idx in [first_bad, first_bad + 1, usize::MAX / word, usize::MAX] {
                    ctx.obs("stroff.oob");
                    let got = dso.get_str_offset(fmt, gimli::DebugStrOffsetsBase(t.base as usize), gimli::DebugStrOffsetsIndex(idx));
                    if got.is_ok() {
                        cfail(ctx, "get_str_offset.out_of_bounds", &format!("index {idx} at base {} of a {}-byte section returned {got:?}", t.base, so_b.len()), &input);
                    }
                }
            }
            let da = gimli::DebugAddr::from(EndianSlice::new(&ad_b[..], endian(le)));
            for t in &ad_tables {
                for (k, e) in t.entries.iter().enumerate() {
                    ctx.obs("addr.get");
                    let got = da.get_address(t.entry_size, gimli::DebugAddrBase(t.base as usize), gimli::DebugAddrIndex(k)).ok();
                    if got != Some(*e) {
                        ceq(ctx, "get_address", &Some(*e), &got, &|| json!({"base": t.base, "index": k, "tables": input()}));
                    }
                }
                let sz = t.entry_size as usize;
                let avail = ad_b.len().saturating_sub(t.base as usize);
                let first_bad = avail / sz;
                for idx in [first_bad, first_bad + 1, usize::MAX / sz, usize::MAX] {
                    ctx.obs("addr.oob");
                    let got = da.get_address(t.entry_size, gimli::DebugAddrBase(t.base as usize), gimli::DebugAddrIndex(idx));
                    if got.is_ok() {
                        cfail(ctx, "get_address.out_of_bounds", &format!("index {idx} at base {} of a {}-byte section returned {got:?}", t.base, ad_b.len()), &input);
                    }
                }
            }
        });
        // ---- string / address form resolution through Dwarf and a real unit
        ctx.eval();
        let ts = r.pick(&so_tables).clone();
        let ta = r.pick(&ad_tables).clone();
        let enc = Enc::new(le, ts.fmt64, 5, ta.entry_size);
        // five string sections with disjoint contents
        let mk_strs = |tagc: &str, n: usize| -> (Vec<u8>, Vec<(u64, Vec<u8>)>) {
            let mut b = vec![];
            let mut v = vec![];
            b.extend_from_slice(tagc.as_bytes());
            b.push(0);
            for k in 0..n {
                let s = format!("{tagc}-{k}");
                v.push((b.len() as u64, s.clone().into_bytes()));
                b.extend_from_slice(s.as_bytes());
                b.push(0);
            }
            (b, v)
        };
        let (str_b, str_v) = mk_strs("str", 4);
        let (lstr_b, lstr_v) = mk_strs("linestr", 4);
        let (sup_b, sup_v) = mk_strs("supstr", 4);
        // a str_offsets table of our own that points into .debug_str: appended to the section
        let mut so2 = so_b.clone();
        let mut a2 = Asm::new(le);
        let lm = a2.begin_length(enc.fmt64);
        a2.u16(5).u16(0);
        let my_base = (so2.len() + a2.len()) as u64;
        for (o, _) in &str_v {
            a2.word(enc.fmt64, *o);
        }
        a2.end_length(lm);
        so2.extend_from_slice(&a2.buf);
        let (info_b, abbrev_b) = tiny_unit(enc, my_base, ta.base);
        let input2 = || json!({"enc": enc.label(), "debug_info": hex(&info_b), "debug_abbrev": hex(&abbrev_b), "debug_str_offsets": hex(&so2), "debug_addr": hex(&ad_b), "debug_str": hex(&str_b)});
        guarded(ctx, "attr_string", &input2, |ctx| {
            let e = endian(le);
            let empty: &[u8] = &[];
            let mut dwarf = match gimli::Dwarf::load(|id| -> Result<Rd, gimli::Error> {
                Ok(EndianSlice::new(
                    match id {
                        SectionId::DebugInfo => &info_b[..],
                        SectionId::DebugAbbrev => &abbrev_b[..],
                        SectionId::DebugStr => &str_b[..],
                        SectionId::DebugLineStr => &lstr_b[..],
                        SectionId::DebugStrOffsets => &so2[..],
                        SectionId::DebugAddr => &ad_b[..],
                        _ => empty,
                    },
                    e,
                ))
            }) {
                Ok(d) => d,
                Err(_) => return,
            };
            let _ = dwarf.load_sup(|id| -> Result<Rd, gimli::Error> { Ok(EndianSlice::new(if id == SectionId::DebugStr { &sup_b[..] } else { empty }, e)) });
            let mut units = dwarf.units();
            let header = match units.next() {
                Ok(Some(h)) => h,
                other => {
                    cfail(ctx, "attr_string.unit_header", &format!("tiny unit not readable: {:?}", other.map(|_| ())), &input2);
                    return;
                }
            };
            let unit = match dwarf.unit(header) {
                Ok(u) => u,
                Err(e) => {
                    cfail(ctx, "attr_string.unit", &format!("tiny unit not readable: {e:?}"), &input2);
                    return;
                }
            };
            ceq(ctx, "Unit.str_offsets_base", &(my_base as usize), &unit.str_offsets_base.0, &input2);
            ceq(ctx, "Unit.addr_base", &(ta.base as usize), &unit.addr_base.0, &input2);
            use gimli::AttributeValue as AV;
            let s = |x: gimli::Result<Rd>| x.ok().map(|s| s.slice().to_vec());
            for (k, (o, name)) in str_v.iter().enumerate() {
                ctx.obs("attr_string.strx");
                ceq(ctx, "attr_string.strx", &Some(name.clone()), &s(dwarf.attr_string(&unit, AV::DebugStrOffsetsIndex(gimli::DebugStrOffsetsIndex(k)))), &input2);
                ctx.obs("attr_string.strp");
                ceq(ctx, "attr_string.strp", &Some(name.clone()), &s(dwarf.attr_string(&unit, AV::DebugStrRef(gimli::DebugStrOffset(*o as usize)))), &input2);
                ceq(ctx, "attr_line_string.strp", &Some(name.clone()), &s(dwarf.attr_line_string(AV::DebugStrRef(gimli::DebugStrOffset(*o as usize)))), &input2);
                ceq(ctx, "string_offset", &Some(*o as usize), &dwarf.string_offset(&unit, gimli::DebugStrOffsetsIndex(k)).ok().map(|x| x.0), &input2);
                let uref = unit.unit_ref(&dwarf);
                ceq(ctx, "UnitRef.attr_string.strx", &Some(name.clone()), &s(uref.attr_string(AV::DebugStrOffsetsIndex(gimli::DebugStrOffsetsIndex(k)))), &input2);
            }
            for (o, name) in &lstr_v {
                ctx.obs("attr_string.line_strp");
                ceq(ctx, "attr_string.line_strp", &Some(name.clone()), &s(dwarf.attr_string(&unit, AV::DebugLineStrRef(gimli::DebugLineStrOffset(*o as usize)))), &input2);
                ceq(ctx, "attr_line_string.line_strp", &Some(name.clone()), &s(dwarf.attr_line_string(AV::DebugLineStrRef(gimli::DebugLineStrOffset(*o as usize)))), &input2);
            }
            for (o, name) in &sup_v {
                ctx.obs("attr_string.strp_sup");
                ceq(ctx, "attr_string.strp_sup", &Some(name.clone()), &s(dwarf.attr_string(&unit, AV::DebugStrRefSup(gimli::DebugStrOffset(*o as usize)))), &input2);
            }
            let inline: &[u8] = b"inline";
            ceq(ctx, "attr_string.string", &Some(inline.to_vec()), &s(dwarf.attr_string(&unit, AV::String(EndianSlice::new(inline, e)))), &input2);
            ceq(ctx, "attr_string.not_a_string", &true, &dwarf.attr_string(&unit, AV::Udata(1)).is_err(), &input2);
            for (k, a) in ta.entries.iter().enumerate() {
                ctx.obs("attr_address.addrx");
                ceq(ctx, "attr_address.addrx", &Some(Some(*a)), &dwarf.attr_address(&unit, AV::DebugAddrIndex(gimli::DebugAddrIndex(k))).ok(), &input2);
                ceq(ctx, "address", &Some(*a), &dwarf.address(&unit, gimli::DebugAddrIndex(k)).ok(), &input2);
            }
            ceq(ctx, "attr_address.addr", &Some(Some(0x1234)), &dwarf.attr_address(&unit, AV::Addr(0x1234)).ok(), &input2);
            ceq(ctx, "attr_address.other", &Some(None), &dwarf.attr_address(&unit, AV::Udata(7)).ok(), &input2);
        });
        if so_tables.iter().any(|t| !t.entries.is_empty()) || ad_tables.iter().any(|t| !t.entries.is_empty()) {
            let mut both = so_b.clone();
            both.extend_from_slice(&ad_b);
            ctx.nontrivial_bytes("tables", &both);
        }
        if i == 2 {
            ctx.sample("tables", || input());
        }
    }
}

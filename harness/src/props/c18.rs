//! C18 — relocation is transparent on both the reading and the writing side.
//!
//! Writing side: the same model (`gen/wr.rs`, plus a small frame table) is written twice,
//! once with constant addresses through the plain `EndianVec`, once with symbolic addresses
//! through a recording `RelocateWriter`.  (recorded bytes + recorded relocations applied with
//! the model's symbol values) must be byte-identical to the direct write, and the recorded
//! relocation set must be exactly the model's list of relocatable fields (exact positions in
//! `.debug_info`, multiset of (section, target) elsewhere).
//! Reading side: a walker generic over `R: Reader` renders units / entries / attributes /
//! expressions / strings / lists / line rows / frames; `RelocateReader(recorded bytes, map)`
//! must render exactly what a plain reader renders over the pre-applied copy, for the
//! recorded map and for maps with perturbed unique addends; every `relocate_*` call site is
//! logged and every recorded site consumed by the parse must have been visited.

use crate::asm::{uleb_bytes, Enc};
use crate::gen::wr::{self, gen::GenOpts, AddrMode, AddrSpec, CaseSpec, Expect, UnitSpec, ValSpec, XSpec};
use crate::props::c11::{self, endian_of, Secs, SECTION_IDS};
use crate::props::PropInfo;
use crate::rt::{fnv, hex, Ctx, Rng};
use gimli::constants as dw;
use gimli::read::{Reader, UnwindSection};
use gimli::write as w;
use serde_json::json;
use std::cell::RefCell;
use std::collections::{BTreeMap, BTreeSet};

/// Reported finding (see REPORT.md): `.eh_frame` pointers written with a non-absptr format
/// (udata4/sdata4/..., which `RelocateWriter::write_eh_pointer` records as relocations) are
/// read with plain integer primitives (`read/cfi.rs parse_encoded_value`), so a
/// `RelocateReader` never applies those relocations.  While this is `true` the reading-side
/// comparison of `.eh_frame` is skipped for such tables (counted as `known.*`).
const KNOWN_EH_PE_NONABSPTR_NOT_RELOCATED: bool = false;

/// Reported finding (see REPORT.md): the CIE pointer of a `.debug_frame` FDE is written with
/// `write_offset(.., SectionId::DebugFrame, ..)` (a relocation is recorded) but read with
/// `read_u32`/`read_u64` (`read/cfi.rs parse_cfi_entry_prefix`), so a `RelocateReader` never
/// relocates it: every FDE is attached to the CIE at the unrelocated offset.  While this is
/// `true` the `.debug_frame` part of the reading-side comparison is judged only when every
/// such relocation has the value 0, and those sites are exempt from the visited check.
const KNOWN_DEBUG_FRAME_CIE_POINTER_NOT_RELOCATED: bool = false;

pub fn info() -> PropInfo {
    PropInfo {
        id: "C18",
        level: "exploration",
        rule: "Stream `rand`: seeded C11 models (1-4 units, every attribute kind, expressions, range/location lists incl. shared ones, line programs, string pools; see C11) generated with symbolic addresses (8 symbols; Address::Symbol in attributes, DW_OP_addr, list bases/starts, line sequence starts) plus a frame table (1-2 CIEs: .debug_frame versions 1/3/4 and .eh_frame version 1 with absptr / pcrel|sdata4 / udata4 FDE encodings, optional personality and LSDA; 1-3 FDEs with symbolic or constant addresses and a few instructions) x versions 2-5 x formats x address sizes x byte orders x Dwarf::write / DwarfUnit::write. Stream `cat`: the C11 catalogue (64 encodings x every attribute variant x 4 payloads). Each case is written directly (constants, EndianVec) and through a recording RelocateWriter (symbols); the recorded relocations are applied with the model's symbol values (section bases 0) and the bytes compared per section; the recorded relocation set is compared with the model's relocatable fields; then the recorded bytes are parsed through RelocateReader with (a) the recorded map, (b) a map with unique perturbations of every symbol relocation, (c) a map with unique perturbations of every symbol relocation and every .debug_str/.debug_line_str/.debug_info/.debug_macinfo/.debug_macro offset (offsets that select abbreviations, line programs, lists and CIEs are kept, because shifting them changes which bytes are parsed as relocatable fields), and compared with a plain parse of the pre-applied bytes by a walker generic over the reader type. A case is non-trivial when at least one relocation is recorded besides the unit header's abbreviation offset; distinct cases are counted by a digest of the case description. Hand-assembled reading side (props/c18_asm.rs; encodings gimli::write never emits): stream `asm.cat` = for each of the 64 encodings one .debug_abbrev/.debug_info/.debug_types image built with gen::info (3-4 units: compile/type(.debug_types before v5)/skeleton/split-type headers) carrying every catalogue pair (attribute name, final form) - DWARF 2/3: the 12 loclistptr/lineptr/macptr/rangelistptr names x {data4, data8}; DWARF 4/5: 22 section-offset names (stmt_list, ranges, location, macro_info, macros, str_offsets_base, addr_base, rnglists_base, loclists_base, frame_base, data_member_location, GNU_macros, GNU_ranges_base, GNU_addr_base, GNU_locviews, ...) x sec_offset plus data4/data8 under 4 of them; all versions: strp, addr, ref_addr, ref1/2/4/8/udata, ref_sig8, data1/2/4/8, udata, sdata, string, flag, block1/block/exprloc ending in DW_OP_addr; v4+: line_strp, strp_sup, GNU_strp_alt, GNU_ref_alt, ref_sup4/8, strx/strx1-4, addrx/addrx1-4, GNU_str_index, GNU_addr_index, rnglistx, loclistx, data16 - each declared directly, through DW_FORM_indirect and through DW_FORM_indirect twice; stream `asm.rand` = seeded random subsets/orders/indirect depths 0-3/values/unit kinds. A model written from the DWARF class tables classifies every field as cross-section offset (width), address, certainly-not-relocatable, or neutral; every offset/address field and every unit header's debug_abbrev_offset gets a unique non-zero addend (the abbreviation table sits behind 96 filler bytes and the raw header field is lowered by its addend so the relocated value selects the table); RelocateReader(raw bytes, {site -> addend}) and a plain reader over the copy with the addends added into the bytes (wrapping to the field width) are walked by one generic walker (unit header fields, entries_raw, raw_value(), value(), expression operations) and must render identically; every site must have been passed to relocate_address resp. relocate_offset exactly at its offset; a hook call inside a certainly-not-relocatable field is a violation; calls elsewhere are listed (asm.passthrough). Stream `asm.tables` = seeded DWARF 5 images (2 byte orders x 2 formats x 4 address sizes) assembled with crate::asm: root DIE with str_offsets_base/addr_base/rnglists_base/loclists_base, children with strx*/addrx*/rnglistx/loclistx (or sec_offset list references), .debug_str_offsets/.debug_addr/.debug_rnglists/.debug_loclists tables behind filler (bases and string offsets lowered by their addends), lists with base_addressx/startx_endx/startx_length/offset_pair/base_address/start_end/start_length entries and DW_OP_addr location descriptions, .debug_aranges sets and .debug_pubnames/.debug_pubtypes sets; sites = the four bases, list sec_offsets, every string-offset entry, every .debug_addr entry, inline list addresses, DW_OP_addr operands, arange addresses and the aranges/pubnames/pubtypes debug_info offsets; walked through Dwarf::unit/attr_string/attr_address/attr_ranges/attr_locations, DebugAranges::headers/entries and DebugPubNames/DebugPubTypes::items with the same equality and visited-site requirements. Every hand-assembled image is one evaluation, non-trivial when it has a site besides the header fields, distinct by digest of (description, raw bytes).",
        assumptions: &[
            "relocations are applied RELA-style: field := (symbol or section value + addend [- field offset for pcrel]) truncated to the field size; section base values are 0 for the byte comparison with the direct write",
            "calls to relocate_address/relocate_offset at offsets without a relocation pass the value through and are only counted (passthrough.*)",
            "a recorded relocation site must be visited by the relocating parse only if the parse consumes it: list sections are judged only when every list of every unit is referenced by an attribute",
            ".eh_frame symbolic pointers in a non-absptr format are recorded by the writer but not relocated by the reader (reported as a finding); the reading-side comparison skips .eh_frame for such tables while KNOWN_EH_PE_NONABSPTR_NOT_RELOCATED is set",
            "raw byte views (Reader::to_slice of a block / expression / location description) cannot be relocated by construction; the walker renders expressions operation by operation (where DW_OP_addr goes through read_address) and prints raw bytes only for pure data blocks and strings",
            ".debug_frame CIE pointers are recorded as relocations by the writer but read with read_u32/read_u64 (reported as a finding); while KNOWN_DEBUG_FRAME_CIE_POINTER_NOT_RELOCATED is set the .debug_frame part of the reading comparison is judged only when all those relocations have the value 0",
            "perturbed section offsets make the parse fail or read other data; only equality of the two parses (including errors) is judged",
            "hand-assembled streams: which fields are relocatable is decided by the DWARF class tables: DW_FORM_data4 (32-bit) / data8 (64-bit) is a section offset only in version 2-3 units under a loclistptr/lineptr/macptr/rangelistptr attribute name; the same forms under such names in version >= 4 units, the other width, DW_FORM_GNU_ref_alt, the entries of the .debug_rnglists/.debug_loclists offset tables (relative to the table), arange lengths and pubnames DIE offsets carry no addend and hook calls there are only listed (asm.passthrough*, asm.neutral)",
            "hand-assembled streams: DW_FORM_strp_sup / DW_FORM_GNU_strp_alt count as cross-section offsets (into the supplementary file's .debug_str), DW_FORM_ref_sup4/8 do not (fixed width independent of the offset size); DW_FORM_ref_addr is address-sized in version 2 and offset-sized from version 3",
            "hand-assembled streams: offsets that select other data (debug_abbrev_offset, the four *_base attributes, string offsets, list sec_offsets) get small addends and a raw value lowered by the addend so that the relocated value stays valid; values that are only reported (stmt_list, macro offsets, strp, ref_addr, addresses ...) get arbitrary unique addends, 8-byte fields also addends with high bits; the visited-site requirement is judged only when the pre-applied parse reports no error",
        ],
        exhaustive_subspaces: &["64 encodings x 40 attribute value variants x 4 payload variants (stream `cat`)"],
        must_observe: &[
            "bytes.equal", "relocs.debug_info.equal", "relocs.other.equal", "read.recorded.equal", "read.perturbed_symbols.equal", "read.perturbed_all.equal",
            "sites.visited", "site.address", "site.offset", "target.symbol", "target..debug_abbrev", "target..debug_str", "target..debug_line_str", "target..debug_line",
            "target..debug_ranges", "target..debug_rnglists", "target..debug_loc", "target..debug_loclists", "target..debug_info", "target..debug_macinfo", "target..debug_macro", "target..debug_frame",
            "in..debug_info", "in..debug_line", "in..debug_ranges", "in..debug_rnglists", "in..debug_loc", "in..debug_loclists", "in..debug_frame", "in..eh_frame",
            "ver.2", "ver.3", "ver.4", "ver.5", "addr.1", "addr.2", "addr.4", "addr.8", "fmt.32", "fmt.64", "endian.le", "endian.be",
            "read.frames.debug_frame.equal", "read.frames.eh_frame.equal", "frames.debug_frame", "frames.eh_frame.absptr", "frames.eh_frame.pcrel", "eh_pe.reloc", "lists.judged",
            "asm.read.equal", "asm.sites.visited", "asm.site.header.debug_abbrev_offset", "asm.site.addr", "asm.site.expr_addr", "asm.site.strp", "asm.site.line_strp", "asm.site.strp_sup", "asm.site.ref_addr.v2_address_sized", "asm.site.ref_addr.offset_sized", "asm.site.sec_offset", "asm.site.legacy.data4", "asm.site.legacy.data8", "asm.site.via_indirect.1", "asm.site.via_indirect.2", "asm.site.legacy.via_indirect", "asm.plain.ref4", "asm.plain.ref_sig8", "asm.plain.index_form", "asm.plain.constant", "asm.neutral", "asm.unit.debug_types", "asm.unit.v5_type", "asm.unit.v5_skeleton",
            "asm.tables.str_offsets.equal", "asm.tables.addr.equal", "asm.tables.rnglists.equal", "asm.tables.loclists.equal", "asm.tables.aranges.equal", "asm.tables.pubnames.equal", "asm.tables.sites.visited", "asm.tables.site.str_offsets.entry", "asm.tables.site.addr.entry", "asm.tables.site.rnglists.start_end", "asm.tables.site.rnglists.base_address", "asm.tables.site.rnglists.start_length", "asm.tables.site.loclists.start_end", "asm.tables.site.loclists.base_address", "asm.tables.site.loclists.DW_OP_addr", "asm.tables.site.info.str_offsets_base", "asm.tables.site.info.addr_base", "asm.tables.site.info.rnglists_base", "asm.tables.site.info.loclists_base", "asm.tables.site.info.ranges.sec_offset", "asm.tables.site.info.location.sec_offset", "asm.tables.site.aranges.debug_info_offset", "asm.tables.site.aranges.address", "asm.tables.site.pubnames.debug_info_offset", "asm.tables.site.pubtypes.debug_info_offset",
        ],
        run,
    }
}

#[path = "c18_asm.rs"]
mod asm_side;

// ================================================================ frame tables

#[derive(Clone, Debug)]
struct FdeSpec {
    cie: usize,
    addr: AddrSpec,
    len: u32,
    lsda: Option<AddrSpec>,
    insns: Vec<(u32, u8, u16, i32)>,
}

#[derive(Clone, Debug)]
struct CieSpec {
    code_align: u8,
    data_align: i8,
    ra: u16,
    personality: Option<AddrSpec>,
    lsda: bool,
    insns: Vec<(u8, u16, i32)>,
}

#[derive(Clone, Debug)]
struct FrameSpec {
    /// version of the .debug_frame CIEs (1, 3, 4)
    df_version: u16,
    fmt64: bool,
    addr: u8,
    /// 0 absptr, 1 pcrel|sdata4, 2 udata4, 3 pcrel|sdata8
    eh_enc: u8,
    cies: Vec<CieSpec>,
    fdes: Vec<FdeSpec>,
}

fn gen_frames(r: &mut Rng, spec: &CaseSpec) -> FrameSpec {
    let enc = spec.units[0].enc;
    let addr = enc.addr;
    let small = |r: &mut Rng| -> AddrSpec {
        if r.chance(2, 3) {
            AddrSpec { sym: Some(r.usize(8)), val: r.below(if addr == 1 { 8 } else { 0x100 }) }
        } else {
            AddrSpec::abs(1 + r.below(if addr == 1 { 0x40 } else { 0x4000 }))
        }
    };
    let ncie = 1 + r.usize(2);
    let mut cies = vec![];
    for _ in 0..ncie {
        let n = r.usize(3);
        cies.push(CieSpec {
            code_align: *r.pick(&[1u8, 2, 4]),
            data_align: *r.pick(&[-8i8, -4, 1, 8]),
            ra: *r.pick(&[16u16, 30, 0x7f]),
            personality: if r.chance(1, 3) { Some(small(r)) } else { None },
            lsda: r.chance(1, 3),
            insns: (0..n).map(|_| (r.below(5) as u8, r.below(40) as u16, (r.below(64) as i32) * 8)).collect(),
        });
    }
    let nfde = 1 + r.usize(3);
    let mut fdes = vec![];
    for _ in 0..nfde {
        let cie = r.usize(ncie);
        let n = r.usize(4);
        let mut off = 0u32;
        let mut insns = vec![];
        for _ in 0..n {
            off += (r.below(5) as u32) * cies[cie].code_align as u32;
            insns.push((off, r.below(5) as u8, r.below(40) as u16, (r.below(64) as i32) * 8));
        }
        fdes.push(FdeSpec { cie, addr: small(r), len: 1 + r.below(if addr == 1 { 0x20 } else { 0x1000 }) as u32, lsda: if cies[cie].lsda { Some(small(r)) } else { None }, insns });
    }
    // sdata4/udata4 pointers need the address to fit; addresses here are small
    let eh_enc = if addr < 4 { 0 } else { r.below(4) as u8 };
    FrameSpec { df_version: *r.pick(&[1u16, 3, 4]), fmt64: enc.fmt64, addr, eh_enc: if addr == 4 && eh_enc == 3 { 1 } else { eh_enc }, cies, fdes }
}

fn mk_addr(a: &AddrSpec, symvals: &[u64], mode: AddrMode) -> w::Address {
    match (mode, a.sym) {
        (AddrMode::Symbolic, Some(s)) => w::Address::Symbol { symbol: s, addend: a.val as i64 },
        _ => w::Address::Constant(a.constant(symvals)),
    }
}

fn mk_insn(k: u8, reg: u16, off: i32, data_align: i8) -> w::CallFrameInstruction {
    use w::CallFrameInstruction as I;
    let reg = gimli::Register(reg);
    // offsets must be multiples of the data alignment factor
    let off = off - off % (data_align as i32 * 8).abs().max(1);
    match k {
        0 => I::Cfa(reg, off.abs()),
        1 => I::Offset(reg, off * data_align.signum() as i32),
        2 => I::CfaOffset(off.abs()),
        3 => I::SameValue(reg),
        _ => I::CfaRegister(reg),
    }
}

fn build_frames(fs: &FrameSpec, eh: bool, symvals: &[u64], mode: AddrMode) -> w::FrameTable {
    let mut t = w::FrameTable::default();
    let encoding = gimli::Encoding { format: if fs.fmt64 && !eh { gimli::Format::Dwarf64 } else { gimli::Format::Dwarf32 }, version: if eh { 1 } else { fs.df_version }, address_size: fs.addr };
    let mut ids = vec![];
    for c in &fs.cies {
        let mut cie = w::CommonInformationEntry::new(encoding, c.code_align, c.data_align, gimli::Register(c.ra));
        if eh {
            cie.fde_address_encoding = match fs.eh_enc {
                1 => gimli::DwEhPe(dw::DW_EH_PE_pcrel.0 | dw::DW_EH_PE_sdata4.0),
                2 => dw::DW_EH_PE_udata4,
                3 => gimli::DwEhPe(dw::DW_EH_PE_pcrel.0 | dw::DW_EH_PE_sdata8.0),
                _ => dw::DW_EH_PE_absptr,
            };
            if let Some(p) = &c.personality {
                cie.personality = Some((dw::DW_EH_PE_absptr, mk_addr(p, symvals, mode)));
            }
            if c.lsda {
                cie.lsda_encoding = Some(dw::DW_EH_PE_absptr);
            }
        }
        for (k, reg, off) in &c.insns {
            cie.add_instruction(mk_insn(*k, *reg, *off, c.data_align));
        }
        ids.push(t.add_cie(cie));
    }
    for f in &fs.fdes {
        let mut fde = w::FrameDescriptionEntry::new(mk_addr(&f.addr, symvals, mode), f.len);
        if eh {
            if let Some(l) = &f.lsda {
                fde.lsda = Some(mk_addr(l, symvals, mode));
            }
        }
        for (o, k, reg, off) in &f.insns {
            fde.add_instruction(*o, mk_insn(*k, *reg, *off, fs.cies[f.cie].data_align));
        }
        t.add_fde(ids[f.cie], fde);
    }
    t
}

// ================================================================ recording writer

#[derive(Clone)]
struct RecW {
    w: w::EndianVec<gimli::RunTimeEndian>,
    relocs: Vec<w::Relocation>,
}

impl w::RelocateWriter for RecW {
    type Writer = w::EndianVec<gimli::RunTimeEndian>;
    fn writer(&self) -> &Self::Writer {
        &self.w
    }
    fn writer_mut(&mut self) -> &mut Self::Writer {
        &mut self.w
    }
    fn relocate(&mut self, relocation: w::Relocation) {
        self.relocs.push(relocation);
    }
}

#[derive(Clone, Debug, PartialEq, Eq, PartialOrd, Ord)]
enum Tgt {
    Sym(usize),
    Sec(&'static str),
}

#[derive(Clone, Debug)]
struct Rel {
    off: usize,
    size: u8,
    tgt: Tgt,
    addend: i64,
    pcrel: bool,
    eh: bool,
    eh_nonabs: bool,
}

fn write_direct(spec: &CaseSpec, fs: &FrameSpec) -> (Result<(), String>, Secs) {
    let mut b = wr::build(spec, AddrMode::Constant);
    let mut sections = w::Sections::new(w::EndianVec::new(endian_of(spec.le)));
    let mut res = wr::write_built(&mut b, &mut sections).map_err(|e| format!("{e:?}"));
    if res.is_ok() {
        res = build_frames(fs, false, &spec.symvals, AddrMode::Constant).write_debug_frame(&mut sections.debug_frame).map_err(|e| format!("debug_frame: {e:?}"));
    }
    if res.is_ok() {
        res = build_frames(fs, true, &spec.symvals, AddrMode::Constant).write_eh_frame(&mut sections.eh_frame).map_err(|e| format!("eh_frame: {e:?}"));
    }
    let mut secs = Secs::default();
    for id in SECTION_IDS {
        if let Some(s) = sections.get(*id) {
            secs.m.insert(id.name(), s.slice().to_vec());
        }
    }
    (res, secs)
}

fn write_recorded(spec: &CaseSpec, fs: &FrameSpec) -> (Result<(), String>, Secs, BTreeMap<&'static str, Vec<Rel>>) {
    let mut b = wr::build(spec, AddrMode::Symbolic);
    let mut sections = w::Sections::new(RecW { w: w::EndianVec::new(endian_of(spec.le)), relocs: vec![] });
    let mut res = wr::write_built(&mut b, &mut sections).map_err(|e| format!("{e:?}"));
    if res.is_ok() {
        res = build_frames(fs, false, &spec.symvals, AddrMode::Symbolic).write_debug_frame(&mut sections.debug_frame).map_err(|e| format!("debug_frame: {e:?}"));
    }
    if res.is_ok() {
        res = build_frames(fs, true, &spec.symvals, AddrMode::Symbolic).write_eh_frame(&mut sections.eh_frame).map_err(|e| format!("eh_frame: {e:?}"));
    }
    let mut secs = Secs::default();
    let mut rels = BTreeMap::new();
    for id in SECTION_IDS {
        if let Some(s) = sections.get(*id) {
            secs.m.insert(id.name(), s.w.slice().to_vec());
            let v: Vec<Rel> = s
                .relocs
                .iter()
                .map(|r| Rel {
                    off: r.offset,
                    size: r.size,
                    tgt: match r.target {
                        w::RelocationTarget::Symbol(s) => Tgt::Sym(s),
                        w::RelocationTarget::Section(id) => Tgt::Sec(id.name()),
                    },
                    addend: r.addend,
                    pcrel: r.eh_pe.map_or(false, |e| e.application() == dw::DW_EH_PE_pcrel),
                    eh: r.eh_pe.is_some(),
                    eh_nonabs: r.eh_pe.map_or(false, |e| e.format() != dw::DW_EH_PE_absptr),
                })
                .collect();
            rels.insert(id.name(), v);
        }
    }
    (res, secs, rels)
}

fn mask(size: u8) -> u64 {
    if size >= 8 {
        u64::MAX
    } else {
        (1u64 << (8 * size as u32)) - 1
    }
}

/// Value a relocation contributes to its field (symbol/section value + addend [- P]).
fn rel_value(r: &Rel, symvals: &[u64], extra: u64) -> u64 {
    let base = match &r.tgt {
        Tgt::Sym(s) => symvals.get(*s).copied().unwrap_or(0),
        Tgt::Sec(_) => 0,
    };
    let mut v = base.wrapping_add(r.addend as u64).wrapping_add(extra);
    if r.pcrel {
        v = v.wrapping_sub(r.off as u64);
    }
    v & mask(r.size)
}

fn apply(bytes: &mut [u8], le: bool, off: usize, size: u8, v: u64) -> bool {
    let n = size as usize;
    if off.checked_add(n).map_or(true, |e| e > bytes.len()) || !matches!(size, 1 | 2 | 4 | 8) {
        return false;
    }
    let old = crate::asm::get_uint(&bytes[off..], le, n);
    let new = old.wrapping_add(v) & mask(size);
    let b = new.to_le_bytes();
    for i in 0..n {
        bytes[off + i] = if le { b[i] } else { b[n - 1 - i] };
    }
    true
}

// ================================================================ relocation map for the reader

#[derive(Debug, Default)]
struct RelocMap {
    map: BTreeMap<usize, (u8, u64)>,
    /// (offset, is_address)
    log: RefCell<Vec<(usize, bool)>>,
}

impl<'a> gimli::read::Relocate<usize> for &'a RelocMap {
    fn relocate_address(&self, offset: usize, value: u64) -> gimli::Result<u64> {
        self.log.borrow_mut().push((offset, true));
        Ok(match self.map.get(&offset) {
            Some((size, v)) => value.wrapping_add(*v) & mask(*size),
            None => value,
        })
    }
    fn relocate_offset(&self, offset: usize, value: usize) -> gimli::Result<usize> {
        self.log.borrow_mut().push((offset, false));
        Ok(match self.map.get(&offset) {
            Some((size, v)) => ((value as u64).wrapping_add(*v) & mask(*size)) as usize,
            None => value,
        })
    }
}

// ================================================================ generic walker

const ULIMIT: usize = 3000;

fn bytes_of<R: Reader>(r: &R) -> String {
    match r.to_slice() {
        Ok(b) => hex(&b),
        Err(e) => format!("E{e:?}"),
    }
}

fn render_val<R: Reader<Offset = usize>>(v: &gimli::AttributeValue<R>) -> String {
    use gimli::AttributeValue as A;
    match v {
        // raw byte views cannot be relocated; expressions are rendered operation by operation
        A::Block(r) => format!("Block(len {})", r.len()),
        A::Exprloc(e) => format!("Exprloc(len {})", e.0.len()),
        A::String(r) => format!("String({})", bytes_of(r)),
        other => format!("{other:?}"),
    }
}

fn render_ops<R: Reader<Offset = usize>>(e: &gimli::Expression<R>, enc: gimli::Encoding, out: &mut Vec<String>, depth: usize) {
    let mut it = e.clone().operations(enc);
    let mut n = 0;
    loop {
        n += 1;
        if n > 400 {
            out.push("  op.limit".into());
            return;
        }
        match it.next() {
            Ok(Some(op)) => {
                use gimli::Operation as O;
                let s = match &op {
                    O::ImplicitValue { data } => format!("ImplicitValue({})", bytes_of(data)),
                    O::TypedLiteral { base_type, value } => format!("TypedLiteral({:?},{})", base_type, bytes_of(value)),
                    O::EntryValue { expression } => {
                        let s = format!("EntryValue(len {})", expression.len());
                        if depth < 3 {
                            out.push(format!("  op {s}"));
                            render_ops(&gimli::Expression(expression.clone()), enc, out, depth + 1);
                            continue;
                        }
                        s
                    }
                    other => format!("{other:?}"),
                };
                out.push(format!("  op {s}"));
            }
            Ok(None) => return,
            Err(e) => {
                out.push(format!("  op.err {e:?}"));
                return;
            }
        }
    }
}

fn walk<R: Reader<Offset = usize>>(d: &gimli::Dwarf<R>, out: &mut Vec<String>) {
    let mut it = d.units();
    let mut nu = 0;
    loop {
        nu += 1;
        if nu > 12 {
            out.push("units.limit".into());
            break;
        }
        let h = match it.next() {
            Ok(Some(h)) => h,
            Ok(None) => break,
            Err(e) => {
                out.push(format!("units.err {e:?}"));
                break;
            }
        };
        out.push(format!("unit off={:?} len={} enc={:?} abbrev={:?} type={:?}", h.offset(), h.unit_length(), h.encoding(), h.debug_abbrev_offset(), h.type_()));
        let unit = match d.unit(h) {
            Ok(u) => u,
            Err(e) => {
                out.push(format!(" unit.err {e:?}"));
                continue;
            }
        };
        out.push(format!(" low_pc={:#x} name={:?} comp_dir={:?}", unit.low_pc, unit.name.as_ref().map(bytes_of), unit.comp_dir.as_ref().map(bytes_of)));
        let enc = unit.encoding();
        if let Some(lp) = unit.line_program.clone() {
            let hdr = lp.header().clone();
            out.push(format!(" line off={:?} enc={:?}", hdr.offset(), hdr.encoding()));
            for (i, f) in hdr.file_names().iter().enumerate().take(50) {
                let p = d.attr_string(&unit, f.path_name()).map(|s| bytes_of(&s)).unwrap_or_else(|e| format!("E{e:?}"));
                out.push(format!("  file {i} {p} dir={}", f.directory_index()));
            }
            let mut dn = 0;
            while let Some(dv) = hdr.directory(dn) {
                let p = d.attr_string(&unit, dv).map(|s| bytes_of(&s)).unwrap_or_else(|e| format!("E{e:?}"));
                out.push(format!("  dir {dn} {p}"));
                dn += 1;
                if dn > 50 {
                    break;
                }
            }
            let mut rows = lp.rows();
            let mut n = 0;
            loop {
                n += 1;
                if n > ULIMIT {
                    out.push("  rows.limit".into());
                    break;
                }
                match rows.next_row() {
                    Ok(Some((_, row))) => out.push(format!("  row {:#x} {:?} f{} c{:?} end={}", row.address(), row.line(), row.file_index(), row.column(), row.end_sequence())),
                    Ok(None) => break,
                    Err(e) => {
                        out.push(format!("  rows.err {e:?}"));
                        break;
                    }
                }
            }
        }
        let mut raw = match unit.entries_raw(None) {
            Ok(r) => r,
            Err(e) => {
                out.push(format!(" entries_raw.err {e:?}"));
                continue;
            }
        };
        let mut n = 0;
        while !raw.is_empty() {
            n += 1;
            if n > ULIMIT {
                out.push(" entries.limit".into());
                break;
            }
            let off = raw.next_offset().0;
            let abbrev = match raw.read_abbreviation() {
                Ok(Some(a)) => a,
                Ok(None) => {
                    out.push(format!(" null @{off:#x}"));
                    continue;
                }
                Err(e) => {
                    out.push(format!(" abbrev.err @{off:#x} {e:?}"));
                    break;
                }
            };
            out.push(format!(" die @{off:#x} tag={:#x} ch={}", abbrev.tag().0, abbrev.has_children()));
            let mut failed = false;
            for spec in abbrev.attributes() {
                let a = match raw.read_attribute(*spec) {
                    Ok(a) => a,
                    Err(e) => {
                        out.push(format!("  attr.err {:#x} {e:?}", spec.name().0));
                        failed = true;
                        break;
                    }
                };
                let v = a.value();
                out.push(format!("  at {:#x} form {:#x} raw {} val {}", a.name().0, a.form().0, render_val(&a.raw_value()), render_val(&v)));
                if let Some(e) = v.exprloc_value() {
                    if matches!(a.name().0, 0x1c | 0x3d | 0x2e10) && !matches!(a.raw_value(), gimli::AttributeValue::Exprloc(_)) {
                        // pure data blocks (DW_AT_const_value, DW_AT_discr_list, vendor block)
                        out.push(format!("   block {}", bytes_of(&e.0)));
                    } else {
                        render_ops(&e, enc, out, 0);
                    }
                }
                match &v {
                    gimli::AttributeValue::String(_) | gimli::AttributeValue::DebugStrRef(_) | gimli::AttributeValue::DebugLineStrRef(_) => {
                        out.push(format!("   str {}", d.attr_string(&unit, v.clone()).map(|s| bytes_of(&s)).unwrap_or_else(|e| format!("E{e:?}"))));
                    }
                    gimli::AttributeValue::RangeListsRef(_) => match d.attr_ranges(&unit, v.clone()) {
                        Ok(Some(mut it)) => {
                            let mut k = 0;
                            loop {
                                k += 1;
                                if k > 300 {
                                    out.push("   ranges.limit".into());
                                    break;
                                }
                                match it.next() {
                                    Ok(Some(r)) => out.push(format!("   range {:#x}..{:#x}", r.begin, r.end)),
                                    Ok(None) => break,
                                    Err(e) => {
                                        out.push(format!("   ranges.err {e:?}"));
                                        break;
                                    }
                                }
                            }
                        }
                        Ok(None) => out.push("   ranges none".into()),
                        Err(e) => out.push(format!("   attr_ranges.err {e:?}")),
                    },
                    gimli::AttributeValue::LocationListsRef(_) => match d.attr_locations(&unit, v.clone()) {
                        Ok(Some(mut it)) => {
                            let mut k = 0;
                            loop {
                                k += 1;
                                if k > 300 {
                                    out.push("   locs.limit".into());
                                    break;
                                }
                                match it.next() {
                                    Ok(Some(l)) => {
                                        out.push(format!("   loc {:#x}..{:#x} len {}", l.range.begin, l.range.end, l.data.0.len()));
                                        render_ops(&l.data, enc, out, 0);
                                    }
                                    Ok(None) => break,
                                    Err(e) => {
                                        out.push(format!("   locs.err {e:?}"));
                                        break;
                                    }
                                }
                            }
                        }
                        Ok(None) => out.push("   locs none".into()),
                        Err(e) => out.push(format!("   attr_locations.err {e:?}")),
                    },
                    _ => {}
                }
            }
            if failed {
                break;
            }
        }
    }
}

fn walk_frames<R: Reader<Offset = usize>, S: UnwindSection<R>>(sec: &S, name: &str, out: &mut Vec<String>)
where
    S::Offset: std::fmt::Debug,
{
    let bases = gimli::BaseAddresses::default().set_eh_frame(0).set_text(0).set_got(0);
    let mut it = sec.entries(&bases);
    let mut n = 0;
    loop {
        n += 1;
        if n > 100 {
            out.push(format!("{name}.limit"));
            break;
        }
        match it.next() {
            Ok(Some(gimli::CieOrFde::Cie(c))) => {
                out.push(format!("{name} cie @{:#x} v{} ca={} da={} ra={:?} pers={:?} lsda_enc={:?} fde_enc={:?} len={}", c.offset(), c.version(), c.code_alignment_factor(), c.data_alignment_factor(), c.return_address_register(), c.personality(), c.lsda_encoding(), c.fde_address_encoding(), c.entry_len()));
                let mut ins = c.instructions(sec, &bases);
                let mut k = 0;
                loop {
                    k += 1;
                    if k > 300 {
                        break;
                    }
                    match ins.next() {
                        Ok(Some(i)) => out.push(format!("  insn {i:?}")),
                        Ok(None) => break,
                        Err(e) => {
                            out.push(format!("  insn.err {e:?}"));
                            break;
                        }
                    }
                }
            }
            Ok(Some(gimli::CieOrFde::Fde(p))) => match p.parse(S::cie_from_offset) {
                Ok(f) => {
                    out.push(format!("{name} fde @{:#x} cie@{:#x} pc={:#x} len={:#x} lsda={:?}", f.offset(), f.cie().offset(), f.initial_address(), f.len(), f.lsda()));
                    let mut ins = f.instructions(sec, &bases);
                    let mut k = 0;
                    loop {
                        k += 1;
                        if k > 300 {
                            break;
                        }
                        match ins.next() {
                            Ok(Some(i)) => out.push(format!("  insn {i:?}")),
                            Ok(None) => break,
                            Err(e) => {
                                out.push(format!("  insn.err {e:?}"));
                                break;
                            }
                        }
                    }
                }
                Err(e) => out.push(format!("{name} fde.err {e:?}")),
            },
            Ok(None) => break,
            Err(e) => {
                out.push(format!("{name} entries.err {e:?}"));
                break;
            }
        }
    }
}

type Slice<'a> = gimli::EndianSlice<'a, gimli::RunTimeEndian>;

type Dump = (Vec<String>, Vec<String>, Vec<String>);

/// `ReaderOffsetId`s inside error values are addresses of the underlying buffers.
fn norm(mut v: Vec<String>) -> Vec<String> {
    for l in v.iter_mut() {
        while let Some(i) = l.find("ReaderOffsetId(") {
            let rest = &l[i..];
            let j = rest.find(')').map_or(rest.len(), |j| j + 1);
            let mut n = l[..i].to_string();
            n.push_str("ROI");
            n.push_str(&l[i + j..]);
            *l = n;
        }
    }
    v
}

fn dump_plain(secs: &Secs, le: bool, addr: u8, with_eh: bool) -> Dump {
    let endian = endian_of(le);
    let mut out = vec![];
    let mut out_df = vec![];
    let mut out_eh = vec![];
    match gimli::Dwarf::load(|id| -> Result<Slice<'_>, gimli::Error> { Ok(gimli::EndianSlice::new(secs.get(id), endian)) }) {
        Ok(d) => walk(&d, &mut out),
        Err(e) => out.push(format!("load.err {e:?}")),
    }
    let mut df = gimli::DebugFrame::new(secs.get(gimli::SectionId::DebugFrame), endian);
    df.set_address_size(addr);
    walk_frames(&df, "debug_frame", &mut out_df);
    if with_eh {
        let mut eh = gimli::EhFrame::new(secs.get(gimli::SectionId::EhFrame), endian);
        eh.set_address_size(addr);
        walk_frames(&eh, "eh_frame", &mut out_eh);
    }
    (norm(out), norm(out_df), norm(out_eh))
}

fn dump_reloc(secs: &Secs, maps: &BTreeMap<&'static str, RelocMap>, empty: &RelocMap, le: bool, addr: u8, with_eh: bool) -> Dump {
    let endian = endian_of(le);
    let mut out = vec![];
    let mut out_df = vec![];
    let mut out_eh = vec![];
    type RR<'a> = gimli::RelocateReader<Slice<'a>, &'a RelocMap>;
    let mk = |id: gimli::SectionId| -> RR<'_> { gimli::RelocateReader::new(gimli::EndianSlice::new(secs.get(id), endian), maps.get(id.name()).unwrap_or(empty)) };
    match gimli::Dwarf::load(|id| -> Result<RR<'_>, gimli::Error> { Ok(mk(id)) }) {
        Ok(d) => walk(&d, &mut out),
        Err(e) => out.push(format!("load.err {e:?}")),
    }
    let mut df = gimli::DebugFrame::from(mk(gimli::SectionId::DebugFrame));
    df.set_address_size(addr);
    walk_frames(&df, "debug_frame", &mut out_df);
    if with_eh {
        let mut eh = gimli::EhFrame::from(mk(gimli::SectionId::EhFrame));
        eh.set_address_size(addr);
        walk_frames(&eh, "eh_frame", &mut out_eh);
    }
    (norm(out), norm(out_df), norm(out_eh))
}

// ================================================================ model: relocatable fields

fn uleb_len(v: u64) -> usize {
    uleb_bytes(v).len()
}

/// Expected relocations in `.debug_info`: (offset, size, target).
fn model_info_sites(spec: &CaseSpec, runits: &[c11::RUnit]) -> Result<BTreeSet<(usize, u8, Tgt)>, String> {
    let mut offs = wr::Offs::default();
    for (u, ru) in runits.iter().enumerate() {
        offs.unit.push(ru.unit_off);
        let mut m = BTreeMap::new();
        for rec in ru.recs.iter().filter(|r| !r.null) {
            if let Some(c11::M::U(id)) = rec.attrs.iter().find(|a| a.name == wr::ID_AT).map(|a| a.raw.clone()) {
                if (id >> 12) == u as u64 + 1 {
                    m.insert((id & 0xfff) as usize, rec.off);
                }
            }
        }
        offs.die.push(m);
    }
    let mut set = BTreeSet::new();
    for (u, (us, ru)) in spec.units.iter().zip(runits.iter()).enumerate() {
        let enc = us.enc;
        let word = enc.word();
        let hdr = ru.unit_off as usize + if enc.fmt64 { 12 } else { 4 } + 2 + if enc.version >= 5 { 2 } else { 0 };
        set.insert((hdr, word, Tgt::Sec(".debug_abbrev")));
        let order = us.model_order();
        let entries: Vec<&c11::Rec> = ru.recs.iter().filter(|r| !r.null).collect();
        if entries.len() != order.len() {
            return Err("forest differs".into());
        }
        for (i, rec) in entries.iter().enumerate() {
            let (k, _) = order[i];
            let mut exp: Vec<(u16, ValSpec)> = us.entries[k].attrs.iter().map(|a| (a.name, a.val.clone())).collect();
            if k == 0 && us.line.is_some() {
                exp.push((dw::DW_AT_stmt_list.0, ValSpec::LineProgramRef));
            }
            for (name, val) in exp {
                let Some(ra) = rec.attrs.iter().find(|a| a.name == name) else { return Err(format!("attribute {name:#x} missing")) };
                let pos = (ru.unit_off + ra.off) as usize;
                match &val {
                    ValSpec::Address(a) => {
                        if let Some(s) = a.sym {
                            set.insert((pos, enc.addr, Tgt::Sym(s)));
                        }
                    }
                    ValSpec::StringRef(_) => {
                        set.insert((pos, word, Tgt::Sec(".debug_str")));
                    }
                    ValSpec::LineStringRef(_) => {
                        set.insert((pos, word, Tgt::Sec(".debug_line_str")));
                    }
                    ValSpec::LineProgramRef => {
                        set.insert((pos, word, Tgt::Sec(".debug_line")));
                    }
                    ValSpec::RangeListRef(_) => {
                        set.insert((pos, word, Tgt::Sec(if enc.version >= 5 { ".debug_rnglists" } else { ".debug_ranges" })));
                    }
                    ValSpec::LocationListRef(_) => {
                        set.insert((pos, word, Tgt::Sec(if enc.version >= 5 { ".debug_loclists" } else { ".debug_loc" })));
                    }
                    ValSpec::DebugMacinfoRef(_) => {
                        set.insert((pos, word, Tgt::Sec(".debug_macinfo")));
                    }
                    ValSpec::DebugMacroRef(_) => {
                        set.insert((pos, word, Tgt::Sec(".debug_macro")));
                    }
                    ValSpec::DebugInfoRef(..) => {
                        set.insert((pos, if enc.version == 2 { enc.addr } else { word }, Tgt::Sec(".debug_info")));
                    }
                    ValSpec::Exprloc(x) => {
                        let mut sites = vec![];
                        let bytes = wr::encode_x(x, enc, u, &offs, &spec.symvals, &mut sites, 0).ok_or("expression not encodable by the model")?;
                        let start = pos + uleb_len(bytes.len() as u64);
                        if let XSpec::Ops(ops) = x {
                            let syms = addr_syms(ops);
                            let mut si = 0;
                            for s in &sites {
                                match s.addr_sym {
                                    Some(true) => {
                                        set.insert((start + s.pos, s.size, Tgt::Sym(syms.get(si).copied().unwrap_or(usize::MAX))));
                                        si += 1;
                                    }
                                    Some(false) => {}
                                    None => {
                                        set.insert((start + s.pos, s.size, Tgt::Sec(".debug_info")));
                                    }
                                }
                            }
                        }
                    }
                    _ => {}
                }
            }
        }
    }
    Ok(set)
}

/// Symbols of the symbolic DW_OP_addr operations in encoding order.
fn addr_syms(ops: &[wr::XOp]) -> Vec<usize> {
    let mut v = vec![];
    for op in ops {
        match op {
            wr::XOp::Addr(a) => {
                if let Some(s) = a.sym {
                    v.push(s);
                }
            }
            wr::XOp::EntryValue(i) => v.extend(addr_syms(i)),
            _ => {}
        }
    }
    v
}

fn count_x(x: &XSpec, into: &mut BTreeMap<Tgt, usize>) {
    fn go(ops: &[wr::XOp], into: &mut BTreeMap<Tgt, usize>) {
        for op in ops {
            match op {
                wr::XOp::Addr(a) => {
                    if let Some(s) = a.sym {
                        *into.entry(Tgt::Sym(s)).or_insert(0) += 1;
                    }
                }
                wr::XOp::CallRef(..) | wr::XOp::VariableValue(..) | wr::XOp::ImplicitPointer(..) => *into.entry(Tgt::Sec(".debug_info")).or_insert(0) += 1,
                wr::XOp::EntryValue(i) => go(i, into),
                _ => {}
            }
        }
    }
    if let XSpec::Ops(ops) = x {
        go(ops, into);
    }
}

/// Expected multiset of relocation targets per section other than `.debug_info`.
fn model_other_sites(spec: &CaseSpec, fs: &FrameSpec) -> BTreeMap<&'static str, BTreeMap<Tgt, usize>> {
    let mut m: BTreeMap<&'static str, BTreeMap<Tgt, usize>> = BTreeMap::new();
    let mut add = |sec: &'static str, t: Tgt, n: usize| {
        if n > 0 {
            *m.entry(sec).or_default().entry(t).or_insert(0) += n;
        }
    };
    let sym = |a: &AddrSpec| a.sym.map(Tgt::Sym);
    for us in &spec.units {
        let enc = us.enc;
        let v5 = enc.version >= 5;
        let pre = wr::pre_allowed(us);
        if let Some(lp) = &us.line {
            for s in &lp.seqs {
                if let Some(t) = sym(&s.start) {
                    add(".debug_line", t, 1);
                }
            }
            if v5 && lp.str_kind != 0 {
                let mut dirs: BTreeSet<&Vec<u8>> = lp.dirs.iter().collect();
                dirs.insert(&lp.comp_dir);
                let files: BTreeSet<(&Vec<u8>, usize)> = lp.files.iter().map(|(n, d)| (n, *d)).collect();
                add(".debug_line", Tgt::Sec(if lp.str_kind == 1 { ".debug_str" } else { ".debug_line_str" }), dirs.len() + files.len());
            }
        }
        // distinct lists as the writer's tables see them
        let mut seen_r: Vec<(Vec<(AddrSpec, u64)>, &AddrSpec, &Vec<(u64, u64)>)> = vec![];
        for l in &us.rlists {
            let key = (if pre { l.pre.clone() } else { vec![] }, &l.base, &l.pairs);
            if seen_r.contains(&key) {
                continue;
            }
            seen_r.push(key);
            let sec = if v5 { ".debug_rnglists" } else { ".debug_ranges" };
            if pre {
                for (i, (a, _)) in l.pre.iter().enumerate() {
                    if let Some(t) = sym(a) {
                        // StartLength in v5 has one address, every other form two
                        add(sec, t, if v5 && i % 2 == 0 { 1 } else { 2 });
                    }
                }
            }
            if let Some(t) = sym(&l.base) {
                add(sec, t, 1);
            }
        }
        let mut seen_l: Vec<(Vec<(AddrSpec, u64, XSpec)>, &AddrSpec, &Vec<(u64, u64, XSpec)>)> = vec![];
        for l in &us.llists {
            let key = (if pre { l.pre.clone() } else { vec![] }, &l.base, &l.pairs);
            if seen_l.contains(&key) {
                continue;
            }
            seen_l.push(key);
            let sec = if v5 { ".debug_loclists" } else { ".debug_loc" };
            let mut xs: BTreeMap<Tgt, usize> = BTreeMap::new();
            if pre {
                for (i, (a, _, x)) in l.pre.iter().enumerate() {
                    if let Some(t) = sym(a) {
                        add(sec, t, if v5 && i % 2 == 0 { 1 } else { 2 });
                    }
                    count_x(x, &mut xs);
                }
            }
            if let Some(t) = sym(&l.base) {
                add(sec, t, 1);
            }
            for (_, _, x) in &l.pairs {
                count_x(x, &mut xs);
            }
            for (t, n) in xs {
                add(sec, t, n);
            }
        }
    }
    // frames: CIEs are emitted when first referenced
    let used: BTreeSet<usize> = fs.fdes.iter().map(|f| f.cie).collect();
    for f in &fs.fdes {
        add(".debug_frame", Tgt::Sec(".debug_frame"), 1);
        if let Some(t) = sym(&f.addr) {
            add(".debug_frame", t.clone(), 1);
            add(".eh_frame", t, 1);
        }
        if let Some(t) = f.lsda.as_ref().and_then(sym) {
            add(".eh_frame", t, 1);
        }
    }
    for c in used {
        if let Some(t) = fs.cies[c].personality.as_ref().and_then(sym) {
            add(".eh_frame", t, 1);
        }
    }
    m
}

// ================================================================ one case

fn run_case(ctx: &mut Ctx, stream: &str, spec: &CaseSpec, fs: &FrameSpec) {
    if wr::classify(spec, false) != Expect::MustOk {
        ctx.obs("skipped.not_encodable");
        return;
    }
    ctx.eval();
    let desc = format!("{}\nframes: {fs:?}", c11::case_input(spec));
    let input = || json!({"spec": desc});
    let input: &dyn Fn() -> serde_json::Value = &input;
    ctx.obs(if spec.le { "endian.le" } else { "endian.be" });
    for us in &spec.units {
        ctx.obs(&format!("ver.{}", us.enc.version));
        ctx.obs(&format!("addr.{}", us.enc.addr));
        ctx.obs(if us.enc.fmt64 { "fmt.64" } else { "fmt.32" });
    }
    ctx.obs("frames.debug_frame");
    ctx.obs(if fs.eh_enc == 0 { "frames.eh_frame.absptr" } else { "frames.eh_frame.pcrel" });

    // ---- the two writes
    let Some((dres, dsecs)) = ctx.guard("write.direct", input, || write_direct(spec, fs)) else { return };
    let Some((rres, rsecs, rels)) = ctx.guard("write.recorded", input, || write_recorded(spec, fs)) else { return };
    if let Err(e) = &dres {
        ctx.fail("write.direct_failed", &format!("direct write of an encodable model failed: {e}"), input);
        return;
    }
    if let Err(e) = &rres {
        ctx.fail("write.recorded_failed", &format!("recording write failed although the direct write succeeded: {e}"), input);
        return;
    }
    let nrel: usize = rels.values().map(|v| v.len()).sum();
    if nrel > spec.units.len() {
        ctx.nontrivial(fnv(desc.as_bytes()) ^ fnv(stream.as_bytes()));
    }

    // ---- writing side: apply and compare bytes
    let mut applied = rsecs.clone();
    let mut ok = true;
    for (sec, v) in &rels {
        let Some(bytes) = applied.m.get_mut(sec) else { continue };
        let mut seen = BTreeSet::new();
        for r in v {
            ctx.obs(&format!("in.{sec}"));
            match &r.tgt {
                Tgt::Sym(_) => ctx.obs("target.symbol"),
                Tgt::Sec(s) => ctx.obs(&format!("target.{s}")),
            }
            if r.eh {
                ctx.obs("eh_pe.reloc");
            }
            if !seen.insert(r.off) {
                ctx.fail("relocs.duplicate_site", &format!("{sec}: two relocations recorded at offset {:#x}", r.off), input);
                ok = false;
            }
            let placeholder = if r.off + r.size as usize <= bytes.len() { crate::asm::get_uint(&bytes[r.off..], spec.le, (r.size as usize).min(8)) } else { 0 };
            if placeholder != 0 {
                ctx.obs("secondary.placeholder_not_zero");
            }
            if !apply(bytes, spec.le, r.off, r.size, rel_value(r, &spec.symvals, 0)) {
                ctx.fail("relocs.out_of_section", &format!("{sec}: relocation at {:#x} size {} lies outside the section (len {:#x})", r.off, r.size, bytes.len()), input);
                ok = false;
            }
        }
    }
    for id in SECTION_IDS {
        let (a, d) = (applied.get(*id), dsecs.get(*id));
        if a != d {
            let first = a.iter().zip(d.iter()).position(|(x, y)| x != y).unwrap_or(a.len().min(d.len()));
            let near: Vec<&Rel> = rels.get(id.name()).map(|v| v.iter().filter(|r| r.off <= first && first < r.off + 8).collect()).unwrap_or_default();
            ctx.fail(
                &format!("bytes{}", id.name()),
                &format!("{}: recorded bytes + applied relocations differ from the direct write at offset {first:#x} (lengths {} / {}); relocations near: {near:?}", id.name(), a.len(), d.len()),
                &|| json!({"spec": desc, "applied": hex(a), "direct": hex(d)}),
            );
            ok = false;
        }
    }
    if !ok {
        return;
    }
    ctx.obs("bytes.equal");

    // ---- relocation set vs the model's relocatable fields
    let Some(rb) = ctx.guard("read_back", input, || c11::read_back(&dsecs, spec.le)) else { return };
    let runits = match rb {
        Ok(r) if r.len() == spec.units.len() => r,
        Ok(_) | Err(_) => {
            ctx.obs("skipped.readback_failed");
            return;
        }
    };
    match model_info_sites(spec, &runits) {
        Ok(exp) => {
            let got: BTreeSet<(usize, u8, Tgt)> = rels.get(".debug_info").map(|v| v.iter().map(|r| (r.off, r.size, r.tgt.clone())).collect()).unwrap_or_default();
            if exp == got {
                ctx.obs("relocs.debug_info.equal");
            } else {
                let missing: Vec<_> = exp.difference(&got).take(6).collect();
                let extra: Vec<_> = got.difference(&exp).take(6).collect();
                ctx.fail("relocs.debug_info", &format!(".debug_info: recorded relocations differ from the model's relocatable fields; not recorded: {missing:?}; recorded but not relocatable: {extra:?}"), input);
            }
        }
        Err(e) => {
            ctx.obs("skipped.model_sites");
            let _ = e;
        }
    }
    let exp_other = model_other_sites(spec, fs);
    let mut got_other: BTreeMap<&'static str, BTreeMap<Tgt, usize>> = BTreeMap::new();
    for (sec, v) in &rels {
        if *sec == ".debug_info" {
            continue;
        }
        for r in v {
            *got_other.entry(sec).or_default().entry(r.tgt.clone()).or_insert(0) += 1;
        }
    }
    if ctx.check_eq("relocs.other_sections", &exp_other, &got_other, input) {
        ctx.obs("relocs.other.equal");
    }

    // ---- reading side
    let eh_symbolic_nonabs = rels.get(".eh_frame").map_or(false, |v| v.iter().any(|r| r.eh_nonabs));
    let with_eh = !(KNOWN_EH_PE_NONABSPTR_NOT_RELOCATED && eh_symbolic_nonabs);
    if !with_eh {
        ctx.obs("known.eh_pe_nonabsptr_not_relocated");
    }
    let all_lists_referenced = spec.units.iter().all(|us| {
        let live: Vec<usize> = us.model_order().iter().map(|(k, _)| *k).collect();
        let used_r: BTreeSet<usize> = live.iter().flat_map(|k| us.entries[*k].attrs.iter()).filter_map(|a| if let ValSpec::RangeListRef(l) = &a.val { Some(*l) } else { None }).collect();
        let used_l: BTreeSet<usize> = live.iter().flat_map(|k| us.entries[*k].attrs.iter()).filter_map(|a| if let ValSpec::LocationListRef(l) = &a.val { Some(*l) } else { None }).collect();
        (0..us.rlists.len()).all(|l| used_r.iter().any(|j| us.rlists[*j] == us.rlists[l])) && (0..us.llists.len()).all(|l| used_l.iter().any(|j| us.llists[*j] == us.llists[l]))
    });
    let addr = fs.addr;
    let empty = RelocMap::default();
    for variant in 0..3u8 {
        // extra addend per site: 0 (recorded), unique for symbol sites, unique for all sites
        let mut maps: BTreeMap<&'static str, RelocMap> = BTreeMap::new();
        let mut pre = rsecs.clone();
        let mut counter = 0u64;
        for (sec, v) in &rels {
            let mut m = RelocMap::default();
            for r in v {
                counter += 1;
                // offsets that decide how other bytes are interpreted (abbreviations, line
                // programs, lists, CIEs) stay intact: shifting them would make the parse read
                // relocation sites as non-relocatable data, which no reader could reconcile
                let structural = matches!(&r.tgt, Tgt::Sec(s) if matches!(*s, ".debug_abbrev" | ".debug_line" | ".debug_ranges" | ".debug_rnglists" | ".debug_loc" | ".debug_loclists" | ".debug_frame"));
                let extra = match (variant, &r.tgt) {
                    (0, _) => 0,
                    (1, Tgt::Sym(_)) => 3 * counter,
                    (1, _) => 0,
                    _ if structural => 0,
                    _ => counter,
                };
                let val = rel_value(r, &spec.symvals, extra);
                m.map.insert(r.off, (r.size, val));
                if let Some(b) = pre.m.get_mut(sec) {
                    apply(b, spec.le, r.off, r.size, val);
                }
            }
            maps.insert(sec, m);
        }
        let Some(plain) = ctx.guard("walk.plain", input, || dump_plain(&pre, spec.le, addr, with_eh)) else { return };
        let Some(reloc) = ctx.guard("walk.relocate_reader", input, || dump_reloc(&rsecs, &maps, &empty, spec.le, addr, with_eh)) else { return };
        let name = ["recorded", "perturbed_symbols", "perturbed_all"][variant as usize];
        let df_cie_nonzero = maps.get(".debug_frame").map_or(false, |m| rels.get(".debug_frame").map_or(false, |v| v.iter().any(|r| matches!(r.tgt, Tgt::Sec(_)) && m.map.get(&r.off).map_or(false, |x| x.1 != 0))));
        let mut parts_ok = true;
        for (part, (a, b)) in [("", (&plain.0, &reloc.0)), (".debug_frame", (&plain.1, &reloc.1)), (".eh_frame", (&plain.2, &reloc.2))] {
            if part == ".debug_frame" && KNOWN_DEBUG_FRAME_CIE_POINTER_NOT_RELOCATED && df_cie_nonzero {
                ctx.obs(if a == b { "known.debug_frame_cie_pointer.same_anyway" } else { "known.debug_frame_cie_pointer_not_relocated" });
                continue;
            }
            if a == b {
                if !part.is_empty() {
                    ctx.obs(&format!("read.frames{part}.equal"));
                }
                continue;
            }
            parts_ok = false;
            let i = a.iter().zip(b.iter()).position(|(x, y)| x != y).unwrap_or(a.len().min(b.len()));
            let ctxl = |v: &Vec<String>| v.iter().skip(i.saturating_sub(3)).take(5).cloned().collect::<Vec<_>>();
            ctx.fail(
                &format!("read.{name}{part}"),
                &format!("RelocateReader parse differs from the parse of the pre-applied copy at dump line {i}: pre-applied {:?} / relocating {:?}", ctxl(a), ctxl(b)),
                input,
            );
        }
        if parts_ok {
            ctx.obs(&format!("read.{name}.equal"));
        } else {
            continue;
        }
        if variant == 0 {
            // every recorded site consumed by the parse must have been visited
            let mut all_visited = true;
            // an expression that fails to decode is not consumed beyond the failing operation
            let op_err = reloc.0.iter().any(|l| l.contains("op.err") || l.contains("op.limit"));
            for (sec, v) in &rels {
                if op_err && matches!(*sec, ".debug_info" | ".debug_loc" | ".debug_loclists") {
                    ctx.obs("visited.skipped_expression_error");
                    continue;
                }
                let Some(m) = maps.get(sec) else { continue };
                let log = m.log.borrow();
                let visited: BTreeSet<usize> = log.iter().map(|(o, _)| *o).collect();
                for (o, is_addr) in log.iter() {
                    ctx.obs(if *is_addr { "site.address" } else { "site.offset" });
                    if !m.map.contains_key(o) {
                        ctx.obs(&format!("passthrough.{sec}"));
                    }
                }
                let is_list = matches!(*sec, ".debug_ranges" | ".debug_rnglists" | ".debug_loc" | ".debug_loclists");
                if is_list && !all_lists_referenced {
                    continue;
                }
                if is_list {
                    ctx.obs("lists.judged");
                }
                if *sec == ".eh_frame" && !with_eh {
                    continue;
                }
                for r in v {
                    if r.eh_nonabs && KNOWN_EH_PE_NONABSPTR_NOT_RELOCATED {
                        continue;
                    }
                    if *sec == ".debug_frame" && matches!(r.tgt, Tgt::Sec(_)) && KNOWN_DEBUG_FRAME_CIE_POINTER_NOT_RELOCATED {
                        if !visited.contains(&r.off) {
                            ctx.obs("known.debug_frame_cie_pointer_unvisited");
                        }
                        continue;
                    }
                    if !visited.contains(&r.off) {
                        all_visited = false;
                        ctx.fail(&format!("sites.unvisited{sec}"), &format!("{sec}: the relocation recorded at {:#x} (size {}, target {:?}) was never passed to relocate_address/relocate_offset although the section was parsed completely", r.off, r.size, r.tgt), input);
                    }
                }
            }
            if all_visited {
                ctx.obs("sites.visited");
            }
        }
    }
    ctx.sample(stream, || json!({"spec": desc.chars().take(800).collect::<String>(), "relocations": format!("{:?}", rels).chars().take(1500).collect::<String>()}));
}

pub fn run(ctx: &mut Ctx) {
    // ---- catalogue (constant addresses except where the catalogue value is symbolic)
    let mut idx = 0u64;
    for enc in Enc::all() {
        for kind in wr::ALL_KINDS {
            for variant in 0..4u64 {
                idx += 1;
                if !ctx.want("cat", idx) {
                    continue;
                }
                let Some(mut spec) = c11::cat_case(enc, kind, variant, variant % 2 == 1 && *kind != "DebugInfoRef") else { continue };
                let mut r = ctx.rng("cat", idx);
                // make the catalogue symbolic: list bases, sequence starts and Address payloads
                for us in spec.units.iter_mut() {
                    let lim = if us.enc.addr == 1 { 8 } else { 0x40 };
                    for l in us.rlists.iter_mut() {
                        l.base = AddrSpec { sym: Some(r.usize(8)), val: r.below(lim) };
                    }
                    for l in us.llists.iter_mut() {
                        l.base = AddrSpec { sym: Some(r.usize(8)), val: r.below(lim) };
                    }
                    if let Some(lp) = us.line.as_mut() {
                        for s in lp.seqs.iter_mut() {
                            s.start = AddrSpec { sym: Some(r.usize(8)), val: r.below(lim) };
                        }
                    }
                    for e in us.entries.iter_mut() {
                        for a in e.attrs.iter_mut() {
                            if let ValSpec::Address(x) = &mut a.val {
                                if variant >= 2 {
                                    *x = AddrSpec { sym: Some(r.usize(8)), val: r.below(lim) };
                                }
                            }
                        }
                    }
                }
                let fs = gen_frames(&mut r, &spec);
                run_case(ctx, "cat", &spec, &fs);
            }
        }
    }
    let n = ctx.size(9_000, 100_000, 6);
    for i in 0..n {
        if !ctx.want("rand", i) {
            continue;
        }
        let mut r = ctx.rng("rand", i);
        let opts = GenOpts { symbolic: true, err_pct: 0, max_entries: 60 };
        let spec = wr::gen_case(&mut r, opts);
        let fs = gen_frames(&mut r, &spec);
        run_case(ctx, "rand", &spec, &fs);
    }
    asm_side::run(ctx);
}

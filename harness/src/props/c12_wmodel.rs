//! C12 inputs built with `gimli::write` (any producer is fine for a differential oracle):
//! random models with hostile-but-valid values.

use super::check_dwarf;
use crate::asm::Enc;
use crate::mon::entries::Secs;
use crate::rt::{Ctx, Rng};
use gimli::write::{self, Address, AttributeValue, LineString, UnitEntryId, UnitId};
use gimli::{constants as c, Register};
use serde_json::json;

fn bytes_nonul(r: &mut Rng, max: usize) -> Vec<u8> {
    let n = 1 + r.usize(max.max(1));
    (0..n)
        .map(|_| {
            let b = (r.next() % 255) as u8 + 1;
            b
        })
        .collect()
}

fn rb(r: &mut Rng, lo: usize, span: usize) -> Vec<u8> {
    let n = lo + r.usize(span);
    r.bytes(n)
}
fn rs(r: &mut Rng, max: u64) -> Vec<u8> {
    let n = r.small(max) as usize;
    r.bytes(n)
}

fn name(r: &mut Rng) -> Vec<u8> {
    match r.below(4) {
        0 => bytes_nonul(r, 12),
        1 => format!("n{}", r.below(1000)).into_bytes(),
        2 => b"x".to_vec(),
        _ => format!("a_rather_long_identifier_{}", r.below(10)).into_bytes(),
    }
}

fn addr(r: &mut Rng, enc: Enc) -> u64 {
    // avoid the top of the address space (tombstones) most of the time
    match r.below(6) {
        0 => r.boundary() & enc.addr_mask(),
        1 => 0,
        _ => (r.below(0x70) + 1) & enc.addr_mask(),
    }
}

pub struct ExprStats {
    pub to_end: bool,
    pub backward: bool,
    pub shorter: bool,
    pub entry_ref: bool,
}

/// Random expression over the builder API.  `bases`: candidate base-type entries (root
/// children, tag base_type); `others`: any entries; `units`: for cross-unit references.
pub fn gen_expr(
    r: &mut Rng,
    enc: Enc,
    bases: &[UnitEntryId],
    others: &[UnitEntryId],
    xrefs: &[(UnitId, UnitEntryId)],
    depth: u32,
    st: &mut ExprStats,
) -> write::Expression {
    let mut e = write::Expression::new();
    let n = 1 + r.below(if depth > 0 { 4 } else { 10 });
    let mut pending: Vec<usize> = vec![];
    for _ in 0..n {
        match r.below(30) {
            0 => e.op_addr(Address::Constant(addr(r, enc))),
            1 => {
                // constants that re-encode shorter / differently
                let v = *r.pick(&[0u64, 1, 3, 31, 32, 127, 128, 255, 256, 0xffff, 0x1_0000, u64::MAX]);
                st.shorter = true;
                e.op_constu(v)
            }
            2 => e.op_constu(r.boundary()),
            3 => e.op_consts(r.boundary() as i64),
            4 => e.op_fbreg(r.boundary() as i64),
            5 => e.op_breg(Register(r.below(40) as u16), r.boundary() as i64),
            6 => e.op_reg(Register(*r.pick(&[0u16, 31, 32, 127, 128, 0xffff]))),
            7 => e.op_pick(r.next() as u8),
            8 => e.op_deref(),
            9 => e.op_deref_size(*r.pick(&[1u8, 2, 4, 8, enc.addr])),
            10 => e.op_plus_uconst(r.boundary()),
            11 => {
                let k = e.op_skip();
                pending.push(k);
            }
            12 => {
                let k = e.op_bra();
                pending.push(k);
            }
            13 => e.op(*r.pick(&[
                c::DW_OP_dup,
                c::DW_OP_drop,
                c::DW_OP_over,
                c::DW_OP_swap,
                c::DW_OP_rot,
                c::DW_OP_abs,
                c::DW_OP_and,
                c::DW_OP_div,
                c::DW_OP_minus,
                c::DW_OP_mod,
                c::DW_OP_mul,
                c::DW_OP_neg,
                c::DW_OP_not,
                c::DW_OP_or,
                c::DW_OP_plus,
                c::DW_OP_shl,
                c::DW_OP_shr,
                c::DW_OP_shra,
                c::DW_OP_xor,
                c::DW_OP_eq,
                c::DW_OP_ge,
                c::DW_OP_gt,
                c::DW_OP_le,
                c::DW_OP_lt,
                c::DW_OP_ne,
                c::DW_OP_nop,
                c::DW_OP_push_object_address,
                c::DW_OP_form_tls_address,
                c::DW_OP_call_frame_cfa,
                c::DW_OP_stack_value,
            ])),
            14 => e.op_piece(r.small(300)),
            15 => e.op_bit_piece(r.small(300), r.small(64)),
            16 => e.op_implicit_value(rb(r, 0, 9).into_boxed_slice()),
            17 if enc.version >= 4 && !bases.is_empty() => {
                st.entry_ref = true;
                match r.below(6) {
                    0 => e.op_deref_type(*r.pick(&[1u8, 4, 8]), *r.pick(bases)),
                    1 => e.op_regval_type(Register(r.below(33) as u16), *r.pick(bases)),
                    2 => e.op_const_type(*r.pick(bases), rb(r, 1, 8).into_boxed_slice()),
                    3 => e.op_convert(if r.bool() { Some(*r.pick(bases)) } else { None }),
                    4 => e.op_reinterpret(if r.bool() { Some(*r.pick(bases)) } else { None }),
                    _ => e.op_xderef_type(*r.pick(&[1u8, 4]), *r.pick(bases)),
                }
            }
            18 if !others.is_empty() => {
                st.entry_ref = true;
                match r.below(2) {
                    0 => e.op_call(*r.pick(others)),
                    _ => e.op_gnu_parameter_ref(*r.pick(others)),
                }
            }
            19 if !xrefs.is_empty() => {
                st.entry_ref = true;
                let (u, id) = *r.pick(xrefs);
                let rf = write::DebugInfoRef::Entry(u, id);
                match r.below(3) {
                    0 => e.op_call_ref(rf),
                    1 => e.op_implicit_pointer(rf, r.boundary() as i64),
                    _ => e.op_variable_value(rf),
                }
            }
            20 if depth < 2 => {
                let inner = gen_expr(r, enc, bases, others, xrefs, depth + 1, st);
                e.op_entry_value(inner)
            }
            21 => e.op_xderef(),
            22 => e.op_xderef_size(*r.pick(&[1u8, 2, 4])),
            23 => e.op_wasm_local(r.boundary() as u32),
            24 => e.op_wasm_global(r.boundary() as u32),
            25 => e.op_wasm_stack(r.boundary() as u32),
            _ => e.op_constu(r.below(40)),
        }
    }
    let len = e.next_index();
    for k in pending {
        // any target except the branch itself (builder precondition), incl. the end
        let mut t = r.usize(len + 1);
        if t == k {
            t = len;
        }
        if t == len {
            st.to_end = true;
        }
        if t < k {
            st.backward = true;
        }
        e.set_target(k, t);
    }
    e
}

struct UnitPlan {
    id: UnitId,
    entries: Vec<UnitEntryId>,
    bases: Vec<UnitEntryId>,
    files: Vec<write::FileId>,
    low_pc: Option<u64>,
}

fn gen_line_program(r: &mut Rng, enc: Enc, dw: &mut write::Dwarf, files_out: &mut Vec<write::FileId>) -> write::LineProgram {
    let encoding = enc.encoding();
    let min_len = *r.pick(&[1u8, 1, 2, 4]);
    let max_ops = if enc.version >= 4 { *r.pick(&[1u8, 1, 1, 4]) } else { 1 };
    let line_base = -(r.below(12) as i8);
    let line_range = (((-(line_base as i16)) + 1 + r.below(20) as i16).min(255)) as u8;
    let le = gimli::LineEncoding {
        minimum_instruction_length: min_len,
        maximum_operations_per_instruction: max_ops,
        default_is_stmt: r.bool(),
        line_base,
        line_range,
    };
    // one string form per program (the writer rejects mixed forms: LineStringFormMismatch)
    let use_ref = enc.version >= 5 && r.bool();
    let ls = |_r: &mut Rng, dw: &mut write::Dwarf, b: Vec<u8>| -> LineString {
        if use_ref {
            LineString::LineStringRef(dw.line_strings.add(b))
        } else {
            LineString::String(b)
        }
    };
    let wd = ls(r, dw, b"/work/dir".to_vec());
    let sf = ls(r, dw, b"main.c".to_vec());
    let mut p = write::LineProgram::new(encoding, le, wd, None, sf, None);
    if enc.version >= 5 {
        p.file_has_md5 = r.bool();
        p.file_has_source = false;
    }
    p.file_has_timestamp = enc.version <= 4 || r.bool();
    p.file_has_size = enc.version <= 4 || r.bool();
    let mut dirs = vec![p.default_directory()];
    for k in 0..r.below(3) {
        let d = ls(r, dw, format!("inc{}", k).into_bytes());
        dirs.push(p.add_directory(d));
    }
    for k in 0..(1 + r.below(3)) {
        let f = ls(r, dw, format!("f{}.h", k).into_bytes());
        let info = write::FileInfo {
            timestamp: if p.file_has_timestamp { r.boundary() } else { 0 },
            size: if p.file_has_size { r.boundary() } else { 0 },
            md5: if p.file_has_md5 {
                let mut m = [0u8; 16];
                for x in m.iter_mut() {
                    *x = r.next() as u8;
                }
                m
            } else {
                [0; 16]
            },
            source: None,
        };
        let d = *r.pick(&dirs);
        files_out.push(p.add_file(f, d, Some(info)));
    }
    // sequences
    let nseq = 1 + r.below(3);
    let mut base = (r.below(0x40) + 1) * min_len as u64;
    for _ in 0..nseq {
        p.begin_sequence(Some(Address::Constant(base & enc.addr_mask())));
        let mut off = 0u64;
        let mut opi = 0u64;
        let nrows = 1 + r.below(8);
        for k in 0..nrows {
            if k > 0 && r.chance(1, 6) && !(super::SKIP_VLIW_MID_SEQUENCE_SET_ADDRESS && max_ops > 1) {
                // mid-sequence set_address (must not decrease)
                base = base.wrapping_add(off).wrapping_add(r.below(8) * min_len as u64) & enc.addr_mask() & !(min_len as u64 - 1);
                p.set_address(Address::Constant(base));
                // offsets continue from the previous row (documented behaviour of the converter's rows)
            }
            let row = p.row();
            row.address_offset = off;
            row.op_index = opi;
            row.file = *r.pick(&files_out[..]);
            row.line = match r.below(5) {
                0 => r.boundary() & 0x7fff_ffff,
                _ => 1 + r.below(200),
            };
            row.column = if r.bool() { 0 } else { r.small(300) };
            row.discriminator = if enc.version >= 4 && r.chance(1, 4) { r.small(100) } else { 0 };
            row.is_statement = r.bool();
            row.basic_block = r.chance(1, 4);
            row.prologue_end = enc.version >= 3 && r.chance(1, 4);
            row.epilogue_begin = enc.version >= 3 && r.chance(1, 4);
            row.isa = if enc.version >= 3 && r.chance(1, 4) { r.small(20) } else { row.isa };
            p.generate_row();
            // advance
            if max_ops > 1 && r.bool() {
                opi += 1;
                if opi >= max_ops as u64 {
                    opi = 0;
                    off += min_len as u64;
                }
            } else {
                let adv = match r.below(6) {
                    0 => 0,
                    1 => r.small(3000),
                    _ => r.below(20),
                };
                if adv > 0 {
                    off += adv * min_len as u64;
                    opi = 0;
                }
            }
        }
        off += r.below(16) * min_len as u64;
        p.end_sequence(off);
        base = (base.wrapping_add(off).wrapping_add(0x10)) & enc.addr_mask() & !(min_len as u64 - 1);
    }
    p
}

fn gen_ranges(r: &mut Rng, enc: Enc, have_base: bool) -> write::RangeList {
    let mut v = vec![];
    let mut based = have_base;
    let m = enc.addr_mask();
    for _ in 0..(1 + r.below(4)) {
        let b = (r.below(0x60) + 1) & m;
        let len = 1 + r.below(0x10);
        let e = b.saturating_add(len) & m;
        if e <= b {
            continue;
        }
        if enc.version >= 5 {
            match r.below(5) {
                0 => {
                    v.push(write::Range::BaseAddress { address: Address::Constant(addr(r, enc)) });
                    based = true;
                }
                1 => v.push(write::Range::OffsetPair { begin: b, end: e }),
                2 => v.push(write::Range::StartEnd { begin: Address::Constant(b), end: Address::Constant(e) }),
                _ => v.push(write::Range::StartLength { begin: Address::Constant(b), length: len }),
            }
        } else if based {
            if r.chance(1, 4) {
                v.push(write::Range::BaseAddress { address: Address::Constant((r.below(0x40) + 1) & m) });
            }
            v.push(write::Range::OffsetPair { begin: b, end: e });
        } else {
            match r.below(4) {
                0 => {
                    v.push(write::Range::BaseAddress { address: Address::Constant((r.below(0x40) + 1) & m) });
                    based = true;
                }
                1 => v.push(write::Range::StartLength { begin: Address::Constant(b), length: len }),
                _ => v.push(write::Range::StartEnd { begin: Address::Constant(b), end: Address::Constant(e) }),
            }
        }
    }
    write::RangeList(v)
}

fn gen_locs(
    r: &mut Rng,
    enc: Enc,
    have_base: bool,
    bases: &[UnitEntryId],
    others: &[UnitEntryId],
    xrefs: &[(UnitId, UnitEntryId)],
    st: &mut ExprStats,
) -> write::LocationList {
    let mut v = vec![];
    let mut based = have_base;
    let m = enc.addr_mask();
    for _ in 0..(1 + r.below(3)) {
        let b = (r.below(0x60) + 1) & m;
        let len = 1 + r.below(0x10);
        let e = b.saturating_add(len) & m;
        if e <= b {
            continue;
        }
        let data = gen_expr(r, enc, bases, others, xrefs, 1, st);
        if enc.version >= 5 {
            match r.below(6) {
                0 => {
                    v.push(write::Location::BaseAddress { address: Address::Constant(addr(r, enc)) });
                    based = true;
                }
                1 => v.push(write::Location::OffsetPair { begin: b, end: e, data }),
                2 => v.push(write::Location::StartEnd { begin: Address::Constant(b), end: Address::Constant(e), data }),
                3 => v.push(write::Location::DefaultLocation { data }),
                _ => v.push(write::Location::StartLength { begin: Address::Constant(b), length: len, data }),
            }
        } else if based {
            v.push(write::Location::OffsetPair { begin: b, end: e, data });
        } else {
            match r.below(4) {
                0 => {
                    v.push(write::Location::BaseAddress { address: Address::Constant((r.below(0x40) + 1) & m) });
                    based = true;
                }
                1 => v.push(write::Location::StartLength { begin: Address::Constant(b), length: len, data }),
                _ => v.push(write::Location::StartEnd { begin: Address::Constant(b), end: Address::Constant(e), data }),
            }
        }
    }
    write::LocationList(v)
}

const TAGS: &[gimli::DwTag] = &[
    c::DW_TAG_subprogram,
    c::DW_TAG_variable,
    c::DW_TAG_formal_parameter,
    c::DW_TAG_lexical_block,
    c::DW_TAG_structure_type,
    c::DW_TAG_member,
    c::DW_TAG_typedef,
    c::DW_TAG_pointer_type,
    c::DW_TAG_namespace,
    c::DW_TAG_enumeration_type,
    c::DW_TAG_enumerator,
    c::DW_TAG_inlined_subroutine,
    c::DW_TAG_base_type,
];

/// Build a random model; returns the written sections.
pub fn gen_model(r: &mut Rng, enc: Enc, st: &mut ExprStats, entries_total: &mut usize) -> Result<Secs, String> {
    let encoding = enc.encoding();
    let mut dw = write::Dwarf::new();
    let nunits = 1 + r.below(3) as usize;
    let mut plans: Vec<UnitPlan> = vec![];
    // pass 1: trees
    for _ in 0..nunits {
        let mut files = vec![];
        let program = if r.chance(3, 4) { gen_line_program(r, enc, &mut dw, &mut files) } else { write::LineProgram::none() };
        let mut unit = write::Unit::new(encoding, program);
        let root = unit.root();
        let mut entries = vec![];
        let mut bases = vec![];
        let mut parents = vec![root];
        let n = r.below(14);
        for _ in 0..n {
            let parent = *r.pick(&parents);
            let tag = *r.pick(TAGS);
            let id = unit.add(parent, tag);
            if tag == c::DW_TAG_base_type && parent == root {
                bases.push(id);
            }
            entries.push(id);
            if r.chance(1, 2) {
                parents.push(id);
            }
            if r.chance(1, 3) {
                unit.get_mut(id).set_sibling(true);
            }
        }
        let id = dw.units.add(unit);
        plans.push(UnitPlan { id, entries, bases, files, low_pc: None });
    }
    let xrefs: Vec<(UnitId, UnitEntryId)> = plans.iter().flat_map(|p| p.entries.iter().map(move |e| (p.id, *e))).collect();
    // pass 2: attributes
    for pi in 0..plans.len() {
        let uid = plans[pi].id;
        let entries = plans[pi].entries.clone();
        let bases = plans[pi].bases.clone();
        let files = plans[pi].files.clone();
        *entries_total += entries.len() + 1;
        // root
        let low_pc = match r.below(3) {
            0 => None,
            1 => Some(0u64),
            _ => Some((r.below(0x40) + 1) & enc.addr_mask()),
        };
        plans[pi].low_pc = low_pc;
        let have_base = matches!(low_pc, Some(x) if x != 0);
        let has_program = !dw.units.get(uid).line_program.is_none();
        {
            let nm = name(r);
            let producer = dw.strings.add(name(r));
            let comp_dir = dw.line_strings.add(b"/work/dir".to_vec());
            let unit = dw.units.get_mut(uid);
            let root = unit.root();
            let e = unit.get_mut(root);
            e.set(c::DW_AT_name, AttributeValue::String(nm));
            e.set(c::DW_AT_producer, AttributeValue::StringRef(producer));
            if enc.version >= 5 && r.bool() {
                e.set(c::DW_AT_comp_dir, AttributeValue::LineStringRef(comp_dir));
            } else {
                e.set(c::DW_AT_comp_dir, AttributeValue::String(b"/work/dir".to_vec()));
            }
            e.set(c::DW_AT_language, AttributeValue::Language(gimli::DwLang(r.boundary() as u16)));
            if let Some(lp) = low_pc {
                e.set(c::DW_AT_low_pc, AttributeValue::Address(Address::Constant(lp)));
                e.set(c::DW_AT_high_pc, AttributeValue::Udata(r.boundary()));
            }
            if has_program {
                e.set(c::DW_AT_stmt_list, AttributeValue::LineProgramRef);
            }
        }
        for &id in &entries {
            let mut names: Vec<(gimli::DwAt, u8)> = vec![
                (c::DW_AT_name, 0),
                (c::DW_AT_linkage_name, 0),
                (c::DW_AT_low_pc, 1),
                (c::DW_AT_high_pc, 2),
                (c::DW_AT_entry_pc, 1),
                (c::DW_AT_const_value, 3),
                (c::DW_AT_byte_size, 4),
                (c::DW_AT_decl_line, 4),
                (c::DW_AT_data_bit_offset, 4),
                (c::DW_AT_location, 5),
                (c::DW_AT_frame_base, 6),
                (c::DW_AT_data_member_location, 7),
                (c::DW_AT_ranges, 8),
                (c::DW_AT_type, 9),
                (c::DW_AT_specification, 9),
                (c::DW_AT_abstract_origin, 9),
                (c::DW_AT_signature, 10),
                (c::DW_AT_external, 11),
                (c::DW_AT_declaration, 11),
                (c::DW_AT_artificial, 11),
                (c::DW_AT_decl_file, 12),
                (c::DW_AT_call_file, 12),
                (c::DW_AT_encoding, 13),
                (c::DW_AT_accessibility, 14),
                (c::DW_AT_visibility, 15),
                (c::DW_AT_virtuality, 16),
                (c::DW_AT_calling_convention, 17),
                (c::DW_AT_inline, 18),
                (c::DW_AT_ordering, 19),
                (c::DW_AT_identifier_case, 20),
                (c::DW_AT_address_class, 21),
                (c::DW_AT_endianity, 22),
                (c::DW_AT_decimal_sign, 23),
                (c::DW_AT_macro_info, 24),
                (c::DW_AT_vtable_elem_location, 25),
                (gimli::DwAt(0x2001), 3),
                (gimli::DwAt(0x3fff), 26),
                (c::DW_AT_description, 27),
                (c::DW_AT_call_line, 28),
                (c::DW_AT_import, 29),
                (c::DW_AT_call_value, 6),
            ];
            r.shuffle(&mut names);
            let k = r.below(7) as usize;
            for &(at, kind) in names.iter().take(k) {
                let others = entries.clone();
                let v: Option<AttributeValue> = match kind {
                    0 => Some(match r.below(4) {
                        0 => AttributeValue::StringRef(dw.strings.add(name(r))),
                        1 if enc.version >= 5 => AttributeValue::LineStringRef(dw.line_strings.add(name(r))),
                        2 => AttributeValue::DebugStrRefSup(gimli::DebugStrOffset(r.boundary_bits(if enc.fmt64 { 64 } else { 32 }) as usize)),
                        _ => AttributeValue::String(name(r)),
                    }),
                    1 => Some(AttributeValue::Address(Address::Constant(addr(r, enc)))),
                    2 => Some(if r.bool() { AttributeValue::Udata(r.boundary()) } else { AttributeValue::Address(Address::Constant(addr(r, enc))) }),
                    3 => Some(match r.below(10) {
                        0 => AttributeValue::Data1(r.boundary() as u8),
                        1 => AttributeValue::Data2(r.boundary() as u16),
                        2 => AttributeValue::Data4(r.boundary() as u32),
                        3 => AttributeValue::Data8(r.boundary()),
                        4 if enc.version >= 5 => AttributeValue::Data16(((r.boundary() as u128) << 64) | r.boundary() as u128),
                        5 => AttributeValue::Sdata(r.boundary() as i64),
                        6 => AttributeValue::Udata(r.boundary()),
                        7 => AttributeValue::Block(rs(r, 300)),
                        8 => AttributeValue::String(name(r)),
                        _ => AttributeValue::Sdata(-(r.below(200) as i64)),
                    }),
                    4 => Some(AttributeValue::Udata(r.boundary())),
                    5 => Some(if r.bool() {
                        AttributeValue::Exprloc(gen_expr(r, enc, &bases, &others, &xrefs, 0, st))
                    } else {
                        let l = gen_locs(r, enc, have_base, &bases, &others, &xrefs, st);
                        if l.0.is_empty() {
                            AttributeValue::Exprloc(gen_expr(r, enc, &bases, &others, &xrefs, 0, st))
                        } else {
                            let id = dw.units.get_mut(uid).locations.add(l);
                            AttributeValue::LocationListRef(id)
                        }
                    }),
                    6 => Some(AttributeValue::Exprloc(gen_expr(r, enc, &bases, &others, &xrefs, 0, st))),
                    7 => Some(if r.bool() { AttributeValue::Udata(r.boundary()) } else { AttributeValue::Exprloc(gen_expr(r, enc, &bases, &others, &xrefs, 0, st)) }),
                    8 => {
                        let l = gen_ranges(r, enc, have_base);
                        if l.0.is_empty() {
                            None
                        } else {
                            let id = dw.units.get_mut(uid).ranges.add(l);
                            Some(AttributeValue::RangeListRef(id))
                        }
                    }
                    9 | 29 => Some(match r.below(4) {
                        0 if !xrefs.is_empty() => {
                            let (u, e) = *r.pick(&xrefs);
                            AttributeValue::DebugInfoRef(write::DebugInfoRef::Entry(u, e))
                        }
                        1 if enc.version >= 4 => AttributeValue::DebugInfoRefSup(gimli::DebugInfoOffset(r.boundary_bits(if enc.fmt64 { 64 } else { 32 }) as usize)),
                        _ => AttributeValue::UnitRef(*r.pick(&others)),
                    }),
                    10 if enc.version >= 4 => Some(AttributeValue::DebugTypesRef(gimli::DebugTypeSignature(r.boundary()))),
                    11 => Some(match r.below(3) {
                        0 => AttributeValue::FlagPresent,
                        1 => AttributeValue::Flag(true),
                        _ => AttributeValue::Flag(false),
                    }),
                    12 if !files.is_empty() => Some(AttributeValue::FileIndex(if r.chance(1, 5) && enc.version <= 4 { None } else { Some(*r.pick(&files)) })),
                    13 => Some(AttributeValue::Encoding(gimli::DwAte(r.boundary() as u8))),
                    14 => Some(AttributeValue::Accessibility(gimli::DwAccess(r.boundary() as u8))),
                    15 => Some(AttributeValue::Visibility(gimli::DwVis(r.boundary() as u8))),
                    16 => Some(AttributeValue::Virtuality(gimli::DwVirtuality(r.boundary() as u8))),
                    17 => Some(AttributeValue::CallingConvention(gimli::DwCc(r.boundary() as u8))),
                    18 => Some(AttributeValue::Inline(gimli::DwInl(r.boundary() as u8))),
                    19 => Some(AttributeValue::Ordering(gimli::DwOrd(r.boundary() as u8))),
                    20 => Some(AttributeValue::IdentifierCase(gimli::DwId(r.boundary() as u8))),
                    21 => Some(AttributeValue::AddressClass(gimli::DwAddr(r.boundary()))),
                    22 => Some(AttributeValue::Endianity(gimli::DwEnd(r.boundary() as u8))),
                    23 => Some(AttributeValue::DecimalSign(gimli::DwDs(r.boundary() as u8))),
                    24 => Some(if enc.version >= 5 {
                        AttributeValue::DebugMacroRef(gimli::DebugMacroOffset(r.boundary_bits(if enc.fmt64 { 64 } else { 32 }) as usize))
                    } else {
                        AttributeValue::DebugMacinfoRef(gimli::DebugMacinfoOffset(r.boundary_bits(if enc.fmt64 { 64 } else { 32 }) as usize))
                    }),
                    25 => {
                        let mut e = write::Expression::new();
                        e.op_constu(*r.pick(&[0u64, 3, 31, 32, 1000]));
                        Some(AttributeValue::Exprloc(write::Expression::raw({
                            // DW_OP_constu <uleb>: the form gdb expects for a vtable slot
                            let v = *r.pick(&[0u64, 3, 31, 32, 1000]);
                            let mut b = vec![0x10u8];
                            b.extend(crate::asm::uleb_bytes(v));
                            let _ = e;
                            b
                        })))
                    }
                    26 => Some(match r.below(4) {
                        0 => AttributeValue::Block(rs(r, 40)),
                        1 => AttributeValue::Data4(r.boundary() as u32),
                        2 => AttributeValue::Flag(r.bool()),
                        _ => AttributeValue::String(name(r)),
                    }),
                    27 => Some(AttributeValue::Block(rs(r, 69000))),
                    28 => Some(AttributeValue::ImplicitConst(r.boundary() as i64)),
                    _ => None,
                };
                let at = if kind == 24 && enc.version >= 5 { c::DW_AT_macros } else { at };
                if let Some(v) = v {
                    dw.units.get_mut(uid).get_mut(id).set(at, v);
                }
            }
        }
    }
    super::write_dwarf(&mut dw, enc.endian()).map_err(|e| format!("{:?}", e))
}

pub fn run(ctx: &mut Ctx) {
    let n = ctx.size(4000, 60_000, 4);
    for i in 0..n {
        if !ctx.want_hashed("wmodel", i) {
            continue;
        }
        let mut r = ctx.rng("wmodel", i);
        let enc = Enc::nth(i);
        ctx.eval();
        let mut st = ExprStats { to_end: false, backward: false, shorter: false, entry_ref: false };
        let mut total = 0usize;
        let secs = match gen_model(&mut r, enc, &mut st, &mut total) {
            Ok(s) => s,
            Err(e) => {
                ctx.obs("gen.wmodel.write_failed");
                ctx.obs(&format!("gen.wmodel.write_failed.{}", e.chars().take_while(|c| c.is_ascii_alphanumeric()).collect::<String>()));
                continue;
            }
        };
        let oks = check_dwarf(ctx, "wmodel", &secs, enc, &|| json!("gimli::write model"));
        if oks > 0 {
            if st.to_end {
                ctx.obs("expr.branch.to_end");
            }
            if st.backward {
                ctx.obs("expr.branch.backward");
            }
            if st.shorter {
                ctx.obs("expr.const.shorter");
            }
            if st.entry_ref {
                ctx.obs("expr.entry_ref");
            }
        }
        if total >= 2 {
            ctx.nontrivial(secs.digest());
        }
        ctx.sample("wmodel", || json!({"enc": enc.label(), "entries": total, "sections": secs.json()}));
    }
}

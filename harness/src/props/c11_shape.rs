//! C11, abbreviation-sharing stream: runs of sibling and cousin entries with the very same
//! shape (tag, children flag, sibling attribute, attribute names and forms) whose values
//! differ pairwise, mixed with entries that differ from the run in exactly one shape
//! component.  `AttributeValue::ImplicitConst` is part of every template: in DWARF 5 its
//! value lives in the abbreviation, so entries of equal shape but different constants need
//! different abbreviations, while equal constants may share one.
//!
//! The oracle is the ordinary read-back comparison (every entry carries its identity); a
//! writer that merges two of these shapes shows up as a wrong value, tag or nesting.

use super::*;

pub const NEAR: &[&str] = &["tag", "children", "sibling", "form", "order", "name", "count"];

const SCONST: &[i64] = &[0, -1, 63, 64, -64, -65, i64::MIN, i64::MAX, 1, 8191, 8192, -8192, -8193, 127, 128, -128, -129];

#[derive(Clone, Debug, Default)]
pub struct ShapeInfo {
    pub run: usize,
    pub near: Vec<&'static str>,
    pub units: usize,
    pub many: bool,
    pub shuffled: bool,
    pub mixed_versions: bool,
}

/// The i-th value of a kind; pairwise different for i in 0..6 wherever the kind has that many
/// values.  `own`: index of the entry that receives the value.
fn nth_value(kind: &str, i: usize, enc: Enc, nunits: usize, own: usize) -> Option<ValSpec> {
    let m = enc.addr_mask();
    let i6 = i % 6;
    let offs = [0u64, 1, 0x7f, 0x80, 0xffff_ffff, 0x1234][i6];
    let byte = [0u8, 1, 2, 0x7f, 0x80, 0xff][i6];
    Some(match kind {
        "Address" => ValSpec::Address(AddrSpec::abs([0, 1, m, m >> 1, 2, (m >> 1) + 1][i6])),
        "Block" => ValSpec::Block(vec![0xa0 + i6 as u8; [0usize, 1, 2, 127, 128, 3][i6]]),
        "Data1" => ValSpec::Data1(byte),
        "Data2" => ValSpec::Data2([0u16, 1, 0x7fff, 0x8000, 0xffff, 0x1234][i6]),
        "Data4" => ValSpec::Data4([0u32, 1, 0x7fff_ffff, 0x8000_0000, 0xffff_ffff, 0x1234_5678][i6]),
        "Data8" => ValSpec::Data8([0u64, 1, i64::MAX as u64, 1 << 63, u64::MAX, 0x0123_4567_89ab_cdef][i6]),
        "Data16" => ValSpec::Data16([0u128, 1, u128::MAX >> 1, 1 << 127, u128::MAX, 0x0102_0304_0506_0708_090a_0b0c_0d0e_0f10][i6]),
        "Sdata" => ValSpec::Sdata(SCONST[i % SCONST.len()]),
        "ImplicitConst" => ValSpec::ImplicitConst(SCONST[i % SCONST.len()]),
        "Udata" => ValSpec::Udata([0u64, 1, 127, 128, 16384, u64::MAX][i6]),
        "Exprloc" => ValSpec::Exprloc(XSpec::Ops(match i6 {
            0 => vec![],
            1 => vec![XOp::Reg(3)],
            2 => vec![XOp::Fbreg(-200)],
            3 => vec![XOp::Call(1)],
            4 => vec![XOp::Constu(1000)],
            _ => vec![XOp::Fbreg(-8), XOp::DerefType(false, 4, 2)],
        })),
        "Flag" => ValSpec::Flag(i % 2 == 0),
        "FlagPresent" => ValSpec::FlagPresent,
        "UnitRef" => ValSpec::UnitRef([1, 2, 0, 3, 4, own][i6]),
        "DebugInfoRef" => ValSpec::DebugInfoRef(i % nunits, [1usize, 2, 0, 3, 4, 1][(i / nunits) % 6]),
        "DebugInfoRefSup" => ValSpec::DebugInfoRefSup(offs),
        "LineProgramRef" => ValSpec::LineProgramRef,
        "LocationListRef" => ValSpec::LocationListRef(i % 3),
        "DebugMacinfoRef" => ValSpec::DebugMacinfoRef(offs),
        "DebugMacroRef" => ValSpec::DebugMacroRef(offs),
        "RangeListRef" => ValSpec::RangeListRef(i % 3),
        "DebugTypesRef" => ValSpec::DebugTypesRef([0u64, 1, 1 << 63, u64::MAX, 0x0123_4567_89ab_cdef, 2][i6]),
        "StringRef" => ValSpec::StringRef(i6),
        "DebugStrRefSup" => ValSpec::DebugStrRefSup(offs),
        "LineStringRef" => ValSpec::LineStringRef(i % 3),
        "String" => ValSpec::String(vec![b'a' + i6 as u8; [0usize, 1, 2, 127, 128, 3][i6]]),
        "Encoding" => ValSpec::Encoding(byte),
        "DecimalSign" => ValSpec::DecimalSign(byte),
        "Endianity" => ValSpec::Endianity(byte),
        "Accessibility" => ValSpec::Accessibility(byte),
        "Visibility" => ValSpec::Visibility(byte),
        "Virtuality" => ValSpec::Virtuality(byte),
        "Language" => ValSpec::Language([0u16, 1, 0x7f, 0x80, 0x8000, 0xffff][i6]),
        "AddressClass" => ValSpec::AddressClass([0u64, 1, 0x7f, 0x80, 1 << 32, u64::MAX][i6]),
        "IdentifierCase" => ValSpec::IdentifierCase(byte),
        "CallingConvention" => ValSpec::CallingConvention(byte),
        "Inline" => ValSpec::Inline(byte),
        "Ordering" => ValSpec::Ordering(byte),
        "FileIndex" => ValSpec::FileIndex([None, Some(0), Some(1), Some(2), Some(1), None][i6]),
        _ => return None,
    })
}

#[derive(Clone, Copy, Debug, PartialEq)]
enum Slot {
    Id,
    /// the attribute under test: value index `mi`
    Main(u16, &'static str),
    /// the constant that lives in the abbreviation in version 5: value index `ai`
    Aux(u16, &'static str),
    /// a second ordinary attribute: value index `mi + ai`
    Extra(u16, &'static str),
}

#[derive(Clone, Debug)]
struct Tmpl {
    tag: u16,
    slots: Vec<Slot>,
    /// 0: leaf, 1: one child, 2: one child and the sibling flag
    children: u8,
    sibling_flag: bool,
}

struct UB {
    u: usize,
    enc: Enc,
    nunits: usize,
    entries: Vec<EntrySpec>,
}

impl UB {
    fn idattr(&self, k: usize) -> AttrSpec {
        AttrSpec { name: ID_AT, val: ValSpec::Udata(wr::ident(self.u, k)) }
    }
    fn plain(&mut self, parent: usize, tag: u16, sibling: bool) -> usize {
        let k = self.entries.len();
        let id = self.idattr(k);
        self.entries.push(EntrySpec { parent, tag, sibling, reserve_at: None, deleted: false, attrs: vec![id] });
        k
    }
    fn inst(&mut self, parent: usize, t: &Tmpl, mi: usize, ai: usize) -> usize {
        let k = self.entries.len();
        let mut attrs = vec![];
        for s in &t.slots {
            let a = match *s {
                Slot::Id => Some(self.idattr(k)),
                Slot::Main(name, kind) => nth_value(kind, mi, self.enc, self.nunits, k).map(|val| AttrSpec { name, val }),
                Slot::Aux(name, kind) => nth_value(kind, ai, self.enc, self.nunits, k).map(|val| AttrSpec { name, val }),
                Slot::Extra(name, kind) => nth_value(kind, mi + ai, self.enc, self.nunits, k).map(|val| AttrSpec { name, val }),
            };
            if let Some(a) = a {
                attrs.push(a);
            }
        }
        let sibling = if t.children == 2 { true } else if t.children == 1 { false } else { t.sibling_flag };
        self.entries.push(EntrySpec { parent, tag: t.tag, sibling, reserve_at: None, deleted: false, attrs });
        if t.children > 0 {
            self.plain(k, 0x05, false);
        }
        k
    }
}

fn near_tmpl(e: &Tmpl, what: &str, r: &mut Rng) -> Tmpl {
    let mut t = e.clone();
    match what {
        "tag" => t.tag = if e.tag == 0x0d { 0x28 } else { 0x0d },
        "children" => t.children = 1,
        "sibling" => t.children = 2,
        "form" => {
            let alt = *r.pick(&["Sdata", "Udata", "Data1", "Data2"]);
            for s in t.slots.iter_mut() {
                if let Slot::Aux(n, _) = *s {
                    *s = Slot::Aux(n, alt);
                }
            }
        }
        "order" => {
            let n = t.slots.len();
            let by = 1 + r.usize(n - 1);
            t.slots.rotate_left(by);
        }
        "name" => {
            for s in t.slots.iter_mut() {
                if let Slot::Aux(_, k) = *s {
                    *s = Slot::Aux(0x2e13, k);
                }
            }
        }
        _ => t.slots.retain(|s| !matches!(s, Slot::Aux(..))),
    }
    t
}

fn build_unit(u: usize, enc: Enc, nunits: usize, kind: &'static str, run: usize, many: bool, variant: u64, r: &mut Rng, info: &mut ShapeInfo) -> UnitSpec {
    let mut b = UB { u, enc, nunits, entries: vec![] };
    // 0 root, 1 T1, 2 T2 (base type), 3 P1, 4 P2
    let root = EntrySpec { parent: 0, tag: 0x11, sibling: r.bool(), reserve_at: None, deleted: false, attrs: vec![b.idattr(0)] };
    b.entries.push(root);
    b.plain(0, 0x34, false);
    b.plain(0, 0x24, false);
    let psib = r.bool();
    b.plain(0, 0x13, psib);
    b.plain(0, 0x13, psib);
    if many {
        // more than 127 different shapes first: the run below gets two-byte abbreviation codes
        let p3 = b.plain(0, 0x17, r.bool());
        for j in 0..130u16 {
            b.plain(p3, 0x1000 + j, false);
        }
    }
    // ---- the template
    let aux_kind: &'static str = "ImplicitConst";
    let mut slots = vec![Slot::Id, Slot::Main(cat_name(kind), kind), Slot::Aux(0x2e12, aux_kind)];
    if r.chance(1, 3) {
        slots.push(Slot::Extra(0x2e11, *r.pick(&["Data2", "Udata", "Flag", "Sdata"])));
    }
    r.shuffle(&mut slots);
    let e = Tmpl { tag: 0x0d, slots, children: 0, sibling_flag: r.bool() };
    // value indices; unit 1 starts elsewhere so that the same position holds other values
    let mut next_m = u * 3 + r.usize(6);
    let mut next_a = u * 5 + r.usize(SCONST.len());
    // ---- P1: the run, exact duplicate, same-constant and same-main instances, near misses
    enum Item {
        E(usize, usize),
        N(Tmpl, usize, usize),
    }
    let mut items: Vec<Item> = vec![];
    let (m0, a0) = (next_m, next_a);
    for i in 0..run {
        items.push(Item::E(m0 + i, a0 + i));
    }
    next_m += run;
    next_a += run;
    items.push(Item::E(m0, a0)); // everything equal: may share
    items.push(Item::E(next_m, a0)); // same constant, other main value
    items.push(Item::E(m0, next_a)); // same main value, other constant
    next_m += 1;
    next_a += 1;
    let mut nears: Vec<(&'static str, Tmpl)> = vec![];
    for what in NEAR {
        let t = near_tmpl(&e, what, r);
        let reps = 1 + r.usize(2);
        for j in 0..reps {
            // one instance repeats values of the run, so that only the shape separates them
            let (mi, ai) = if j == 0 { (m0 + r.usize(run), a0 + r.usize(run)) } else { (next_m, next_a) };
            items.push(Item::N(t.clone(), mi, ai));
            next_m += 1;
            next_a += 1;
        }
        info.near.push(what);
        nears.push((what, t));
    }
    info.shuffled = r.bool();
    if info.shuffled {
        r.shuffle(&mut items);
    }
    for it in &items {
        match it {
            Item::E(mi, ai) => b.inst(3, &e, *mi, *ai),
            Item::N(t, mi, ai) => b.inst(3, t, *mi, *ai),
        };
    }
    // ---- P2: cousins of the run
    let cousins = 2 + r.usize(2);
    for i in 0..cousins {
        b.inst(4, &e, next_m + i, next_a + i);
    }
    b.inst(4, &e, m0 + r.usize(run), a0 + r.usize(run));
    for _ in 0..2 {
        let (_, t) = r.pick(&nears).clone();
        b.inst(4, &t, next_m + r.usize(4), next_a + r.usize(4));
    }
    // ---- a referenced entry after everything: a wrong size anywhere before shifts it
    let tend = b.plain(0, 0x34, false);
    let val = if u == 0 { ValSpec::UnitRef(tend) } else { ValSpec::DebugInfoRef(0, 1) };
    b.entries[0].attrs.push(AttrSpec { name: 0x49, val });
    let (rlists, llists, line) = aux_parts(enc, variant);
    UnitSpec { enc, entries: b.entries, phantoms: vec![], rlists, llists, line: Some(line) }
}

pub fn shape_case(enc: Enc, kind: &'static str, run: usize, many: bool, r: &mut Rng) -> (CaseSpec, ShapeInfo) {
    let mut info = ShapeInfo { run, many, ..Default::default() };
    let nunits = if kind == "DebugInfoRef" || r.chance(1, 3) { 2 } else { 1 };
    info.units = nunits;
    let variant = r.below(4);
    let mut units = vec![];
    for u in 0..nunits {
        let mut e = enc;
        if u == 1 && r.chance(1, 2) {
            e.version = 2 + (enc.version - 2 + 1 + r.below(3) as u16) % 4;
            info.mixed_versions = true;
        }
        // both units are built the same way, so that unit 1's tree has the same number of entries
        units.push(build_unit(u, e, nunits, kind, run, many && u == 0, variant, r, &mut info));
    }
    if nunits > 1 {
        // forward reference to the last entry of the next unit
        let last = units[1].entries.len() - 1;
        units[0].entries[1].attrs.push(AttrSpec { name: 0x49, val: ValSpec::DebugInfoRef(1, last) });
    }
    let strings = vec![b"alpha".to_vec(), b"".to_vec(), b"beta".to_vec(), b"gamma".to_vec(), vec![0xc3, 0xa9], b"alpha".to_vec()];
    let line_strings = vec![b"ls".to_vec(), vec![0xfe; 130], b"ls".to_vec()];
    (CaseSpec { le: enc.le, single: false, units, strings, line_strings, symvals: wr::gen::symvals_for(enc.addr) }, info)
}

pub fn run(ctx: &mut Ctx) {
    let kinds: Vec<&'static str> = wr::ALL_KINDS.iter().copied().filter(|k| *k != "DebugInfoRefSym").collect();
    let reps = if ctx.quick() { 1 } else { 3 };
    let mut idx = 0u64;
    for (ei, enc) in Enc::all().into_iter().enumerate() {
        for (ki, kind) in kinds.iter().enumerate() {
            for run in 2..=6usize {
                for _rep in 0..3 {
                    idx += 1;
                    if _rep >= reps {
                        continue;
                    }
                    // quick: one run length per (encoding, kind), all of them for the constant itself
                    if ctx.quick() && *kind != "ImplicitConst" && run != 2 + (ei + ki) % 5 {
                        continue;
                    }
                    if !ctx.want("shape", idx) {
                        continue;
                    }
                    let mut r = ctx.rng("shape", idx);
                    let many = (ei + ki + run) % 16 == 3;
                    let (spec, info) = shape_case(enc, kind, run, many, &mut r);
                    ctx.obs(&format!("shape.kind.{kind}"));
                    ctx.obs(&format!("shape.run.{}", info.run));
                    ctx.obs(&format!("shape.ver.{}", enc.version));
                    for n in &info.near {
                        ctx.obs(&format!("shape.near.{n}"));
                    }
                    ctx.obs("shape.cousins");
                    ctx.obs("shape.const.different");
                    ctx.obs("shape.const.equal");
                    if info.units > 1 {
                        ctx.obs("shape.units2");
                    }
                    if info.mixed_versions {
                        ctx.obs("shape.units2.mixed_versions");
                    }
                    if info.many {
                        ctx.obs("shape.many_shapes");
                    }
                    ctx.obs(if info.shuffled { "shape.mixed" } else { "shape.contiguous" });
                    run_case(ctx, "shape", &spec, false);
                }
            }
        }
    }
}

//! C18, reading side, hand-assembled inputs (`gimli::write` never emits these encodings).
//!
//! `crate::gen::info` assembles `.debug_abbrev` / `.debug_info` / `.debug_types` with a field
//! map.  The model below classifies every attribute field from (attribute name, final form,
//! unit version / format / address size) - written from the DWARF 2-5 class tables, not from
//! gimli - as
//!   * `Off(n)`  : cross-section offset of n bytes (must pass through `relocate_offset`),
//!   * `Addr`    : target address (must pass through `relocate_address`),
//!   * `Plain`   : a value that is certainly not relocatable (unit-local references, type
//!                 signatures, index forms, constants under non-pointer attribute names ...):
//!                 the hooks must not be called for it ("and nothing else"),
//!   * `Neutral` : encodings on which the standard is silent (constant forms under
//!                 pointer-class names in DWARF >= 4, `DW_FORM_GNU_ref_alt`): calls are listed.
//! Every `Off`/`Addr` field and every unit header's `debug_abbrev_offset` gets a unique
//! non-zero addend; the raw section + {site -> addend} map is read through `RelocateReader`,
//! a copy with the addends added into the bytes (wrapping to the field width) is read
//! plainly, by one walker generic over the reader.

use super::{apply, mask, norm, render_ops, render_val, RelocMap, Slice};
use crate::asm::{Enc, Field};
use crate::gen::info::{AbbrevDecl, AbbrevTable, AttrDecl, AttrVal, Built, InfoCfg, Item, Sec, TypeOffset, UnitCfg, UnitKind, Val};
use crate::model::forms as f;
use crate::rt::{fnv, hex, Ctx, Rng};
use gimli::read::Reader;
use serde_json::json;
use std::collections::{BTreeMap, BTreeSet};

pub const MUST_OBSERVE: &[&str] = &[
    "asm.read.equal",
    "asm.sites.visited",
    "asm.site.header.debug_abbrev_offset",
    "asm.site.addr",
    "asm.site.expr_addr",
    "asm.site.strp",
    "asm.site.line_strp",
    "asm.site.strp_sup",
    "asm.site.ref_addr.v2_address_sized",
    "asm.site.ref_addr.offset_sized",
    "asm.site.sec_offset",
    "asm.site.legacy.data4",
    "asm.site.legacy.data8",
    "asm.site.via_indirect.1",
    "asm.site.via_indirect.2",
    "asm.site.legacy.via_indirect",
    "asm.plain.ref4",
    "asm.plain.ref_sig8",
    "asm.plain.index_form",
    "asm.plain.constant",
    "asm.neutral",
    "asm.unit.debug_types",
    "asm.unit.v5_type",
    "asm.unit.v5_skeleton",
    "asm.tables.str_offsets.equal",
    "asm.tables.addr.equal",
    "asm.tables.rnglists.equal",
    "asm.tables.loclists.equal",
    "asm.tables.aranges.equal",
    "asm.tables.pubnames.equal",
    "asm.tables.sites.visited",
    "asm.tables.site.str_offsets.entry",
    "asm.tables.site.addr.entry",
    "asm.tables.site.rnglists.start_end",
    "asm.tables.site.rnglists.base_address",
    "asm.tables.site.rnglists.start_length",
    "asm.tables.site.loclists.start_end",
    "asm.tables.site.loclists.base_address",
    "asm.tables.site.loclists.DW_OP_addr",
    "asm.tables.site.info.str_offsets_base",
    "asm.tables.site.info.addr_base",
    "asm.tables.site.info.rnglists_base",
    "asm.tables.site.info.loclists_base",
    "asm.tables.site.info.ranges.sec_offset",
    "asm.tables.site.info.location.sec_offset",
    "asm.tables.site.aranges.debug_info_offset",
    "asm.tables.site.aranges.address",
    "asm.tables.site.pubnames.debug_info_offset",
    "asm.tables.site.pubtypes.debug_info_offset",
];

// attribute names (DWARF 5 table 7.5 and GNU extensions)
const AT_LOCATION: u16 = 0x02;
const AT_NAME: u16 = 0x03;
const AT_BYTE_SIZE: u16 = 0x0b;
const AT_STMT_LIST: u16 = 0x10;
const AT_LOW_PC: u16 = 0x11;
const AT_STRING_LENGTH: u16 = 0x19;
const AT_COMP_DIR: u16 = 0x1b;
const AT_RETURN_ADDR: u16 = 0x2a;
const AT_START_SCOPE: u16 = 0x2c;
const AT_DATA_MEMBER_LOCATION: u16 = 0x38;
const AT_DECL_LINE: u16 = 0x3b;
const AT_FRAME_BASE: u16 = 0x40;
const AT_MACRO_INFO: u16 = 0x43;
const AT_SEGMENT: u16 = 0x46;
const AT_STATIC_LINK: u16 = 0x48;
const AT_TYPE: u16 = 0x49;
const AT_USE_LOCATION: u16 = 0x4a;
const AT_VTABLE_ELEM_LOCATION: u16 = 0x4d;
const AT_RANGES: u16 = 0x55;
const AT_SIGNATURE: u16 = 0x69;
const AT_STR_OFFSETS_BASE: u16 = 0x72;
const AT_ADDR_BASE: u16 = 0x73;
const AT_RNGLISTS_BASE: u16 = 0x74;
const AT_MACROS: u16 = 0x79;
const AT_LOCLISTS_BASE: u16 = 0x8c;
const AT_GNU_MACROS: u16 = 0x2119;
const AT_GNU_RANGES_BASE: u16 = 0x2132;
const AT_GNU_ADDR_BASE: u16 = 0x2133;
const AT_GNU_LOCVIEWS: u16 = 0x2137;

/// loclistptr / lineptr / macptr / rangelistptr attributes of DWARF 2 and 3, where such a
/// pointer is encoded as DW_FORM_data4 (32-bit DWARF) or DW_FORM_data8 (64-bit DWARF).
const LEGACY_PTR_NAMES: &[u16] = &[
    AT_STMT_LIST, AT_RANGES, AT_LOCATION, AT_MACRO_INFO, AT_FRAME_BASE, AT_DATA_MEMBER_LOCATION, AT_STRING_LENGTH, AT_RETURN_ADDR, AT_STATIC_LINK, AT_USE_LOCATION,
    AT_VTABLE_ELEM_LOCATION, AT_SEGMENT,
];
/// attributes that carry DW_FORM_sec_offset in DWARF 4 / 5 (and GNU extensions)
const SECOFF_NAMES: &[u16] = &[
    AT_STMT_LIST, AT_RANGES, AT_LOCATION, AT_MACRO_INFO, AT_MACROS, AT_STR_OFFSETS_BASE, AT_ADDR_BASE, AT_RNGLISTS_BASE, AT_LOCLISTS_BASE, AT_FRAME_BASE, AT_DATA_MEMBER_LOCATION,
    AT_STRING_LENGTH, AT_RETURN_ADDR, AT_START_SCOPE, AT_STATIC_LINK, AT_USE_LOCATION, AT_VTABLE_ELEM_LOCATION, AT_SEGMENT, AT_GNU_MACROS, AT_GNU_RANGES_BASE, AT_GNU_ADDR_BASE,
    AT_GNU_LOCVIEWS,
];

#[derive(Clone, Copy, Debug, PartialEq, Eq)]
enum Cls {
    Off(u8),
    Addr,
    /// block / exprloc whose last operation is DW_OP_addr: the trailing address is a site
    ExprAddr,
    Plain,
    Neutral,
    /// variable-length or empty: no fixed field to judge
    Other,
}

/// The model: class of the value of `form` under `name` (from the standard's class tables).
fn classify(name: u16, form: u16, enc: Enc, expr_addr: bool) -> Cls {
    let word = enc.word();
    let legacy = enc.version <= 3 && LEGACY_PTR_NAMES.contains(&name);
    match form {
        f::F_ADDR => Cls::Addr,
        f::F_SEC_OFFSET | f::F_STRP | f::F_LINE_STRP | f::F_STRP_SUP | f::F_GNU_STRP_ALT => Cls::Off(word),
        f::F_REF_ADDR => Cls::Off(if enc.version == 2 { enc.addr } else { word }),
        f::F_DATA4 | f::F_DATA8 => {
            let is_word = (form == f::F_DATA4) != enc.fmt64;
            let ptr_name = LEGACY_PTR_NAMES.contains(&name) || SECOFF_NAMES.contains(&name);
            if legacy && is_word {
                Cls::Off(word)
            } else if ptr_name && enc.version >= 4 {
                // DWARF >= 4: a constant; the pinned reader still treats it as a DWARF 2/3 pointer
                Cls::Neutral
            } else if ptr_name && is_word {
                Cls::Neutral
            } else {
                Cls::Plain
            }
        }
        f::F_GNU_REF_ALT => Cls::Neutral,
        f::F_REF1 | f::F_REF2 | f::F_REF4 | f::F_REF8 | f::F_REF_SIG8 | f::F_REF_SUP4 | f::F_REF_SUP8 => Cls::Plain,
        f::F_DATA1 | f::F_DATA2 | f::F_DATA16 | f::F_FLAG => Cls::Plain,
        f::F_STRX1 | f::F_STRX2 | f::F_STRX3 | f::F_STRX4 | f::F_ADDRX1 | f::F_ADDRX2 | f::F_ADDRX3 | f::F_ADDRX4 => Cls::Plain,
        f::F_BLOCK1 | f::F_EXPRLOC | f::F_BLOCK if expr_addr => Cls::ExprAddr,
        _ => Cls::Other,
    }
}

#[derive(Clone, Debug)]
struct ASpec {
    name: u16,
    form: u16,
    /// number of DW_FORM_indirect levels in front of the final form (0 = declared directly)
    ind: u8,
    expr_addr: bool,
}

/// Every (name, final form) pair of the catalogue for `enc`.
fn catalogue(enc: Enc) -> Vec<(u16, u16, bool)> {
    let mut v: Vec<(u16, u16, bool)> = vec![];
    if enc.version <= 3 {
        for &n in LEGACY_PTR_NAMES {
            v.push((n, f::F_DATA4, false));
            v.push((n, f::F_DATA8, false));
        }
        // v5 names do not exist here: constants
        v.push((AT_STR_OFFSETS_BASE, f::F_DATA4, false));
        v.push((AT_BYTE_SIZE, f::F_DATA8, false));
    } else {
        for &n in SECOFF_NAMES {
            v.push((n, f::F_SEC_OFFSET, false));
        }
        for &n in &[AT_STMT_LIST, AT_RANGES, AT_DATA_MEMBER_LOCATION, AT_LOCATION] {
            v.push((n, f::F_DATA4, false));
            v.push((n, f::F_DATA8, false));
        }
    }
    for &(n, fm) in &[
        (AT_NAME, f::F_STRP),
        (AT_COMP_DIR, f::F_STRP),
        (AT_LOW_PC, f::F_ADDR),
        (AT_TYPE, f::F_REF_ADDR),
        (AT_TYPE, f::F_REF4),
        (AT_TYPE, f::F_REF1),
        (AT_TYPE, f::F_REF2),
        (AT_TYPE, f::F_REF8),
        (AT_TYPE, f::F_REF_UDATA),
        (AT_SIGNATURE, f::F_REF_SIG8),
        (AT_BYTE_SIZE, f::F_DATA1),
        (AT_BYTE_SIZE, f::F_DATA2),
        (AT_BYTE_SIZE, f::F_DATA4),
        (AT_DECL_LINE, f::F_DATA8),
        (AT_DECL_LINE, f::F_UDATA),
        (AT_DECL_LINE, f::F_SDATA),
        (AT_NAME, f::F_STRING),
        (AT_BYTE_SIZE, f::F_FLAG),
    ] {
        v.push((n, fm, false));
    }
    // location descriptions ending in DW_OP_addr
    v.push((AT_LOCATION, f::F_BLOCK1, true));
    v.push((AT_FRAME_BASE, f::F_BLOCK, true));
    if enc.version >= 4 {
        v.push((AT_LOCATION, f::F_EXPRLOC, true));
        for &(n, fm) in &[
            (AT_COMP_DIR, f::F_LINE_STRP),
            (AT_NAME, f::F_LINE_STRP),
            (AT_NAME, f::F_STRP_SUP),
            (AT_NAME, f::F_GNU_STRP_ALT),
            (AT_TYPE, f::F_GNU_REF_ALT),
            (AT_TYPE, f::F_REF_SUP4),
            (AT_TYPE, f::F_REF_SUP8),
            (AT_NAME, f::F_STRX),
            (AT_NAME, f::F_STRX1),
            (AT_NAME, f::F_STRX2),
            (AT_NAME, f::F_STRX3),
            (AT_NAME, f::F_STRX4),
            (AT_NAME, f::F_GNU_STR_INDEX),
            (AT_LOW_PC, f::F_ADDRX),
            (AT_LOW_PC, f::F_ADDRX1),
            (AT_LOW_PC, f::F_ADDRX2),
            (AT_LOW_PC, f::F_ADDRX3),
            (AT_LOW_PC, f::F_ADDRX4),
            (AT_LOW_PC, f::F_GNU_ADDR_INDEX),
            (AT_RANGES, f::F_RNGLISTX),
            (AT_LOCATION, f::F_LOCLISTX),
            (AT_BYTE_SIZE, f::F_DATA16),
        ] {
            v.push((n, fm, false));
        }
    }
    v
}

#[derive(Clone, Debug)]
struct Site {
    sec: Sec,
    off: usize,
    size: u8,
    is_addr: bool,
    addend: u64,
    what: String,
}

struct Case {
    enc: Enc,
    built: Built,
    /// raw sections (header abbreviation offsets lowered by their addend)
    raw_info: Vec<u8>,
    raw_types: Vec<u8>,
    sites: Vec<Site>,
    /// (section, start, len, description) of fields that must not reach the hooks
    plain: Vec<(Sec, usize, usize, String)>,
    die_specs: Vec<Vec<Vec<ASpec>>>,
    desc: String,
}

fn field_at(fields: &[Field], off: usize, len: usize) -> bool {
    fields.iter().any(|x| x.off == off && x.len == len)
}

/// Build one case: `specs[u]` are the attributes of unit u (split into entries of <= 9 attributes).
fn build_case(ctx: &mut Ctx, r: &mut Rng, enc: Enc, units: &[(UnitKind, Vec<ASpec>)]) -> Option<Case> {
    const LEAD: usize = 96;
    let mut tables = vec![];
    let mut ucfgs = vec![];
    let mut die_specs: Vec<Vec<Vec<ASpec>>> = vec![];
    for (ui, (kind, specs)) in units.iter().enumerate() {
        let mut decls = vec![];
        let mut items = vec![];
        let mut flags = vec![];
        let chunks: Vec<&[ASpec]> = specs.chunks(9).collect();
        for (ci, chunk) in chunks.iter().enumerate() {
            let mut attrs = vec![];
            let mut vals = vec![];
            let mut fl = vec![];
            for s in chunk.iter() {
                attrs.push(AttrDecl::new(s.name, if s.ind > 0 { f::F_INDIRECT } else { s.form }));
                let mut chain = vec![];
                for _ in 1..s.ind {
                    chain.push(f::F_INDIRECT);
                }
                if s.ind > 0 {
                    chain.push(s.form);
                }
                let val = if s.expr_addr {
                    // a few plain operations, then DW_OP_addr <address>
                    let mut b = vec![];
                    for _ in 0..r.usize(3) {
                        b.push(0x30 + r.below(32) as u8); // DW_OP_lit*
                    }
                    b.push(0x03);
                    let a = r.boundary() & enc.addr_mask();
                    let bytes = a.to_le_bytes();
                    for i in 0..enc.addr as usize {
                        b.push(if enc.le { bytes[i] } else { bytes[enc.addr as usize - 1 - i] });
                    }
                    Val::Bytes(b)
                } else {
                    match f::layout(s.form, enc) {
                        Some(f::Layout::CStr) => {
                            let n = r.usize(6);
                            Val::Bytes(crate::gen::info::filler(n, r.below(100)))
                        },
                        Some(f::Layout::Sleb) => Val::S(r.boundary() as i64),
                        Some(f::Layout::Fixed(16)) => Val::U128(((r.next() as u128) << 64) | r.next() as u128),
                        Some(f::Layout::BlockN(_)) | Some(f::Layout::BlockUleb) => {
                            let n = r.usize(5);
                            Val::Bytes(r.bytes(n))
                        }
                        _ => Val::U(if r.chance(1, 2) { r.below(0x400) } else { r.boundary() }),
                    }
                };
                vals.push(AttrVal { indirect: chain, val, leb_len: 0, form_leb_len: if s.ind > 0 && r.chance(1, 8) { 2 } else { 0 } });
                fl.push(s.clone());
            }
            let last = ci + 1 == chunks.len();
            // first entry is the root with children; the others are its children
            decls.push(AbbrevDecl { code: ci as u64 + 1, tag: if ci == 0 { 0x11 } else { 0x34 }, children: ci == 0 && chunks.len() > 1, attrs });
            items.push(Item::Die { abbrev: ci, vals, code_len: 0 });
            flags.push(fl);
            if last && chunks.len() > 1 {
                items.push(Item::Null);
            }
        }
        tables.push(AbbrevTable { decls, terminated: true });
        let mut u = UnitCfg::new(enc, *kind, ui, items);
        u.type_signature = r.next();
        u.dwo_id = r.next();
        u.type_offset = TypeOffset::Item(0);
        ucfgs.push(u);
        die_specs.push(flags);
    }
    let cfg = InfoCfg { le: enc.le, tables, units: ucfgs, abbrev_lead: LEAD };
    let built = cfg.build();

    // ---- relocatable sites from the model + field map
    let mut sites: Vec<Site> = vec![];
    let mut plain = vec![];
    let mut k: u64 = 0;
    let mut next_addend = |size: u8, r: &mut Rng| -> u64 {
        k += 1;
        // unique and non-zero after truncation to the field width
        let a = match size {
            1 => 1 + (k - 1) % 255,
            2 => 0x0101u64.wrapping_mul(1 + (k % 200)),
            _ => {
                let hi = if size == 8 && r.chance(1, 2) { (k << 40) | (1 << 63) } else { 0 };
                hi | (0x0001_0001u64.wrapping_mul(k) & 0x7fff_ffff)
            }
        };
        a & mask(size)
    };
    let mut raw_info = built.debug_info.clone();
    let mut raw_types = built.debug_types.clone();
    for (ui, um) in built.units.iter().enumerate() {
        let fields = if um.sec == Sec::Info { &built.info_fields } else { &built.types_fields };
        // header: debug_abbrev_offset (located through the field map)
        let word = enc.word();
        let Some(hf) = fields.iter().find(|x| x.name == "unit.debug_abbrev_offset" && x.off >= um.offset as usize && (x.off as u64) < um.offset + um.header_size) else {
            ctx.harness_error("c18_asm: no debug_abbrev_offset field in the field map");
            return None;
        };
        if hf.len != word as usize {
            ctx.harness_error("c18_asm: debug_abbrev_offset field width");
            return None;
        }
        // the relocated value must still select the unit's table: raw = offset - addend
        let addend = 1 + (ui as u64 * 7 + r.below(7)) % (LEAD as u64 - 1);
        let raw = um.abbrev_offset.wrapping_sub(addend);
        let sec_bytes = if um.sec == Sec::Info { &mut raw_info } else { &mut raw_types };
        let b = raw.to_le_bytes();
        for i in 0..word as usize {
            sec_bytes[hf.off + i] = if enc.le { b[i] } else { b[word as usize - 1 - i] };
        }
        sites.push(Site { sec: um.sec, off: hf.off, size: word, is_addr: false, addend, what: "header.debug_abbrev_offset".into() });
        let mut di = 0usize;
        for im in um.items.iter() {
            if im.null {
                continue;
            }
            for (ai, am) in im.attrs.iter().enumerate() {
                let expr_addr = die_specs.get(ui).and_then(|x| x.get(di)).and_then(|x| x.get(ai)).map_or(false, |s| s.expr_addr);
                let cls = classify(am.name, am.final_form, enc, expr_addr);
                let end = (um.offset + am.offset + am.len) as usize;
                let ind = if am.form == f::F_INDIRECT { "ind." } else { "" };
                let what = format!("{}{ind}form {:#x} under name {:#x}", if expr_addr { "expr." } else { "" }, am.final_form, am.name);
                match cls {
                    Cls::Off(_) | Cls::Addr | Cls::ExprAddr => {
                        let (size, is_addr) = match cls {
                            Cls::Off(s) => (s, false),
                            _ => (enc.addr, true),
                        };
                        let off = end - size as usize;
                        if cls != Cls::ExprAddr && !field_at(fields, off, size as usize) {
                            ctx.harness_error(&format!("c18_asm: model site {what} at {off:#x}/{size} is not a field of the field map"));
                            return None;
                        }
                        let addend = next_addend(size, r);
                        sites.push(Site { sec: um.sec, off, size, is_addr, addend, what });
                    }
                    Cls::Plain => {
                        if let Some(f::Layout::Fixed(n)) = f::layout(am.final_form, enc) {
                            plain.push((um.sec, end - n, n, what));
                        }
                    }
                    Cls::Neutral | Cls::Other => {}
                }
            }
            di += 1;
        }
    }
    let desc = format!("{} units {:?}", enc.label(), units.iter().map(|(k, s)| (k, s.iter().map(|a| (a.name, a.form, a.ind, a.expr_addr)).collect::<Vec<_>>())).collect::<Vec<_>>());
    Some(Case { enc, built, raw_info, raw_types, sites, plain, die_specs, desc })
}

// ================================================================ walker

fn walk_headers<R: Reader<Offset = usize>>(sec: &str, mut next: impl FnMut() -> gimli::Result<Option<gimli::UnitHeader<R>>>, abbrev: &gimli::DebugAbbrev<R>, out: &mut Vec<String>) {
    let mut nu = 0;
    loop {
        nu += 1;
        if nu > 40 {
            out.push(format!("{sec} units.limit"));
            break;
        }
        let h = match next() {
            Ok(Some(h)) => h,
            Ok(None) => break,
            Err(e) => {
                out.push(format!("{sec} units.err {e:?}"));
                break;
            }
        };
        out.push(format!("{sec} unit off={:?} len={} enc={:?} abbrev={:?} type={:?} hdr={}", h.offset(), h.unit_length(), h.encoding(), h.debug_abbrev_offset(), h.type_(), h.size_of_header()));
        let abbrevs = match h.abbreviations(abbrev) {
            Ok(a) => a,
            Err(e) => {
                out.push(format!(" abbreviations.err {e:?}"));
                continue;
            }
        };
        let enc = h.encoding();
        let mut raw = match h.entries_raw(&abbrevs, None) {
            Ok(r) => r,
            Err(e) => {
                out.push(format!(" entries_raw.err {e:?}"));
                continue;
            }
        };
        let mut n = 0;
        while !raw.is_empty() {
            n += 1;
            if n > 2000 {
                out.push(" entries.limit".into());
                break;
            }
            let off = raw.next_offset().0;
            let ab = match raw.read_abbreviation() {
                Ok(Some(a)) => a,
                Ok(None) => {
                    out.push(format!(" null @{off:#x}"));
                    continue;
                }
                Err(e) => {
                    out.push(format!(" abbrev.err @{off:#x} {e:?}"));
                    break;
                }
            };
            out.push(format!(" die @{off:#x} tag={:#x} ch={}", ab.tag().0, ab.has_children()));
            let mut failed = false;
            for spec in ab.attributes() {
                let a = match raw.read_attribute(*spec) {
                    Ok(a) => a,
                    Err(e) => {
                        out.push(format!("  attr.err {:#x} {e:?}", spec.name().0));
                        failed = true;
                        break;
                    }
                };
                let v = a.value();
                out.push(format!("  at {:#x} form {:#x} raw {} val {}", a.name().0, a.form().0, render_val(&a.raw_value()), render_val(&v)));
                if let Some(e) = v.exprloc_value() {
                    render_ops(&e, enc, out, 0);
                }
                if let Some(x) = v.offset_value() {
                    out.push(format!("   offset_value {x:#x}"));
                }
            }
            if failed {
                break;
            }
        }
    }
}

fn walk_all<R: Reader<Offset = usize>>(info: R, types: R, abbrev: R) -> Vec<String> {
    let mut out = vec![];
    let abbrev = gimli::DebugAbbrev::from(abbrev);
    let info = gimli::DebugInfo::from(info);
    let types = gimli::DebugTypes::from(types);
    let mut it = info.units();
    walk_headers(".debug_info", || it.next(), &abbrev, &mut out);
    let mut it = types.units();
    walk_headers(".debug_types", || it.next(), &abbrev, &mut out);
    norm(out)
}

// ================================================================ judging one case

type RR<'a> = gimli::RelocateReader<Slice<'a>, &'a RelocMap>;

fn mk<'a>(b: &'a [u8], m: &'a RelocMap, endian: gimli::RunTimeEndian) -> RR<'a> {
    gimli::RelocateReader::new(gimli::EndianSlice::new(b, endian), m)
}

fn judge(ctx: &mut Ctx, stream: &str, case: &Case) {
    ctx.eval();
    let enc = case.enc;
    let endian = enc.endian();
    let input = || json!({"enc": enc.label(), "desc": case.desc, "debug_abbrev": hex(&case.built.debug_abbrev), "debug_info.raw": hex(&case.raw_info), "debug_types.raw": hex(&case.raw_types), "sites": format!("{:?}", case.sites)});
    let input: &dyn Fn() -> serde_json::Value = &input;
    ctx.obs(if enc.le { "endian.le" } else { "endian.be" });
    ctx.obs(&format!("ver.{}", enc.version));
    ctx.obs(&format!("addr.{}", enc.addr));
    ctx.obs(if enc.fmt64 { "fmt.64" } else { "fmt.32" });
    if case.sites.len() > case.built.units.len() {
        ctx.nontrivial(fnv(case.desc.as_bytes()) ^ fnv(&case.raw_info) ^ fnv(stream.as_bytes()));
    }

    // ---- the relocation maps and the pre-applied copies
    let mut m_info = RelocMap::default();
    let mut m_types = RelocMap::default();
    let m_abbrev = RelocMap::default();
    let mut pre_info = case.raw_info.clone();
    let mut pre_types = case.raw_types.clone();
    for s in &case.sites {
        let (m, b) = if s.sec == Sec::Info { (&mut m_info, &mut pre_info) } else { (&mut m_types, &mut pre_types) };
        if m.map.insert(s.off, (s.size, s.addend)).is_some() || !apply(b, enc.le, s.off, s.size, s.addend) {
            ctx.harness_error("c18_asm: overlapping or out-of-section site");
            return;
        }
    }
    // the pre-applied header offsets are the generator's again
    for um in &case.built.units {
        let (b, orig) = if um.sec == Sec::Info { (&pre_info, &case.built.debug_info) } else { (&pre_types, &case.built.debug_types) };
        let o = um.offset as usize;
        let h = um.header_size as usize;
        if b[o..o + h] != orig[o..o + h] {
            ctx.harness_error("c18_asm: pre-applied unit header differs from the generated one");
            return;
        }
    }

    let Some(plain) = ctx.guard("asm.walk.plain", input, || walk_all(gimli::EndianSlice::new(&pre_info, endian), gimli::EndianSlice::new(&pre_types, endian), gimli::EndianSlice::new(&case.built.debug_abbrev, endian))) else { return };
    let Some(reloc) = ctx.guard("asm.walk.relocate_reader", input, || {
        walk_all(mk(&case.raw_info, &m_info, endian), mk(&case.raw_types, &m_types, endian), mk(&case.built.debug_abbrev, &m_abbrev, endian))
    }) else {
        return;
    };
    if plain != reloc {
        let i = plain.iter().zip(reloc.iter()).position(|(x, y)| x != y).unwrap_or(plain.len().min(reloc.len()));
        let ctxl = |v: &Vec<String>| v.iter().skip(i.saturating_sub(2)).take(4).cloned().collect::<Vec<_>>();
        // name the site whose field the differing attribute is
        let form = plain.get(i).or(reloc.get(i)).map(|l| l.split(" raw ").next().unwrap_or("").trim().to_string()).unwrap_or_default();
        let sig = if form.starts_with("at ") { "asm.read.attribute" } else { "asm.read.unit" };
        ctx.fail(sig, &format!("hand-assembled unit ({}): RelocateReader parse differs from the parse of the pre-applied copy at dump line {i} [{form}]: pre-applied {:?} / relocating {:?}", enc.label(), ctxl(&plain), ctxl(&reloc)), input);
        return;
    }
    ctx.obs("asm.read.equal");
    let complete = !plain.iter().any(|l| l.contains(".err") || l.contains(".limit"));
    if !complete {
        ctx.obs("asm.incomplete_parse");
        return;
    }

    // ---- every site was passed to the right hook at its offset; plain fields never
    let mut ok = true;
    for (sec, m) in [(Sec::Info, &m_info), (Sec::Types, &m_types)] {
        let log = m.log.borrow();
        let seen: BTreeMap<usize, bool> = log.iter().map(|(o, a)| (*o, *a)).collect();
        for s in case.sites.iter().filter(|s| s.sec == sec) {
            match seen.get(&s.off) {
                None => {
                    ok = false;
                    let sig = if s.what.starts_with("header") { "asm.sites.unvisited.header" } else { "asm.sites.unvisited.attribute" };
                    ctx.fail(sig, &format!("{sec:?}: the relocatable field at {:#x} (size {}, {}) was consumed by the parse but never passed to relocate_address/relocate_offset", s.off, s.size, s.what), input);
                }
                Some(a) if *a != s.is_addr => {
                    ok = false;
                    ctx.fail("asm.sites.wrong_hook", &format!("{sec:?}: the field at {:#x} ({}) went through {} instead of {}", s.off, s.what, if *a { "relocate_address" } else { "relocate_offset" }, if s.is_addr { "relocate_address" } else { "relocate_offset" }), input);
                }
                Some(_) => {}
            }
        }
        let site_offs: BTreeSet<usize> = case.sites.iter().filter(|s| s.sec == sec).map(|s| s.off).collect();
        for (o, _) in log.iter() {
            if site_offs.contains(o) {
                continue;
            }
            ctx.obs("asm.passthrough");
            if let Some(p) = case.plain.iter().find(|p| p.0 == sec && *o >= p.1 && *o < p.1 + p.2) {
                ok = false;
                ctx.fail("asm.hook_at_nonrelocatable", &format!("{sec:?}: a relocate hook was called at {o:#x}, inside the non-relocatable field at {:#x}+{} ({})", p.1, p.2, p.3), input);
            }
        }
    }
    if !m_abbrev.log.borrow().is_empty() {
        ctx.obs("asm.passthrough.debug_abbrev");
    }
    if ok {
        ctx.obs("asm.sites.visited");
    }

    // ---- coverage
    for (ui, um) in case.built.units.iter().enumerate() {
        if um.sec == Sec::Types {
            ctx.obs("asm.unit.debug_types");
        } else if enc.version >= 5 {
            match um.kind {
                UnitKind::Type | UnitKind::SplitType => ctx.obs("asm.unit.v5_type"),
                UnitKind::Skeleton | UnitKind::SplitCompile => ctx.obs("asm.unit.v5_skeleton"),
                _ => {}
            }
        }
        for (di, im) in um.items.iter().filter(|i| !i.null).enumerate() {
            for (ai, am) in im.attrs.iter().enumerate() {
                let via = am.form == f::F_INDIRECT;
                let levels = case.die_specs.get(ui).and_then(|x| x.get(di)).and_then(|x| x.get(ai)).map_or(0, |s| s.ind);
                match classify(am.name, am.final_form, enc, false) {
                    Cls::Off(_) | Cls::Addr => {
                        let key = match am.final_form {
                            f::F_ADDR => "addr",
                            f::F_STRP => "strp",
                            f::F_LINE_STRP => "line_strp",
                            f::F_STRP_SUP | f::F_GNU_STRP_ALT => "strp_sup",
                            f::F_REF_ADDR if enc.version == 2 => "ref_addr.v2_address_sized",
                            f::F_REF_ADDR => "ref_addr.offset_sized",
                            f::F_SEC_OFFSET => "sec_offset",
                            f::F_DATA4 => "legacy.data4",
                            _ => "legacy.data8",
                        };
                        ctx.obs(&format!("asm.site.{key}"));
                        if via {
                            if matches!(am.final_form, f::F_DATA4 | f::F_DATA8) {
                                ctx.obs("asm.site.legacy.via_indirect");
                            }
                            ctx.obs(if levels >= 2 { "asm.site.via_indirect.2" } else { "asm.site.via_indirect.1" });
                        }
                    }
                    Cls::Plain => ctx.obs(match am.final_form {
                        f::F_REF4 => "asm.plain.ref4",
                        f::F_REF_SIG8 => "asm.plain.ref_sig8",
                        f::F_STRX1 | f::F_STRX2 | f::F_STRX3 | f::F_STRX4 | f::F_ADDRX1 | f::F_ADDRX2 | f::F_ADDRX3 | f::F_ADDRX4 => "asm.plain.index_form",
                        _ => "asm.plain.constant",
                    }),
                    Cls::Neutral => ctx.obs("asm.neutral"),
                    _ => {}
                }
            }
        }
    }
    if case.sites.iter().any(|s| s.is_addr && s.what.starts_with("expr.")) {
        ctx.obs("asm.site.expr_addr");
    }
    ctx.obs("asm.site.header.debug_abbrev_offset");
    ctx.sample(stream, || json!({"enc": enc.label(), "sites": case.sites.iter().take(12).map(|s| format!("{:?}@{:#x}/{} +{:#x} {}", s.sec, s.off, s.size, s.addend, s.what)).collect::<Vec<_>>(), "dump": plain.iter().take(12).cloned().collect::<Vec<_>>()}));
}

fn kinds_for(enc: Enc, n: usize, r: &mut Rng) -> Vec<UnitKind> {
    (0..n)
        .map(|i| {
            if enc.version >= 5 {
                UnitKind::ALL[(i + r.usize(6)) % 6]
            } else if i % 2 == 1 {
                UnitKind::Type
            } else {
                UnitKind::Compile
            }
        })
        .collect()
}

pub fn run(ctx: &mut Ctx) {
    // ---- catalogue: every (name, final form) x {direct, indirect, indirect indirect} per encoding
    for (idx, enc) in Enc::all().into_iter().enumerate() {
        if !ctx.want("asm.cat", idx as u64) {
            continue;
        }
        let mut r = ctx.rng("asm.cat", idx as u64);
        let cat = catalogue(enc);
        let mut all: Vec<ASpec> = vec![];
        for ind in 0..3u8 {
            for &(name, form, expr_addr) in &cat {
                all.push(ASpec { name, form, ind, expr_addr });
            }
        }
        // three units (kinds rotate), attributes dealt round-robin so that every unit mixes levels
        let kinds: Vec<UnitKind> = if enc.version >= 5 { vec![UnitKind::Compile, UnitKind::Type, UnitKind::Skeleton, UnitKind::SplitType] } else { vec![UnitKind::Compile, UnitKind::Type, UnitKind::Compile] };
        let mut units: Vec<(UnitKind, Vec<ASpec>)> = kinds.iter().map(|k| (*k, vec![])).collect();
        let nu = units.len();
        for (i, s) in all.into_iter().enumerate() {
            units[i % nu].1.push(s);
        }
        if let Some(case) = build_case(ctx, &mut r, enc, &units) {
            judge(ctx, "asm.cat", &case);
        }
    }
    // ---- seeded: random subsets, orders, indirect depths, values, unit kinds
    let n = ctx.size(600, 20_000, 6);
    for i in 0..n {
        if !ctx.want("asm.rand", i) {
            continue;
        }
        let mut r = ctx.rng("asm.rand", i);
        let enc = Enc::nth(i);
        let cat = catalogue(enc);
        let nu = 1 + r.usize(3);
        let kinds = kinds_for(enc, nu, &mut r);
        let mut units = vec![];
        for k in kinds {
            let na = 1 + r.usize(24);
            let specs = (0..na)
                .map(|_| {
                    let &(name, form, expr_addr) = r.pick(&cat);
                    ASpec { name, form, ind: *r.pick(&[0u8, 0, 1, 1, 2, 3]), expr_addr }
                })
                .collect();
            units.push((k, specs));
        }
        if let Some(case) = build_case(ctx, &mut r, enc, &units) {
            judge(ctx, "asm.rand", &case);
        }
    }
    run_tables(ctx);
}

// ================================================================ index forms and offset tables (DWARF 5)
//
// One v5 unit whose root names its bases; `.debug_str_offsets` / `.debug_addr` /
// `.debug_rnglists` / `.debug_loclists` tables start behind filler so that a relocated base
// still selects the table; every string offset entry, address entry, inline list address,
// `DW_OP_addr` inside a location list entry, the `.debug_aranges` and `.debug_pubnames` /
// `.debug_pubtypes` unit offsets and the arange addresses are sites.

#[derive(Default)]
struct TSec {
    raw: Vec<u8>,
    sites: Vec<(usize, u8, bool, u64, &'static str)>,
}

struct TCase {
    enc: Enc,
    secs: BTreeMap<&'static str, TSec>,
    desc: String,
}

/// Emit an address field whose value after relocation is `fin` (raw = fin - addend, wrapping).
fn addr_site(a: &mut crate::asm::Asm, sec: &mut TSec, enc: Enc, addend: u64, fin: u64, what: &'static str) {
    sec.sites.push((a.len(), enc.addr, true, addend & enc.addr_mask(), what));
    a.uint(enc.addr as usize, fin.wrapping_sub(addend) & enc.addr_mask());
}

fn build_tables(r: &mut Rng, enc: Enc) -> TCase {
    use crate::asm::Asm;
    let word = enc.word();
    let wn = word as usize;
    let an = enc.addr as usize;
    let small = enc.addr == 1;
    let mut k = 0u64;
    // unique small addends (structural offsets), unique addends for addresses
    let mut next = |max: u64| -> u64 {
        k += 1;
        1 + (k * 5 + 2) % max.max(1)
    };
    let mut used: BTreeSet<u64> = BTreeSet::new();
    let mut uniq = |r: &mut Rng, max: u64, used: &mut BTreeSet<u64>| -> u64 {
        for _ in 0..200 {
            let a = 1 + r.below(max);
            if used.insert(a) {
                return a;
            }
        }
        1
    };
    let _ = &mut next;
    let nstr = 2 + r.usize(5);
    let naddr = 3 + r.usize(5);
    let nrl = 1 + r.usize(3);
    let nll = 1 + r.usize(2);
    let addr_val = |r: &mut Rng| -> u64 { if small { r.below(0x30) } else { r.below(0x3000) } };
    let addr_add_max: u64 = if small { 0x40 } else { 0x4000 };

    // ---- .debug_str
    let mut strs = TSec::default();
    let pad_str = 48usize;
    let mut a = Asm::new(enc.le);
    for i in 0..pad_str {
        a.u8(b'A' + (i % 20) as u8);
    }
    a.u8(0);
    let mut str_offs = vec![];
    for i in 0..nstr {
        str_offs.push(a.len() as u64);
        a.cstr(format!("name{i}").as_bytes());
    }
    strs.raw = a.buf;

    // ---- .debug_str_offsets
    let mut so = TSec::default();
    let mut a = Asm::new(enc.le);
    let lead = 8 * (1 + r.usize(4));
    for _ in 0..lead {
        a.u8(0xee);
    }
    let m = a.begin_length(enc.fmt64);
    a.u16(5).u16(0);
    let so_base = a.len() as u64;
    let mut add_used = BTreeSet::new();
    for i in 0..nstr {
        let ad = uniq(r, pad_str as u64, &mut add_used);
        so.sites.push((a.len(), word, false, ad, "str_offsets.entry"));
        a.uint(wn, str_offs[i].wrapping_sub(ad));
    }
    a.end_length(m);
    so.raw = a.buf;

    // ---- .debug_addr
    let mut da = TSec::default();
    let mut a = Asm::new(enc.le);
    let lead = 8 * (1 + r.usize(4));
    for _ in 0..lead {
        a.u8(0xee);
    }
    let m = a.begin_length(enc.fmt64);
    a.u16(5).u8(enc.addr).u8(0);
    let da_base = a.len() as u64;
    let mut au = BTreeSet::new();
    for i in 0..naddr as u64 {
        // relocated values ascend strictly, so that (i, j) with i < j is a non-empty range
        let ad = uniq(r, addr_add_max.min(enc.addr_mask()), &mut au);
        let fin = if small { 8 + 6 * i + r.below(4) } else { 0x100 + 0x100 * i + r.below(0x80) };
        addr_site(&mut a, &mut da, enc, ad, fin, "addr.entry");
    }
    a.end_length(m);
    da.raw = a.buf;

    // ---- .debug_rnglists: offsets table + lists
    let mut rl = TSec::default();
    let mut a = Asm::new(enc.le);
    let lead = 8 * (1 + r.usize(4));
    for _ in 0..lead {
        a.u8(0xee);
    }
    let m = a.begin_length(enc.fmt64);
    a.u16(5).u8(enc.addr).u8(0).u32(nrl as u32);
    let rl_base = a.len() as u64;
    let table_at = a.len();
    for _ in 0..nrl {
        a.uint(wn, 0);
    }
    let mut rl_list_offs = vec![];
    for i in 0..nrl {
        let off = a.len() as u64 - rl_base;
        rl_list_offs.push(a.len() as u64);
        a.patch_uint(table_at + i * wn, wn, off);
        for _ in 0..1 + r.usize(5) {
            match r.below(7) {
                0 => {
                    a.u8(1).uleb(r.below(naddr as u64));
                }
                1 => {
                    a.u8(2).uleb(r.below(naddr as u64)).uleb(r.below(naddr as u64));
                }
                2 => {
                    a.u8(3).uleb(r.below(naddr as u64)).uleb(1 + r.below(0x20));
                }
                3 => {
                    let b = r.below(0x10);
                    a.u8(4).uleb(b).uleb(b + 1 + r.below(0x10));
                }
                4 => {
                    a.u8(5);
                    let (ad, fin) = (uniq(r, addr_add_max.min(enc.addr_mask()), &mut au), addr_val(r));
                    addr_site(&mut a, &mut rl, enc, ad, fin, "rnglists.base_address");
                }
                5 => {
                    a.u8(6);
                    let (ad, fin) = (uniq(r, addr_add_max.min(enc.addr_mask()), &mut au), addr_val(r));
                    addr_site(&mut a, &mut rl, enc, ad, fin, "rnglists.start_end");
                    let (ad, fin) = (uniq(r, addr_add_max.min(enc.addr_mask()), &mut au), fin + 1 + r.below(0x10));
                    addr_site(&mut a, &mut rl, enc, ad, fin, "rnglists.start_end");
                }
                _ => {
                    a.u8(7);
                    let (ad, fin) = (uniq(r, addr_add_max.min(enc.addr_mask()), &mut au), addr_val(r));
                    addr_site(&mut a, &mut rl, enc, ad, fin, "rnglists.start_length");
                    a.uleb(1 + r.below(0x20));
                }
            }
        }
        a.u8(0);
    }
    a.end_length(m);
    rl.raw = a.buf;

    // ---- .debug_loclists
    let mut ll = TSec::default();
    let mut a = Asm::new(enc.le);
    let lead = 8 * (1 + r.usize(4));
    for _ in 0..lead {
        a.u8(0xee);
    }
    let m = a.begin_length(enc.fmt64);
    a.u16(5).u8(enc.addr).u8(0).u32(nll as u32);
    let ll_base = a.len() as u64;
    let table_at = a.len();
    for _ in 0..nll {
        a.uint(wn, 0);
    }
    let mut ll_list_offs = vec![];
    for i in 0..nll {
        let off = a.len() as u64 - ll_base;
        ll_list_offs.push(a.len() as u64);
        a.patch_uint(table_at + i * wn, wn, off);
        for _ in 0..1 + r.usize(4) {
            match r.below(5) {
                0 => {
                    a.u8(1).uleb(r.below(naddr as u64));
                    continue;
                }
                1 => {
                    let i = r.below(naddr as u64 - 1);
                    let j = i + 1 + r.below(naddr as u64 - 1 - i);
                    a.u8(2).uleb(i).uleb(j);
                }
                2 => {
                    a.u8(3).uleb(r.below(naddr as u64)).uleb(1 + r.below(0x20));
                }
                3 => {
                    a.u8(6);
                    let (ad, fin) = (uniq(r, addr_add_max.min(enc.addr_mask()), &mut au), addr_val(r));
                    addr_site(&mut a, &mut ll, enc, ad, fin, "loclists.base_address");
                    continue;
                }
                _ => {
                    a.u8(7);
                    let (ad, fin) = (uniq(r, addr_add_max.min(enc.addr_mask()), &mut au), addr_val(r));
                    addr_site(&mut a, &mut ll, enc, ad, fin, "loclists.start_end");
                    let (ad, fin) = (uniq(r, addr_add_max.min(enc.addr_mask()), &mut au), fin + 1 + r.below(0x10));
                    addr_site(&mut a, &mut ll, enc, ad, fin, "loclists.start_end");
                }
            }
            // counted location description: DW_OP_addr <a>
            a.uleb(1 + an as u64).u8(0x03);
            let (ad, fin) = (uniq(r, addr_add_max.min(enc.addr_mask()), &mut au), addr_val(r));
            addr_site(&mut a, &mut ll, enc, ad, fin, "loclists.DW_OP_addr");
        }
        a.u8(0);
    }
    a.end_length(m);
    ll.raw = a.buf;

    // ---- .debug_abbrev / .debug_info
    let name_form = *r.pick(&[f::F_STRX, f::F_STRX1, f::F_STRX2, f::F_STRX3, f::F_STRX4]);
    let addr_form = *r.pick(&[f::F_ADDRX, f::F_ADDRX1, f::F_ADDRX2, f::F_ADDRX3, f::F_ADDRX4]);
    let list_sec_offset = r.chance(1, 3);
    let list_form = if list_sec_offset { f::F_SEC_OFFSET } else { f::F_RNGLISTX };
    let loc_form = if list_sec_offset { f::F_SEC_OFFSET } else { f::F_LOCLISTX };
    let mut ab = Asm::new(enc.le);
    ab.uleb(1).uleb(0x11).u8(1);
    for (n, fm) in [(AT_STR_OFFSETS_BASE, f::F_SEC_OFFSET), (AT_ADDR_BASE, f::F_SEC_OFFSET), (AT_RNGLISTS_BASE, f::F_SEC_OFFSET), (AT_LOCLISTS_BASE, f::F_SEC_OFFSET), (AT_LOW_PC, addr_form), (AT_NAME, name_form)] {
        ab.uleb(n as u64).uleb(fm as u64);
    }
    ab.u8(0).u8(0);
    ab.uleb(2).uleb(0x34).u8(0);
    for (n, fm) in [(AT_NAME, name_form), (AT_LOW_PC, addr_form), (AT_RANGES, list_form), (AT_LOCATION, loc_form)] {
        ab.uleb(n as u64).uleb(fm as u64);
    }
    ab.u8(0).u8(0).u8(0);
    let mut info = TSec::default();
    let mut a = Asm::new(enc.le);
    let m = a.begin_length(enc.fmt64);
    a.u16(5).u8(1).u8(enc.addr).uint(wn, 0);
    let emit_idx = |a: &mut Asm, form: u16, v: u64| match f::layout(form, enc) {
        Some(f::Layout::Fixed(n)) => {
            a.uint(n, v);
        }
        _ => {
            a.uleb(v);
        }
    };
    a.uleb(1);
    let mut bu = BTreeSet::new();
    for (base, what) in [(so_base, "info.str_offsets_base"), (da_base, "info.addr_base"), (rl_base, "info.rnglists_base"), (ll_base, "info.loclists_base")] {
        let ad = uniq(r, 8, &mut bu);
        info.sites.push((a.len(), word, false, ad, what));
        a.uint(wn, base.wrapping_sub(ad));
    }
    emit_idx(&mut a, addr_form, r.below(naddr as u64));
    emit_idx(&mut a, name_form, r.below(nstr as u64));
    let nchild = nstr.max(naddr).max(nrl).max(nll);
    for c in 0..nchild {
        a.uleb(2);
        emit_idx(&mut a, name_form, (c % nstr) as u64);
        emit_idx(&mut a, addr_form, (c % naddr) as u64);
        if list_sec_offset {
            // cross-section offsets of the lists themselves: keep them pointing at the list
            let ad = uniq(r, 8, &mut bu);
            info.sites.push((a.len(), word, false, ad, "info.ranges.sec_offset"));
            a.uint(wn, rl_list_offs[c % nrl].wrapping_sub(ad));
            let ad = uniq(r, 8, &mut bu);
            info.sites.push((a.len(), word, false, ad, "info.location.sec_offset"));
            a.uint(wn, ll_list_offs[c % nll].wrapping_sub(ad));
        } else {
            a.uleb((c % nrl) as u64);
            a.uleb((c % nll) as u64);
        }
    }
    a.u8(0);
    a.end_length(m);
    info.raw = a.buf;

    // ---- .debug_aranges
    let mut ar = TSec::default();
    let mut a = Asm::new(enc.le);
    for _ in 0..1 + r.usize(2) {
        // a set must start at a multiple of the tuple size for every padding rule to agree
        if a.len() % (2 * an) != 0 {
            break;
        }
        let start = a.len();
        let m = a.begin_length(enc.fmt64);
        a.u16(2);
        ar.sites.push((a.len(), word, false, uniq(r, 0x4000, &mut bu), "aranges.debug_info_offset"));
        a.uint(wn, r.below(0x1000));
        a.u8(enc.addr).u8(0);
        while (a.len() - start) % (2 * an) != 0 {
            a.u8(0);
        }
        for _ in 0..1 + r.usize(3) {
            let (ad, fin) = (uniq(r, addr_add_max.min(enc.addr_mask()), &mut au), 1 + addr_val(r));
            addr_site(&mut a, &mut ar, enc, ad, fin, "aranges.address");
            a.uint(an, 1 + r.below(0x20));
        }
        a.uint(an, 0).uint(an, 0);
        a.end_length(m);
    }
    ar.raw = a.buf;

    // ---- .debug_pubnames / .debug_pubtypes
    let mut pubs: Vec<TSec> = vec![];
    for which in 0..2 {
        let mut p = TSec::default();
        let mut a = Asm::new(enc.le);
        for _ in 0..1 + r.usize(2) {
            let m = a.begin_length(enc.fmt64);
            a.u16(2);
            p.sites.push((a.len(), word, false, uniq(r, 0x4000, &mut bu), if which == 0 { "pubnames.debug_info_offset" } else { "pubtypes.debug_info_offset" }));
            a.uint(wn, r.below(0x1000));
            a.uint(wn, 0x40 + r.below(0x100));
            for j in 0..1 + r.usize(3) {
                a.uint(wn, 0x0b + r.below(0x30));
                a.cstr(format!("pub{j}").as_bytes());
            }
            a.uint(wn, 0);
            a.end_length(m);
        }
        p.raw = a.buf;
        pubs.push(p);
    }
    let pt = pubs.pop().unwrap();
    let pn = pubs.pop().unwrap();

    let mut secs = BTreeMap::new();
    let mut abs = TSec::default();
    abs.raw = ab.buf;
    secs.insert(".debug_abbrev", abs);
    secs.insert(".debug_info", info);
    secs.insert(".debug_str", strs);
    secs.insert(".debug_str_offsets", so);
    secs.insert(".debug_addr", da);
    secs.insert(".debug_rnglists", rl);
    secs.insert(".debug_loclists", ll);
    secs.insert(".debug_aranges", ar);
    secs.insert(".debug_pubnames", pn);
    secs.insert(".debug_pubtypes", pt);
    let _ = used;
    let desc = format!("{} name_form={name_form:#x} addr_form={addr_form:#x} lists_by_sec_offset={list_sec_offset} nstr={nstr} naddr={naddr} nrl={nrl} nll={nll}", enc.label());
    TCase { enc, secs, desc }
}

fn walk_tables<R: Reader<Offset = usize>>(get: &dyn Fn(&str) -> R) -> BTreeMap<&'static str, Vec<String>> {
    let mut res = BTreeMap::new();
    let mut out = vec![];
    let d = match gimli::Dwarf::load(|id| -> Result<R, gimli::Error> { Ok(get(id.name())) }) {
        Ok(d) => d,
        Err(e) => {
            res.insert("dwarf", vec![format!("load.err {e:?}")]);
            return res;
        }
    };
    let mut it = d.units();
    let mut nu = 0;
    loop {
        nu += 1;
        if nu > 8 {
            out.push("units.limit".into());
            break;
        }
        let h = match it.next() {
            Ok(Some(h)) => h,
            Ok(None) => break,
            Err(e) => {
                out.push(format!("units.err {e:?}"));
                break;
            }
        };
        let unit = match d.unit(h) {
            Ok(u) => u,
            Err(e) => {
                out.push(format!("unit.err {e:?}"));
                continue;
            }
        };
        out.push(format!("unit bases str_offsets={:?} addr={:?} rnglists={:?} loclists={:?} low_pc={:#x} name={:?}", unit.str_offsets_base, unit.addr_base, unit.rnglists_base, unit.loclists_base, unit.low_pc, unit.name.as_ref().map(super::bytes_of)));
        let enc = unit.encoding();
        let mut raw = match unit.entries_raw(None) {
            Ok(r) => r,
            Err(e) => {
                out.push(format!("entries_raw.err {e:?}"));
                continue;
            }
        };
        let mut n = 0;
        while !raw.is_empty() {
            n += 1;
            if n > 500 {
                out.push("entries.limit".into());
                break;
            }
            let ab = match raw.read_abbreviation() {
                Ok(Some(a)) => a,
                Ok(None) => {
                    out.push("null".into());
                    continue;
                }
                Err(e) => {
                    out.push(format!("abbrev.err {e:?}"));
                    break;
                }
            };
            let mut failed = false;
            for spec in ab.attributes() {
                let a = match raw.read_attribute(*spec) {
                    Ok(a) => a,
                    Err(e) => {
                        out.push(format!(" attr.err {e:?}"));
                        failed = true;
                        break;
                    }
                };
                let v = a.value();
                out.push(format!(" at {:#x} raw {} val {}", a.name().0, render_val(&a.raw_value()), render_val(&v)));
                use gimli::AttributeValue as A;
                match &v {
                    A::DebugStrOffsetsIndex(_) | A::DebugStrRef(_) => out.push(format!("  str {}", d.attr_string(&unit, v.clone()).map(|s| super::bytes_of(&s)).unwrap_or_else(|e| format!("E{e:?}")))),
                    A::DebugAddrIndex(_) => out.push(format!("  address {:x?}", d.attr_address(&unit, v.clone()))),
                    A::RangeListsRef(_) | A::DebugRngListsIndex(_) => match d.attr_ranges(&unit, v.clone()) {
                        Ok(Some(mut it)) => {
                            for _ in 0..100 {
                                match it.next() {
                                    Ok(Some(r)) => out.push(format!("  range {:#x}..{:#x}", r.begin, r.end)),
                                    Ok(None) => break,
                                    Err(e) => {
                                        out.push(format!("  ranges.err {e:?}"));
                                        break;
                                    }
                                }
                            }
                        }
                        Ok(None) => out.push("  ranges none".into()),
                        Err(e) => out.push(format!("  attr_ranges.err {e:?}")),
                    },
                    A::LocationListsRef(_) | A::DebugLocListsIndex(_) => match d.attr_locations(&unit, v.clone()) {
                        Ok(Some(mut it)) => {
                            for _ in 0..100 {
                                match it.next() {
                                    Ok(Some(l)) => {
                                        out.push(format!("  loc {:#x}..{:#x} len {}", l.range.begin, l.range.end, l.data.0.len()));
                                        render_ops(&l.data, enc, &mut out, 0);
                                    }
                                    Ok(None) => break,
                                    Err(e) => {
                                        out.push(format!("  locs.err {e:?}"));
                                        break;
                                    }
                                }
                            }
                        }
                        Ok(None) => out.push("  locs none".into()),
                        Err(e) => out.push(format!("  attr_locations.err {e:?}")),
                    },
                    _ => {}
                }
            }
            if failed {
                break;
            }
        }
    }
    res.insert("dwarf", norm(out));

    // .debug_aranges
    let mut out = vec![];
    let mut hs = d.debug_aranges.headers();
    for _ in 0..20 {
        match hs.next() {
            Ok(Some(h)) => {
                out.push(format!("set @{:?} len={:?} enc={:?} info={:?}", h.offset(), h.length(), h.encoding(), h.debug_info_offset()));
                let mut es = h.entries();
                for _ in 0..50 {
                    match es.next_raw() {
                        Ok(Some(e)) => out.push(format!(" arange {:#x}+{:#x}", e.address(), e.length())),
                        Ok(None) => break,
                        Err(e) => {
                            out.push(format!(" entries.err {e:?}"));
                            break;
                        }
                    }
                }
            }
            Ok(None) => break,
            Err(e) => {
                out.push(format!("headers.err {e:?}"));
                break;
            }
        }
    }
    res.insert("aranges", norm(out));

    // .debug_pubnames / .debug_pubtypes
    let mut out = vec![];
    let pn = gimli::DebugPubNames::from(get(".debug_pubnames"));
    let mut it = pn.items();
    for _ in 0..60 {
        match it.next() {
            Ok(Some(e)) => out.push(format!("pubname unit={:?} die={:?} name={}", e.unit_header_offset(), e.die_offset(), super::bytes_of(e.name()))),
            Ok(None) => break,
            Err(e) => {
                out.push(format!("pubnames.err {e:?}"));
                break;
            }
        }
    }
    let pt = gimli::DebugPubTypes::from(get(".debug_pubtypes"));
    let mut it = pt.items();
    for _ in 0..60 {
        match it.next() {
            Ok(Some(e)) => out.push(format!("pubtype unit={:?} die={:?} name={}", e.unit_header_offset(), e.die_offset(), super::bytes_of(e.name()))),
            Ok(None) => break,
            Err(e) => {
                out.push(format!("pubtypes.err {e:?}"));
                break;
            }
        }
    }
    res.insert("pubnames", norm(out));
    res
}

fn judge_tables(ctx: &mut Ctx, case: &TCase) {
    ctx.eval();
    let enc = case.enc;
    let endian = enc.endian();
    let input = || json!({"enc": enc.label(), "desc": case.desc, "sections": case.secs.iter().map(|(k, v)| (k.to_string(), json!({"raw": hex(&v.raw), "sites": format!("{:x?}", v.sites)}))).collect::<serde_json::Map<_, _>>()});
    let input: &dyn Fn() -> serde_json::Value = &input;
    ctx.nontrivial(fnv(case.desc.as_bytes()) ^ case.secs.values().fold(0, |h, s| h ^ fnv(&s.raw)));
    let mut maps: BTreeMap<&'static str, RelocMap> = BTreeMap::new();
    let mut pre: BTreeMap<&'static str, Vec<u8>> = BTreeMap::new();
    for (name, s) in &case.secs {
        let mut m = RelocMap::default();
        let mut b = s.raw.clone();
        for (off, size, _, addend, _) in &s.sites {
            if m.map.insert(*off, (*size, *addend & mask(*size))).is_some() || !apply(&mut b, enc.le, *off, *size, *addend & mask(*size)) {
                ctx.harness_error("c18_asm tables: overlapping or out-of-section site");
                return;
            }
        }
        maps.insert(name, m);
        pre.insert(name, b);
    }
    let empty_map = RelocMap::default();
    let empty: Vec<u8> = vec![];
    let Some(plain) = ctx.guard("asm.tables.plain", input, || walk_tables::<Slice<'_>>(&|n: &str| gimli::EndianSlice::new(pre.get(n).unwrap_or(&empty), endian))) else { return };
    let Some(reloc) = ctx.guard("asm.tables.relocate_reader", input, || walk_tables::<RR<'_>>(&|n: &str| mk(case.secs.get(n).map_or(&empty[..], |s| &s.raw[..]), maps.get(n).unwrap_or(&empty_map), endian))) else { return };
    let mut all_equal = true;
    for (part, a) in &plain {
        let empty_v = vec![];
        let b = reloc.get(part).unwrap_or(&empty_v);
        if a == b {
            continue;
        }
        all_equal = false;
        let i = a.iter().zip(b.iter()).position(|(x, y)| x != y).unwrap_or(a.len().min(b.len()));
        let ctxl = |v: &Vec<String>| v.iter().skip(i.saturating_sub(2)).take(4).cloned().collect::<Vec<_>>();
        ctx.fail(&format!("asm.tables.read.{part}"), &format!("index forms / offset tables ({}): RelocateReader parse of {part} differs from the parse of the pre-applied copy at dump line {i}: pre-applied {:?} / relocating {:?}", enc.label(), ctxl(a), ctxl(b)), input);
    }
    if !all_equal {
        return;
    }
    for k in ["str_offsets", "addr", "rnglists", "loclists", "aranges", "pubnames"] {
        ctx.obs(&format!("asm.tables.{k}.equal"));
    }
    let complete = !plain.values().flatten().any(|l| l.contains(".err") || l.contains(".limit") || l.contains("Err("));
    if !complete {
        ctx.obs("asm.tables.incomplete_parse");
        return;
    }
    let mut ok = true;
    for (name, s) in &case.secs {
        let Some(m) = maps.get(name) else { continue };
        let log = m.log.borrow();
        let seen: BTreeMap<usize, bool> = log.iter().map(|(o, a)| (*o, *a)).collect();
        for (off, size, is_addr, _, what) in &s.sites {
            match seen.get(off) {
                None => {
                    ok = false;
                    ctx.fail(&format!("asm.tables.unvisited.{what}"), &format!("{name}: the relocatable field at {off:#x} (size {size}, {what}) was consumed by the parse but never passed to relocate_address/relocate_offset"), input);
                }
                Some(a) if a != is_addr => {
                    ok = false;
                    ctx.fail(&format!("asm.tables.wrong_hook.{what}"), &format!("{name}: the field at {off:#x} ({what}) went through the wrong relocate hook"), input);
                }
                Some(_) => ctx.obs(&format!("asm.tables.site.{what}")),
            }
        }
        for (o, _) in log.iter() {
            if !m.map.contains_key(o) {
                ctx.obs(&format!("asm.tables.passthrough{name}"));
            }
        }
    }
    if ok {
        ctx.obs("asm.tables.sites.visited");
    }
    ctx.sample("asm.tables", || json!({"desc": case.desc, "dump": plain.get("dwarf").map(|v| v.iter().take(14).cloned().collect::<Vec<_>>())}));
}

fn run_tables(ctx: &mut Ctx) {
    let n = ctx.size(200, 8_000, 6);
    for i in 0..n {
        if !ctx.want("asm.tables", i) {
            continue;
        }
        let mut r = ctx.rng("asm.tables", i);
        // version 5 only: 2 byte orders x 2 formats x 4 address sizes
        let enc = Enc::new(i % 2 == 0, (i / 2) % 2 == 0, 5, [1u8, 2, 4, 8][((i / 4) % 4) as usize]);
        let case = build_tables(&mut r, enc);
        judge_tables(ctx, &case);
    }
}

//! C04 corpus complement: every line-number program of every compiler-built executable
//! (see mon/corpus.rs) is read with gimli and compared with the text printed by
//! `llvm-dwarfdump --debug-line`: header parameters, include_directories, file_names
//! (name, directory index, mtime, length, MD5), and every row (address, line, column,
//! file index and the file name found through the header's file table, isa,
//! discriminator, is_stmt / basic_block / end_sequence / prologue_end / epilogue_begin).
//! Additionally `sequences()` must report the (first address, end address) pairs of the
//! sequences llvm printed, and `resume_from` must reproduce their rows.
//! The external tool is the oracle; every tool failure is `inconclusive`.

use crate::mon::corpus::{self, after, parse_hex, Config, Obj};
use crate::rt::Ctx;
use gimli::{EndianSlice, RunTimeEndian};
use serde_json::json;

type Rd<'a> = EndianSlice<'a, RunTimeEndian>;

#[derive(Debug, Clone, PartialEq, Eq, Default)]
struct HFile {
    index: u64,
    name: String,
    dir_index: u64,
    mod_time: u64,
    length: u64,
    md5: Option<String>,
    source: Option<String>,
}

#[derive(Debug, Clone, PartialEq, Eq, Default)]
struct HParams {
    offset: u64,
    total_length: u64,
    fmt64: bool,
    version: u64,
    /// only printed (and compared) for version 5
    address_size: Option<u64>,
    seg_select_size: Option<u64>,
    prologue_length: u64,
    min_inst_length: u64,
    /// only printed (and compared) for version >= 4
    max_ops_per_inst: Option<u64>,
    default_is_stmt: u64,
    line_base: i64,
    line_range: u64,
    opcode_base: u64,
    std_lengths: Vec<u64>,
}

#[derive(Debug, Clone, PartialEq, Eq, Default)]
struct LRow {
    address: u64,
    line: u64,
    column: u64,
    file: u64,
    isa: u64,
    discriminator: u64,
    is_stmt: bool,
    basic_block: bool,
    end_sequence: bool,
    prologue_end: bool,
    epilogue_begin: bool,
}

#[derive(Debug, Clone, PartialEq, Eq, Default)]
struct LProg {
    params: HParams,
    dirs: Vec<(u64, String)>,
    files: Vec<HFile>,
    rows: Vec<LRow>,
}

fn unquote(s: &str) -> Result<String, String> {
    let s = s.trim();
    let inner = s.strip_prefix('"').and_then(|x| x.strip_suffix('"')).ok_or_else(|| format!("not a quoted string: {s}"))?;
    if inner.contains('\\') {
        return Err(format!("escaped string not supported: {s}"));
    }
    Ok(inner.to_string())
}

fn bracket_index(s: &str) -> Option<u64> {
    let a = s.find('[')?;
    let b = s.find(']')?;
    s.get(a + 1..b)?.trim().parse().ok()
}

/// Parse `llvm-dwarfdump --debug-line` (LLVM 14 layout).
fn parse_dump(text: &str) -> Result<Vec<LProg>, String> {
    let mut out: Vec<LProg> = vec![];
    let mut in_line = false;
    for line in text.lines() {
        if line.starts_with(".debug_line contents:") {
            in_line = true;
            continue;
        }
        if line.starts_with('.') && line.ends_with("contents:") {
            in_line = false;
            continue;
        }
        if !in_line {
            continue;
        }
        if let Some(rest) = line.strip_prefix("debug_line[") {
            let off = rest.strip_suffix(']').and_then(parse_hex).ok_or_else(|| format!("table offset: {line}"))?;
            out.push(LProg { params: HParams { offset: off, ..Default::default() }, ..Default::default() });
            continue;
        }
        let t = line.trim();
        if t.is_empty() || t.starts_with("Line table prologue:") || t.starts_with("Address ") || t.starts_with("------") {
            continue;
        }
        let Some(p) = out.last_mut() else { return Err(format!("text before the first table: {line}")) };
        if line.starts_with("0x") {
            let toks: Vec<&str> = t.split_whitespace().collect();
            if toks.len() < 6 {
                return Err(format!("short row: {line}"));
            }
            let n = |s: &str| s.parse::<u64>().map_err(|_| format!("row number: {line}"));
            let mut r = LRow {
                address: parse_hex(toks[0]).ok_or_else(|| format!("row address: {line}"))?,
                line: n(toks[1])?,
                column: n(toks[2])?,
                file: n(toks[3])?,
                isa: n(toks[4])?,
                discriminator: n(toks[5])?,
                ..Default::default()
            };
            for f in &toks[6..] {
                match *f {
                    "is_stmt" => r.is_stmt = true,
                    "basic_block" => r.basic_block = true,
                    "end_sequence" => r.end_sequence = true,
                    "prologue_end" => r.prologue_end = true,
                    "epilogue_begin" => r.epilogue_begin = true,
                    other => return Err(format!("unknown row flag {other}: {line}")),
                }
            }
            p.rows.push(r);
            continue;
        }
        if t.starts_with("standard_opcode_lengths[") {
            let v = after(t, "] =").ok_or_else(|| format!("opcode length: {line}"))?;
            p.params.std_lengths.push(v.parse::<u64>().map_err(|_| format!("opcode length: {line}"))?);
            continue;
        }
        if t.starts_with("include_directories[") {
            let idx = bracket_index(t).ok_or_else(|| format!("directory index: {line}"))?;
            let v = after(t, "] =").ok_or_else(|| format!("directory: {line}"))?;
            p.dirs.push((idx, unquote(v)?));
            continue;
        }
        if t.starts_with("file_names[") {
            let idx = bracket_index(t).ok_or_else(|| format!("file index: {line}"))?;
            p.files.push(HFile { index: idx, ..Default::default() });
            continue;
        }
        let Some((k, v)) = t.split_once(':') else { return Err(format!("unrecognised line: {line}")) };
        let v = v.trim();
        let hexv = || parse_hex(v).ok_or_else(|| format!("hex value: {line}"));
        let decv = || v.parse::<u64>().map_err(|_| format!("decimal value: {line}"));
        match k.trim() {
            "total_length" => p.params.total_length = hexv()?,
            "format" => p.params.fmt64 = v == "DWARF64",
            "version" => p.params.version = decv()?,
            "address_size" => p.params.address_size = Some(decv()?),
            "seg_select_size" => p.params.seg_select_size = Some(decv()?),
            "prologue_length" => p.params.prologue_length = hexv()?,
            "min_inst_length" => p.params.min_inst_length = decv()?,
            "max_ops_per_inst" => p.params.max_ops_per_inst = Some(decv()?),
            "default_is_stmt" => p.params.default_is_stmt = decv()?,
            "line_base" => p.params.line_base = v.parse::<i64>().map_err(|_| format!("line_base: {line}"))?,
            "line_range" => p.params.line_range = decv()?,
            "opcode_base" => p.params.opcode_base = decv()?,
            "name" | "dir_index" | "mod_time" | "length" | "md5_checksum" | "source" => {
                let Some(f) = p.files.last_mut() else { return Err(format!("file field before file_names: {line}")) };
                match k.trim() {
                    "name" => f.name = unquote(v)?,
                    "dir_index" => f.dir_index = decv()?,
                    "mod_time" => f.mod_time = hexv()?,
                    "length" => f.length = hexv()?,
                    "md5_checksum" => f.md5 = Some(v.to_ascii_lowercase()),
                    _ => f.source = Some(unquote(v)?),
                }
            }
            other => return Err(format!("unrecognised key {other}: {line}")),
        }
    }
    Ok(out)
}

#[derive(Debug, Clone, PartialEq, Eq, Default)]
struct GProg {
    prog: LProg,
    /// name of `header.file(row.file_index())` per row (None = no such file)
    row_file_names: Vec<Option<String>>,
    /// directory of that file through `FileEntry::directory`
    row_file_dirs: Vec<Option<String>>,
    /// (start, end) from sequences()
    sequences: Vec<(u64, u64)>,
    /// rows obtained by resuming each sequence, concatenated in sequence order
    resumed: Vec<LRow>,
    /// number of file_names() / include_directories() entries
    n_files: usize,
    n_dirs: usize,
}

fn row_of(r: &gimli::LineRow) -> LRow {
    LRow {
        address: r.address(),
        line: r.line().map(|l| l.get()).unwrap_or(0),
        column: match r.column() {
            gimli::ColumnType::LeftEdge => 0,
            gimli::ColumnType::Column(c) => c.get(),
        },
        file: r.file_index(),
        isa: r.isa(),
        discriminator: r.discriminator(),
        is_stmt: r.is_stmt(),
        basic_block: r.basic_block(),
        end_sequence: r.end_sequence(),
        prologue_end: r.prologue_end(),
        epilogue_begin: r.epilogue_begin(),
    }
}

fn gimli_tables(obj: &Obj) -> Result<Vec<GProg>, String> {
    let e = obj.endian();
    let line = obj.data(".debug_line");
    let dwarf: gimli::Dwarf<Rd<'_>> = gimli::Dwarf::load(|id| -> Result<Rd<'_>, ()> { Ok(EndianSlice::new(obj.data(id.name()), e)) }).map_err(|_| "load".to_string())?;
    let s = |v: gimli::AttributeValue<Rd<'_>>| -> Result<String, String> {
        let r = dwarf.attr_line_string(v).map_err(|e| format!("attr_line_string: {e:?}"))?;
        Ok(String::from_utf8_lossy(r.slice()).to_string())
    };
    let mut out = vec![];
    let mut off: u64 = 0;
    let mut guard = 0;
    while (off as usize) < line.len() {
        guard += 1;
        if guard > 10_000 {
            return Err("too many line programs".into());
        }
        let prog = dwarf.debug_line.program(gimli::DebugLineOffset(off as usize), obj.address_size(), None, None).map_err(|e| format!("program at {off:#x}: {e:?}"))?;
        let h = prog.header().clone();
        let fmt64 = h.format() == gimli::Format::Dwarf64;
        let version = h.version() as u64;
        let mut p = LProg::default();
        p.params = HParams {
            offset: h.offset().0 as u64,
            total_length: h.unit_length() as u64,
            fmt64,
            version,
            address_size: if version >= 5 { Some(h.address_size() as u64) } else { None },
            seg_select_size: None,
            prologue_length: h.header_length() as u64,
            min_inst_length: h.minimum_instruction_length() as u64,
            max_ops_per_inst: if version >= 4 { Some(h.maximum_operations_per_instruction() as u64) } else { None },
            default_is_stmt: h.default_is_stmt() as u64,
            line_base: h.line_base() as i64,
            line_range: h.line_range() as u64,
            opcode_base: h.opcode_base() as u64,
            std_lengths: h.standard_opcode_lengths().slice().iter().map(|b| *b as u64).collect(),
        };
        // directories and files are fetched by index through directory()/file(), the
        // indices being the DWARF ones (0-based in version 5, 1-based before)
        let first = if version >= 5 { 0u64 } else { 1u64 };
        let n_dirs = h.include_directories().len();
        for k in 0..n_dirs as u64 {
            let idx = first + k;
            let d = h.directory(idx).ok_or_else(|| format!("directory({idx}) is None"))?;
            p.dirs.push((idx, s(d)?));
        }
        let n_files = h.file_names().len();
        for k in 0..n_files as u64 {
            let idx = first + k;
            let f = h.file(idx).ok_or_else(|| format!("file({idx}) is None"))?;
            p.files.push(HFile {
                index: idx,
                name: s(f.path_name())?,
                dir_index: f.directory_index(),
                mod_time: f.timestamp(),
                length: f.size(),
                md5: if h.file_has_md5() { Some(f.md5().iter().map(|b| format!("{b:02x}")).collect()) } else { None },
                source: match f.source() {
                    Some(v) => Some(s(v)?),
                    None => None,
                },
            });
        }
        let mut g = GProg { n_files, n_dirs, ..Default::default() };
        let mut rows = prog.clone().rows();
        loop {
            match rows.next_row() {
                Ok(Some((hd, r))) => {
                    let lr = row_of(r);
                    let fe = r.file(hd);
                    g.row_file_names.push(match fe {
                        Some(f) => Some(s(f.path_name())?),
                        None => None,
                    });
                    g.row_file_dirs.push(match fe.and_then(|f| f.directory(hd)) {
                        Some(d) => Some(s(d)?),
                        None => None,
                    });
                    p.rows.push(lr);
                }
                Ok(None) => break,
                Err(e) => return Err(format!("next_row in table {off:#x}: {e:?}")),
            }
            if p.rows.len() > 2_000_000 {
                return Err("too many rows".into());
            }
        }
        let (complete, seqs) = prog.sequences().map_err(|e| format!("sequences in table {off:#x}: {e:?}"))?;
        for sq in &seqs {
            g.sequences.push((sq.start, sq.end));
            let mut rr = complete.resume_from(sq);
            loop {
                match rr.next_row() {
                    Ok(Some((_, r))) => g.resumed.push(row_of(r)),
                    Ok(None) => break,
                    Err(e) => return Err(format!("resume_from in table {off:#x}: {e:?}")),
                }
                if g.resumed.len() > 2_000_000 {
                    return Err("too many resumed rows".into());
                }
            }
        }
        g.prog = p;
        let total = (h.unit_length() as u64).checked_add(if fmt64 { 12 } else { 4 }).ok_or("length overflow")?;
        off = off.checked_add(total).ok_or("offset overflow")?;
        out.push(g);
    }
    Ok(out)
}

fn compare(ctx: &mut Ctx, label: &str, cfg: &Config, obj: &Obj, expect: &[LProg], got: &[GProg]) {
    let input = || json!({"corpus": label, "debug_line_len": obj.data(".debug_line").len()});
    if expect.len() != got.len() {
        ctx.check_eq("corpus.line.table_count", &expect.iter().map(|p| p.params.offset).collect::<Vec<_>>(), &got.iter().map(|p| p.prog.params.offset).collect::<Vec<_>>(), &input);
        return;
    }
    for (e, g) in expect.iter().zip(got.iter()) {
        let off = e.params.offset;
        let input = || json!({"corpus": label, "table_offset": off, "debug_line_len": obj.data(".debug_line").len()});
        // --- header
        let mut ep = e.params.clone();
        // llvm prints seg_select_size for version 5; gimli has no accessor for it
        ep.seg_select_size = None;
        ctx.check_eq("corpus.line.header", &ep, &g.prog.params, &input);
        ctx.obs(&format!("corpus.line.version.{}", e.params.version));
        if e.params.fmt64 {
            ctx.obs("corpus.line.dwarf64");
        }
        if e.params.address_size == Some(4) || (!obj.is64 && e.params.version < 5) {
            ctx.obs("corpus.line.addr4");
        }
        // --- tables
        ctx.check_eq("corpus.line.directories", &e.dirs, &g.prog.dirs, &input);
        ctx.check_eq("corpus.line.dir_count", &e.dirs.len(), &g.n_dirs, &input);
        ctx.check_eq("corpus.line.files", &e.files, &g.prog.files, &input);
        ctx.check_eq("corpus.line.file_count", &e.files.len(), &g.n_files, &input);
        ctx.obs_n("corpus.line.file_entries", e.files.len() as u64);
        ctx.obs_n("corpus.line.dir_entries", e.dirs.len() as u64);
        if e.files.iter().any(|f| f.md5.is_some()) {
            ctx.obs("corpus.line.md5");
        }
        // --- rows
        if e.rows != g.prog.rows {
            let k = e.rows.iter().zip(g.prog.rows.iter()).position(|(a, b)| a != b).unwrap_or(e.rows.len().min(g.prog.rows.len()));
            ctx.check_eq("corpus.line.rows", &(e.rows.len(), k, e.rows.get(k)), &(g.prog.rows.len(), k, g.prog.rows.get(k)), &input);
        } else {
            // file name of every row through the header's file table
            for (k, r) in e.rows.iter().enumerate() {
                let want = e.files.iter().find(|f| f.index == r.file);
                let want_name = want.map(|f| f.name.clone());
                let have = g.row_file_names.get(k).cloned().flatten();
                if want_name != have {
                    ctx.check_eq("corpus.line.row_file_name", &(k, r.file, want_name), &(k, r.file, have), &input);
                    break;
                }
                if let Some(f) = want {
                    // directory of the row's file: index into include_directories (version 5:
                    // as printed; before: 0 = compilation directory, which the table does not hold)
                    let want_dir = e.dirs.iter().find(|d| d.0 == f.dir_index).map(|d| d.1.clone());
                    let have_dir = g.row_file_dirs.get(k).cloned().flatten();
                    if (e.params.version >= 5 || f.dir_index != 0) && want_dir != have_dir {
                        ctx.check_eq("corpus.line.row_file_dir", &(k, f.dir_index, want_dir), &(k, f.dir_index, have_dir), &input);
                        break;
                    }
                }
            }
            ctx.obs_n("corpus.line.rows", e.rows.len() as u64);
            for r in &e.rows {
                if r.end_sequence {
                    ctx.obs("corpus.line.end_sequence");
                }
                if r.prologue_end {
                    ctx.obs("corpus.line.prologue_end");
                }
                if r.discriminator != 0 {
                    ctx.obs("corpus.line.discriminator");
                }
                if !r.is_stmt {
                    ctx.obs("corpus.line.not_stmt");
                }
                if r.epilogue_begin {
                    ctx.obs("corpus.line.epilogue_begin");
                }
                if r.basic_block {
                    ctx.obs("corpus.line.basic_block");
                }
                if r.file != e.rows[0].file {
                    ctx.obs("corpus.line.file_switch");
                }
            }
        }
        // --- sequences: (first row address, end_sequence address) in program order
        let mut want_seq: Vec<(u64, u64)> = vec![];
        let mut start: Option<u64> = None;
        let mut skip_seq = false;
        for r in &e.rows {
            if r.end_sequence {
                match start {
                    Some(s) => want_seq.push((s, r.address)),
                    // an end_sequence without a preceding row: LineSequence.start is not defined
                    // by the property (C04 assumption); compare nothing for this table
                    None => skip_seq = true,
                }
                start = None;
            } else if start.is_none() {
                start = Some(r.address);
            }
        }
        if !skip_seq {
            ctx.check_eq("corpus.line.sequences", &want_seq, &g.sequences, &input);
            // rows after the last end_sequence belong to no sequence and are not resumed
            let last_end = e.rows.iter().rposition(|r| r.end_sequence).map(|k| k + 1).unwrap_or(0);
            if e.rows[..last_end] != g.resumed[..] {
                let k = e.rows[..last_end].iter().zip(g.resumed.iter()).position(|(a, b)| a != b).unwrap_or(last_end.min(g.resumed.len()));
                ctx.check_eq("corpus.line.resume", &(last_end, k, e.rows.get(k)), &(g.resumed.len(), k, g.resumed.get(k)), &input);
            }
            ctx.obs_n("corpus.line.sequences", want_seq.len() as u64);
        } else {
            ctx.obs("corpus.line.sequences_skipped");
        }
    }
    let _ = cfg;
}

pub fn run(ctx: &mut Ctx) {
    if ctx.slow() {
        return;
    }
    let cfgs = corpus::configs(ctx.quick());
    for (i, cfg) in cfgs.iter().enumerate() {
        if !ctx.want("corpus", i as u64) {
            continue;
        }
        let label = cfg.label();
        let Some(prog) = corpus::build(ctx, cfg) else { continue };
        let Some(obj) = corpus::load_obj(ctx, &prog) else { continue };
        let Some(text) = corpus::dump(ctx, &prog, "debug-line", "llvm-dwarfdump", &["--debug-line"]) else { continue };
        let expect = match parse_dump(&text) {
            Ok(p) if !p.is_empty() => p,
            Ok(_) => {
                ctx.inconclusive(&format!("corpus: {label}: llvm-dwarfdump printed no line table"));
                continue;
            }
            Err(e) => {
                ctx.inconclusive(&format!("corpus: {label}: cannot parse llvm-dwarfdump --debug-line output: {e}"));
                continue;
            }
        };
        ctx.eval();
        let input = || json!({"corpus": label, "debug_line_len": obj.data(".debug_line").len()});
        let Some(got) = ctx.guard("corpus.line", &input, || gimli_tables(&obj)) else { continue };
        let got = match got {
            Ok(g) => g,
            Err(e) => {
                ctx.fail("corpus.line.err", &format!("{label}: gimli failed on a compiler-built line table: {e}"), &input);
                continue;
            }
        };
        ctx.obs("corpus.object");
        ctx.obs(&format!("corpus.cc.{}", cfg.cc));
        ctx.obs(if cfg.lang == corpus::Lang::C { "corpus.lang.c" } else { "corpus.lang.cpp" });
        ctx.obs_n("corpus.line.tables", expect.len() as u64);
        compare(ctx, &label, cfg, &obj, &expect, &got);
        ctx.nontrivial_bytes("c04.corpus", obj.data(".debug_line"));
        if i < 2 {
            ctx.sample("corpus", || {
                json!({"config": label, "tables": expect.len(), "rows": expect.iter().map(|p| p.rows.len()).sum::<usize>(),
                       "first_table": {"version": expect[0].params.version, "files": expect[0].files.iter().map(|f| f.name.clone()).collect::<Vec<_>>(), "first_rows": format!("{:?}", expect[0].rows.iter().take(3).collect::<Vec<_>>())}})
            });
        }
    }
}

//! C19 — filtered conversion output is dependency-closed, complete and minimal.
//!
//! Workload: 1-3 unit forests (built with `gimli::write`, any producer will do) whose
//! non-root entries carry an identity attribute (`DW_AT_name = "u<unit>e<k>"`), with
//! in-unit / cross-unit references from attributes, from expressions and from location
//! lists, cycles, and tag mixes from both back-edge categories.  For every subset of
//! required entries (forests <= 10 entries: all 2^n subsets; larger: sampled subsets) the
//! input is converted through `FilterUnitSection` + `Dwarf::convert_with_filter`, written and
//! read back.
//!
//! Oracle: an independent worklist over the *model* graph (DESIGN.md Appendix A.9): the
//! output entry set (by identity) must equal `closure(required)` (roots are always present);
//! the filtered conversion / `write` must not fail when the unfiltered conversion succeeds
//! (in particular not with InvalidReference / InvalidUnitRef / InvalidDebugInfoRef); no
//! reference in the output may dangle; every retained entry has the same parent and the same
//! attributes (references compared by identity) as in the unfiltered conversion.

use crate::asm::Enc;
use crate::mon::dump::{self, D};
use crate::mon::entries::Secs;
use crate::props::c12::{conv_err_name, identity_address, load, write_dwarf, Slice};
use crate::props::PropInfo;
use crate::rt::{Ctx, Rng};
use gimli::write::{self, AttributeValue, UnitEntryId, UnitId};
use gimli::{constants as c, Register};
use serde_json::{json, Value};
use std::collections::{BTreeSet, HashMap};

#[path = "c19_split.rs"]
mod split;

pub fn info() -> PropInfo {
    PropInfo {
        id: "C19",
        level: "exploration",
        rule: "Seeded forests of 1-3 units with 3-40 non-root entries in total (built with gimli::write, every non-root entry named u<unit>e<k>), containers {subprogram (top level / under a namespace only), structure_type, namespace, lexical_block}, member-like tags {formal_parameter, member, variable, lexical_block}, stand-alone tags {base_type, structure_type, typedef, pointer_type, namespace}; reference edges of kinds attr.unit_ref, attr.debug_info_ref (cross-unit), expr.typed (deref_type/regval_type/const_type/convert/reinterpret), expr.call, expr.call_ref, expr.parameter_ref, loclist.<same kinds>, plus (separate stream, known finding) expr.implicit_pointer / expr.variable_value / expr.entry_value-nested; cycles arise freely.  For forests with <= 10 entries EVERY subset of required entries is converted (2^n filtered conversions per forest), larger forests use {empty, all, every singleton (<= 12), 16 random subsets}.  Each filtered conversion is one evaluation; it is non-trivial when the model closure is neither empty nor everything or the required set is non-empty; distinct by digest of (input sections, required set).  Split-unit filters (props/c19_split.rs): seeded hand-assembled (crate::asm) DWARF 5 skeleton + .dwo pairs (both byte orders, both formats, address sizes 2/4/8; skeleton with DW_AT_dwo_name, non-zero DW_AT_addr_base, DW_AT_low_pc as addrx or addr; .debug_addr = a foreign table of tombstones/zeros followed by the unit's table whose live slots sit between -1 / -2 / zero slots; split unit with 2-12 entries named u0e<k>, same tag convention, .debug_loclists/.debug_rnglists with offset tables, .debug_str_offsets, decoy .debug_addr in the .dwo) loaded with Dwarf::make_dwo; edges through DW_FORM_ref4, exprloc (DW_OP_call4, DW_OP_GNU_parameter_ref, deref_type/regval_type/const_type/convert/reinterpret to top-level base types) and location lists in DW_FORM_loclistx or sec_offset form whose carrying entry is DW_LLE_startx_length, startx_endx, base_addressx+offset_pair, offset_pair relative to the skeleton's low_pc, default_location, start_length or start_end, next to dead entries (tombstone / zero slots, zero length, empty pairs); DW_AT_ranges as rnglistx/sec_offset and DW_AT_low_pc as addrx for the callback observations.  For every subset of required entries (<= 10 entries: all 2^n, else {empty, all, 12 singletons, 16 random}) ConvertUnit::convert_split and FilterUnitSection::new_split + convert_split_with_filter are run, written and read back; each filtered split conversion is one evaluation, non-trivial when the required set is non-empty, distinct by digest of (both files, required set).",
        assumptions: &[
            "exact minimality follows DESIGN.md Appendix A.9: only member-like children (parameters, members, variables, blocks) of non-namespace, non-root parents are pulled in by a retained parent; only tags whose category is unambiguous in the property statement are generated; subprograms occur only at top level or directly under a namespace, where their category does not matter",
            "a filtered conversion may fail only if the unfiltered conversion of the same input fails",
            "roots (unit entries) are always part of the output, with the attributes of the unfiltered conversion",
            "out-of-bounds / non-entry references are not generated (see REPORT.md)",
            "split-unit filters: only DWARF 5 pairs with one split compilation unit loaded through Dwarf::make_dwo (no GNU v4 split units, no DwarfPackage::find_cu, no split type units, no line programs, no DW_FORM_ref_addr / DW_OP_call_ref inside the .dwo); the skeleton root's DW_AT_low_pc is converted onto the output root in both the filtered and the unfiltered run, as the convert example does",
            "split-unit filters: every entry of a location list counts as a reference source, also entries whose address range is a tombstone or empty (the conversion copies their expressions); while c19_split::SKIP_DEAD_ENTRY_REFS is true such references are generated only in the observation-only streams split.known.* (genuine finding, see REPORT.md)",
            "split-unit filters, callback observations: the unit handed to the filter loop (FilterUnit::read_unit, FilterUnitEntry::read_unit) must carry the skeleton's low_pc and addr_base; ranges resolved through it follow DWARF 5 2.17.3 / 7.7.3 with the pinned representation of DW_LLE_default_location as (0, u64::MAX)",
        ],
        exhaustive_subspaces: &["every subset of required entries for every generated forest with <= 10 non-root entries", "every subset of required entries for every generated skeleton + split unit pair with <= 10 entries"],
        must_observe: &[
            "forest.small.exhaustive",
            "forest.large.sampled",
            "forest.units.1",
            "forest.units.2",
            "forest.units.3",
            "edge.attr.unit_ref",
            "edge.attr.debug_info_ref",
            "edge.expr.typed",
            "edge.expr.call",
            "edge.expr.call_ref",
            "edge.expr.parameter_ref",
            "edge.loclist",
            "edge.only_from_expr",
            "edge.only_from_loclist",
            "edge.cross_unit",
            "graph.cycle",
            "backedge.member_like.pulled",
            "backedge.namespace_parent.not_pulled",
            "backedge.standalone_child.not_pulled",
            "closure.proper_subset",
            "filtered.ok",
            "attrs.compared",
            "split.unfiltered.ok",
            "split.filtered.ok",
            "split.subsets.exhaustive",
            "split.subsets.sampled",
            "split.edge.attr.unit_ref",
            "split.edge.expr.call",
            "split.edge.expr.parameter_ref",
            "split.edge.expr.typed",
            "split.edge.lle.startx_length",
            "split.edge.lle.startx_endx",
            "split.edge.lle.base_addressx+offset_pair",
            "split.edge.lle.unit_base+offset_pair",
            "split.edge.lle.default_location",
            "split.edge.lle.start_length",
            "split.edge.lle.start_end",
            "split.edge.list_form.loclistx",
            "split.edge.list_form.sec_offset",
            "split.edge.only_from_indexed_entry",
            "split.graph.cycle",
            "split.closure.proper_subset",
            "split.backedge.member_like.pulled",
            "split.backedge.not_pulled",
            "split.callback.unit_fields",
            "split.callback.address",
            "split.callback.ranges",
            "split.callback.locations",
            "split.attrs.compared",
        ],
        run,
    }
}

/// GENUINE FINDING (see REPORT.md): `FilterUnit::add_expression_refs` does not follow
/// `DW_OP_implicit_pointer`, `DW_OP_GNU_variable_value` and the operations nested inside
/// `DW_OP_entry_value`, so an entry that is referenced only that way is not reserved and the
/// filtered conversion of valid input fails with `InvalidDebugInfoRef` / `InvalidUnitRef`
/// although the unfiltered conversion succeeds.  While `true`, forests of the main streams do
/// not contain these three edge kinds; the stream `known.expr_edges` keeps exercising them
/// and records what it sees as observations (`known.*`) instead of violations.
pub const SKIP_UNFOLLOWED_EXPR_EDGES: bool = false;

// ---------------------------------------------------------------- model

#[derive(Clone, Copy, Debug, PartialEq, Eq)]
enum EdgeKind {
    AttrUnit,
    AttrInfo,
    ExprTyped,
    ExprCall,
    ExprCallRef,
    ExprParamRef,
    ExprImplicitPointer,
    ExprVariableValue,
    ExprNested,
}

impl EdgeKind {
    fn name(self) -> &'static str {
        match self {
            EdgeKind::AttrUnit => "attr.unit_ref",
            EdgeKind::AttrInfo => "attr.debug_info_ref",
            EdgeKind::ExprTyped => "expr.typed",
            EdgeKind::ExprCall => "expr.call",
            EdgeKind::ExprCallRef => "expr.call_ref",
            EdgeKind::ExprParamRef => "expr.parameter_ref",
            EdgeKind::ExprImplicitPointer => "expr.implicit_pointer",
            EdgeKind::ExprVariableValue => "expr.variable_value",
            EdgeKind::ExprNested => "expr.entry_value_nested",
        }
    }
    fn unfollowed(self) -> bool {
        matches!(self, EdgeKind::ExprImplicitPointer | EdgeKind::ExprVariableValue | EdgeKind::ExprNested)
    }
}

#[derive(Clone, Debug)]
struct Edge {
    from: usize,
    to: usize,
    kind: EdgeKind,
    in_loclist: bool,
}

#[derive(Clone, Debug)]
struct Node {
    unit: usize,
    k: usize,
    tag: gimli::DwTag,
    /// parent node index; None = child of the unit root
    parent: Option<usize>,
    name: String,
}

struct Forest {
    enc: Enc,
    nunits: usize,
    nodes: Vec<Node>,
    edges: Vec<Edge>,
    secs: Secs,
}

fn member_like(tag: gimli::DwTag) -> bool {
    matches!(tag, c::DW_TAG_formal_parameter | c::DW_TAG_member | c::DW_TAG_variable | c::DW_TAG_lexical_block)
}

/// Independent worklist (Appendix A.9).
fn closure(f: &Forest, required: &[usize]) -> BTreeSet<usize> {
    let n = f.nodes.len();
    let mut adj: Vec<Vec<usize>> = vec![vec![]; n];
    for (i, nd) in f.nodes.iter().enumerate() {
        if let Some(p) = nd.parent {
            adj[i].push(p);
            if f.nodes[p].tag != c::DW_TAG_namespace && member_like(nd.tag) {
                adj[p].push(i);
            }
        }
    }
    for e in &f.edges {
        adj[e.from].push(e.to);
    }
    let mut seen = vec![false; n];
    let mut work: Vec<usize> = vec![];
    for &r in required {
        if !seen[r] {
            seen[r] = true;
            work.push(r);
        }
    }
    while let Some(x) = work.pop() {
        for &y in &adj[x] {
            if !seen[y] {
                seen[y] = true;
                work.push(y);
            }
        }
    }
    (0..n).filter(|&i| seen[i]).collect()
}

fn has_cycle(f: &Forest) -> bool {
    // reference edges only: is some node reachable from itself?
    let n = f.nodes.len();
    let mut adj: Vec<Vec<usize>> = vec![vec![]; n];
    for e in &f.edges {
        adj[e.from].push(e.to);
    }
    for s in 0..n {
        let mut seen = vec![false; n];
        let mut work = adj[s].clone();
        while let Some(x) = work.pop() {
            if x == s {
                return true;
            }
            if !seen[x] {
                seen[x] = true;
                work.extend(adj[x].iter().copied());
            }
        }
    }
    false
}

// ---------------------------------------------------------------- generator

const CONTAINER_TOP: &[gimli::DwTag] = &[c::DW_TAG_subprogram, c::DW_TAG_structure_type, c::DW_TAG_namespace, c::DW_TAG_namespace];
const CONTAINER_NESTED: &[gimli::DwTag] = &[c::DW_TAG_structure_type, c::DW_TAG_namespace, c::DW_TAG_lexical_block];
const LEAVES: &[gimli::DwTag] = &[
    c::DW_TAG_formal_parameter,
    c::DW_TAG_member,
    c::DW_TAG_variable,
    c::DW_TAG_variable,
    c::DW_TAG_base_type,
    c::DW_TAG_typedef,
    c::DW_TAG_pointer_type,
    c::DW_TAG_structure_type,
];

fn gen_forest(r: &mut Rng, enc: Enc, target_n: usize, allow_unfollowed: bool) -> Option<Forest> {
    let encoding = enc.encoding();
    let nunits = 1 + r.usize(3);
    let mut dw = write::Dwarf::new();
    let mut nodes: Vec<Node> = vec![];
    let mut ids: Vec<(usize, UnitEntryId)> = vec![];
    let mut unit_ids: Vec<UnitId> = vec![];
    let mut base_types: Vec<Vec<usize>> = vec![vec![]; nunits];
    // distribute entries
    let mut per_unit = vec![0usize; nunits];
    for i in 0..target_n {
        if i < nunits {
            per_unit[i] += 1;
        } else {
            per_unit[r.usize(nunits)] += 1;
        }
    }
    for u in 0..nunits {
        let mut unit = write::Unit::new(encoding, write::LineProgram::none());
        let root = unit.root();
        unit.get_mut(root).set(c::DW_AT_name, AttributeValue::String(format!("root{}", u).into_bytes()));
        if r.bool() {
            unit.get_mut(root).set(c::DW_AT_low_pc, AttributeValue::Address(write::Address::Constant(0x10)));
        }
        // containers that may receive children: (node index, entry id, tag)
        let mut open: Vec<(Option<usize>, UnitEntryId, gimli::DwTag)> = vec![(None, root, c::DW_TAG_compile_unit)];
        for k in 0..per_unit[u] {
            let (pnode, pid, ptag) = *r.pick(&open);
            let top = pnode.is_none();
            let tag = if enc.version >= 4 && top && base_types[u].is_empty() && r.chance(1, 2) {
                c::DW_TAG_base_type
            } else if r.chance(2, 5) {
                if top {
                    *r.pick(CONTAINER_TOP)
                } else if ptag == c::DW_TAG_namespace && r.chance(1, 3) {
                    c::DW_TAG_subprogram
                } else {
                    *r.pick(CONTAINER_NESTED)
                }
            } else {
                *r.pick(LEAVES)
            };
            let id = unit.add(pid, tag);
            let name = format!("u{}e{}", u, k);
            unit.get_mut(id).set(c::DW_AT_name, AttributeValue::String(name.clone().into_bytes()));
            let idx = nodes.len();
            nodes.push(Node { unit: u, k, tag, parent: pnode, name });
            if tag == c::DW_TAG_base_type && top {
                base_types[u].push(idx);
            }
            if matches!(tag, c::DW_TAG_subprogram | c::DW_TAG_structure_type | c::DW_TAG_namespace | c::DW_TAG_lexical_block) {
                open.push((Some(idx), id, tag));
            }
            ids.push((u, id));
        }
        let uid = dw.units.add(unit);
        unit_ids.push(uid);
    }
    let ids: Vec<(UnitId, UnitEntryId)> = ids.iter().map(|&(u, e)| (unit_ids[u], e)).collect();
    // ---- edges
    let n = nodes.len();
    let mut edges: Vec<Edge> = vec![];
    let have_base = |u: usize| !base_types[u].is_empty();
    for from in 0..n {
        let u = nodes[from].unit;
        let nedges = match r.below(6) {
            0 | 1 => 0,
            2 | 3 => 1,
            4 => 2,
            _ => 3,
        };
        // attributes available for references on one entry (unique names)
        let mut ref_attrs = vec![c::DW_AT_type, c::DW_AT_specification, c::DW_AT_abstract_origin, c::DW_AT_import, c::DW_AT_containing_type];
        let mut expr_attrs = vec![c::DW_AT_frame_base, c::DW_AT_data_member_location, c::DW_AT_byte_size, c::DW_AT_call_value];
        let mut loc_used = false;
        for _ in 0..nedges {
            let mut kinds = vec![EdgeKind::AttrUnit, EdgeKind::AttrInfo, EdgeKind::ExprCall, EdgeKind::ExprCallRef, EdgeKind::ExprParamRef];
            if enc.version >= 4 && have_base(u) {
                kinds.push(EdgeKind::ExprTyped);
                kinds.push(EdgeKind::ExprTyped);
            }
            if allow_unfollowed {
                kinds.extend([EdgeKind::ExprImplicitPointer, EdgeKind::ExprVariableValue, EdgeKind::ExprNested, EdgeKind::ExprImplicitPointer, EdgeKind::ExprNested]);
            }
            let kind = *r.pick(&kinds);
            // target: same unit for unit-relative kinds, any unit for section-relative kinds
            let same_unit: Vec<usize> = (0..n).filter(|&j| nodes[j].unit == u).collect();
            let to = match kind {
                EdgeKind::AttrUnit | EdgeKind::ExprCall | EdgeKind::ExprParamRef => *r.pick(&same_unit),
                EdgeKind::ExprTyped => *r.pick(&base_types[u]),
                _ => r.usize(n),
            };
            let in_loclist = !matches!(kind, EdgeKind::AttrUnit | EdgeKind::AttrInfo) && !loc_used && r.chance(1, 3);
            // build the value
            let (uid, eid) = ids[from];
            let target = ids[to];
            let make_expr = |r: &mut Rng| -> write::Expression {
                let mut e = write::Expression::new();
                if r.bool() {
                    e.op_breg(Register(6), -8);
                }
                match kind {
                    EdgeKind::ExprTyped => match r.below(5) {
                        0 => e.op_deref_type(4, target.1),
                        1 => e.op_regval_type(Register(3), target.1),
                        2 => e.op_const_type(target.1, vec![1, 2, 3, 4].into_boxed_slice()),
                        3 => e.op_convert(Some(target.1)),
                        _ => e.op_reinterpret(Some(target.1)),
                    },
                    EdgeKind::ExprCall => e.op_call(target.1),
                    EdgeKind::ExprCallRef => e.op_call_ref(write::DebugInfoRef::Entry(target.0, target.1)),
                    EdgeKind::ExprParamRef => e.op_gnu_parameter_ref(target.1),
                    EdgeKind::ExprImplicitPointer => e.op_implicit_pointer(write::DebugInfoRef::Entry(target.0, target.1), 4),
                    EdgeKind::ExprVariableValue => e.op_variable_value(write::DebugInfoRef::Entry(target.0, target.1)),
                    EdgeKind::ExprNested => {
                        let mut inner = write::Expression::new();
                        inner.op_reg(Register(1));
                        inner.op_call_ref(write::DebugInfoRef::Entry(target.0, target.1));
                        e.op_entry_value(inner);
                    }
                    _ => {}
                }
                if r.bool() {
                    e.op(c::DW_OP_stack_value);
                }
                e
            };
            match kind {
                EdgeKind::AttrUnit => {
                    let Some(at) = ref_attrs.pop() else { continue };
                    dw.units.get_mut(uid).get_mut(eid).set(at, AttributeValue::UnitRef(target.1));
                }
                EdgeKind::AttrInfo => {
                    let Some(at) = ref_attrs.pop() else { continue };
                    dw.units.get_mut(uid).get_mut(eid).set(at, AttributeValue::DebugInfoRef(write::DebugInfoRef::Entry(target.0, target.1)));
                }
                _ => {
                    let expr = make_expr(r);
                    if in_loclist {
                        loc_used = true;
                        let mut plain = write::Expression::new();
                        plain.op_reg(Register(0));
                        let list = if enc.version >= 5 && r.chance(1, 3) {
                            // the reference is carried by a DW_LLE_default_location entry only
                            write::LocationList(vec![
                                write::Location::StartLength { begin: write::Address::Constant(0x20), length: 4, data: plain },
                                write::Location::DefaultLocation { data: expr },
                            ])
                        } else if enc.version >= 5 {
                            write::LocationList(vec![
                                write::Location::StartLength { begin: write::Address::Constant(0x20), length: 4, data: plain },
                                write::Location::StartEnd { begin: write::Address::Constant(0x30), end: write::Address::Constant(0x38), data: expr },
                            ])
                        } else {
                            // pre-v5: the list kind depends on whether the unit root has a non-zero low_pc
                            let root = dw.units.get(uid).root();
                            let based = dw.units.get(uid).get(root).get(c::DW_AT_low_pc).is_some();
                            if based {
                                write::LocationList(vec![
                                    write::Location::OffsetPair { begin: 0x20, end: 0x24, data: plain },
                                    write::Location::OffsetPair { begin: 0x30, end: 0x38, data: expr },
                                ])
                            } else {
                                write::LocationList(vec![
                                    write::Location::StartEnd { begin: write::Address::Constant(0x20), end: write::Address::Constant(0x24), data: plain },
                                    write::Location::StartEnd { begin: write::Address::Constant(0x30), end: write::Address::Constant(0x38), data: expr },
                                ])
                            }
                        };
                        let lid = dw.units.get_mut(uid).locations.add(list);
                        dw.units.get_mut(uid).get_mut(eid).set(c::DW_AT_location, AttributeValue::LocationListRef(lid));
                    } else {
                        let Some(at) = expr_attrs.pop() else { continue };
                        dw.units.get_mut(uid).get_mut(eid).set(at, AttributeValue::Exprloc(expr));
                    }
                }
            }
            edges.push(Edge { from, to, kind, in_loclist });
        }
    }
    let secs = write_dwarf(&mut dw, enc.endian()).ok()?;
    Some(Forest { enc, nunits, nodes, edges, secs })
}

// ---------------------------------------------------------------- conversion under test

fn parse_name(b: &[u8]) -> Option<String> {
    let s = std::str::from_utf8(b).ok()?;
    if s.starts_with('u') && s.contains('e') {
        Some(s.to_string())
    } else {
        None
    }
}

/// Filtered conversion: require the entries whose name is in `required`.
fn convert_filtered(dwarf: &gimli::Dwarf<Slice<'_>>, required: &BTreeSet<String>) -> Result<write::Dwarf, write::ConvertError> {
    let mut out = write::Dwarf::new();
    {
        let mut filter = write::FilterUnitSection::new(dwarf)?;
        while let Some(mut unit) = filter.read_unit()? {
            let mut entry = unit.null_entry();
            while unit.read_entry(&mut entry)? {
                let name = match entry.attr_value(c::DW_AT_name) {
                    Some(gimli::AttributeValue::String(s)) => parse_name(s.slice()),
                    _ => None,
                };
                if let Some(nm) = name {
                    if required.contains(&nm) {
                        unit.require_entry(entry.offset);
                    }
                }
            }
        }
        let mut conv = out.convert_with_filter(filter)?;
        while let Some((mut unit, root)) = conv.read_unit()? {
            unit.convert(root, &identity_address)?;
        }
    }
    Ok(out)
}

/// Rewrite `id(u, i)` nodes into entry names.
fn rename_ids(d: &D, names: &HashMap<(u64, u64), String>, depth: usize) -> D {
    if depth > 40 {
        return d.clone();
    }
    match d {
        D::T(t, b) if t == "id" => {
            if let D::L(v) = &**b {
                if let (Some(D::U(u)), Some(D::U(i))) = (v.first(), v.get(1)) {
                    if let Some(n) = names.get(&(*u, *i)) {
                        return D::S(format!("->{}", n));
                    }
                }
            }
            d.clone()
        }
        D::T(t, b) => D::T(t.clone(), Box::new(rename_ids(b, names, depth + 1))),
        D::L(v) => D::L(v.iter().map(|x| rename_ids(x, names, depth + 1)).collect()),
        D::R(f) => D::R(f.iter().map(|(k, x)| (k.clone(), rename_ids(x, names, depth + 1))).collect()),
        other => other.clone(),
    }
}

/// Per-name view of a dump: name -> (parent name, tag, attrs with references by name).
struct View {
    entries: HashMap<String, (String, D, D)>,
    dangling: bool,
    error: Option<String>,
}

fn name_of(entry: &D) -> Option<String> {
    for a in entry.get("attrs")?.list() {
        if let D::T(n, v) = a {
            if n == "DW_AT_name" {
                if let D::T(_, inner) = &**v {
                    if let D::Bytes(b) = &**inner {
                        return parse_name(b);
                    }
                }
            }
        }
    }
    None
}

fn has_dangling(d: &D) -> bool {
    let mut stack = vec![d];
    while let Some(x) = stack.pop() {
        match x {
            D::T(t, b) => {
                if t.starts_with("dangling") {
                    return true;
                }
                stack.push(b);
            }
            D::L(v) => stack.extend(v.iter()),
            D::R(f) => stack.extend(f.iter().map(|(_, v)| v)),
            _ => {}
        }
    }
    false
}

fn view(d: &D) -> View {
    let mut names: HashMap<(u64, u64), String> = HashMap::new();
    let units = d.get("units").map(|u| u.list()).unwrap_or(&[]);
    for (ui, u) in units.iter().enumerate() {
        for (pos, e) in u.get("forest").map(|f| f.list()).unwrap_or(&[]).iter().enumerate() {
            if let Some(n) = name_of(e) {
                names.insert((ui as u64, pos as u64), n);
            }
        }
    }
    let mut entries = HashMap::new();
    for u in units.iter() {
        let mut stack: Vec<(i64, String)> = vec![];
        for e in u.get("forest").map(|f| f.list()).unwrap_or(&[]) {
            let Some(n) = name_of(e) else { continue };
            let depth = match e.get("depth") {
                Some(D::I(x)) => *x,
                _ => 0,
            };
            while let Some((dp, _)) = stack.last() {
                if *dp >= depth {
                    stack.pop();
                } else {
                    break;
                }
            }
            let parent = stack.last().map(|x| x.1.clone()).unwrap_or_default();
            stack.push((depth, n.clone()));
            let attrs = rename_ids(e.get("attrs").unwrap_or(&D::Nil), &names, 0);
            entries.insert(n, (parent, e.get("tag").cloned().unwrap_or(D::Nil), attrs));
        }
    }
    View { entries, dangling: has_dangling(d), error: d.first_error() }
}

// ---------------------------------------------------------------- the check

fn subsets_for(r: &mut Rng, n: usize) -> (Vec<Vec<usize>>, bool) {
    if n <= 10 {
        let mut v = Vec::with_capacity(1 << n);
        for mask in 0u32..(1u32 << n) {
            v.push((0..n).filter(|&i| mask & (1 << i) != 0).collect());
        }
        (v, true)
    } else {
        let mut v: Vec<Vec<usize>> = vec![vec![], (0..n).collect()];
        let mut singles: Vec<usize> = (0..n).collect();
        r.shuffle(&mut singles);
        for &s in singles.iter().take(12) {
            v.push(vec![s]);
        }
        for _ in 0..16 {
            let p = 1 + r.below(4);
            v.push((0..n).filter(|_| r.chance(1, p + 1)).collect());
        }
        (v, false)
    }
}

fn check_forest(ctx: &mut Ctx, f: &Forest, r: &mut Rng, known_stream: bool) {
    let endian = f.enc.endian();
    let n = f.nodes.len();
    let model = || {
        json!({
            "enc": f.enc.label(),
            "nodes": f.nodes.iter().map(|x| json!({"name": x.name, "tag": format!("{}", x.tag), "parent": x.parent.map(|p| f.nodes[p].name.clone())})).collect::<Vec<_>>(),
            "edges": f.edges.iter().map(|e| json!({"from": f.nodes[e.from].name, "to": f.nodes[e.to].name, "kind": e.kind.name(), "in_loclist": e.in_loclist})).collect::<Vec<_>>(),
            "sections": f.secs.json(),
        })
    };
    // ---- unfiltered conversion: the attribute oracle
    let base_input = || json!({"stage": "unfiltered", "model": model()});
    let Some(base) = ctx.guard("convert.unfiltered", &base_input, || -> Result<D, String> {
        let dwarf = load(&f.secs, endian);
        let mut w = write::Dwarf::from(&dwarf, &identity_address).map_err(|e| format!("conv.{}", conv_err_name(&e)))?;
        let out = write_dwarf(&mut w, endian).map_err(|e| format!("write.{}", dump::err_name(&e)))?;
        Ok(dump::dump_dwarf(&load(&out, endian)))
    }) else {
        return;
    };
    let base = match base {
        Ok(d) => d,
        Err(e) => {
            ctx.obs("unfiltered.err");
            ctx.obs(&format!("unfiltered.err.{}", e));
            return;
        }
    };
    let base_view = view(&base);
    if base_view.entries.len() != n {
        let sig = "c19.unfiltered.entry_count";
        ctx.fail(sig, &format!("{}: unfiltered conversion has {} named entries, model has {}", sig, base_view.entries.len(), n), &base_input);
        return;
    }
    // ---- graph facts (observations)
    ctx.obs(&format!("forest.units.{}", f.nunits));
    for e in &f.edges {
        ctx.obs(&format!("edge.{}", e.kind.name()));
        if e.in_loclist {
            ctx.obs("edge.loclist");
        }
        if f.nodes[e.from].unit != f.nodes[e.to].unit {
            ctx.obs("edge.cross_unit");
        }
    }
    for t in 0..n {
        let incoming: Vec<&Edge> = f.edges.iter().filter(|e| e.to == t && e.from != t).collect();
        if !incoming.is_empty() {
            if incoming.iter().all(|e| !matches!(e.kind, EdgeKind::AttrUnit | EdgeKind::AttrInfo) && !e.in_loclist) {
                ctx.obs("edge.only_from_expr");
            }
            if incoming.iter().all(|e| e.in_loclist) {
                ctx.obs("edge.only_from_loclist");
            }
        }
    }
    if has_cycle(f) {
        ctx.obs("graph.cycle");
    }
    let (subsets, exhaustive) = subsets_for(r, n);
    ctx.obs(if exhaustive { "forest.small.exhaustive" } else { "forest.large.sampled" });
    let digest = f.secs.digest();
    for req in &subsets {
        ctx.eval();
        let expect = closure(f, req);
        let req_names: BTreeSet<String> = req.iter().map(|&i| f.nodes[i].name.clone()).collect();
        let expect_names: BTreeSet<String> = expect.iter().map(|&i| f.nodes[i].name.clone()).collect();
        let input = || json!({"required": req_names, "expected_output": expect_names, "model": model()});
        let Some(res) = ctx.guard("convert.filtered", &input, || -> Result<D, String> {
            let dwarf = load(&f.secs, endian);
            let mut w = convert_filtered(&dwarf, &req_names).map_err(|e| format!("conv.{}", conv_err_name(&e)))?;
            let out = write_dwarf(&mut w, endian).map_err(|e| format!("write.{}", dump::err_name(&e)))?;
            Ok(dump::dump_dwarf(&load(&out, endian)))
        }) else {
            continue;
        };
        if !req.is_empty() && expect.len() < n {
            ctx.nontrivial(crate::rt::fnv_add(digest, format!("{:?}", req).as_bytes()));
            ctx.obs("closure.proper_subset");
        } else if !req.is_empty() {
            ctx.nontrivial(crate::rt::fnv_add(digest, format!("{:?}", req).as_bytes()));
        }
        // model-side facts about back edges for this subset
        for (i, nd) in f.nodes.iter().enumerate() {
            if let Some(p) = nd.parent {
                if expect.contains(&p) {
                    if member_like(nd.tag) && f.nodes[p].tag != c::DW_TAG_namespace {
                        ctx.obs("backedge.member_like.pulled");
                    } else if !expect.contains(&i) {
                        if f.nodes[p].tag == c::DW_TAG_namespace && member_like(nd.tag) {
                            ctx.obs("backedge.namespace_parent.not_pulled");
                        } else if !member_like(nd.tag) {
                            ctx.obs("backedge.standalone_child.not_pulled");
                        }
                    }
                }
            }
        }
        let d = match res {
            Err(e) => {
                if known_stream {
                    ctx.obs(&format!("known.filtered.err.{}", e));
                } else {
                    let sig = format!("c19.filtered.err.{}", e);
                    ctx.fail(&sig, &format!("{}: filtered conversion failed although the unfiltered conversion of the same input succeeds", sig), &input);
                }
                continue;
            }
            Ok(d) => d,
        };
        ctx.obs("filtered.ok");
        let v = view(&d);
        let got: BTreeSet<String> = v.entries.keys().cloned().collect();
        if got != expect_names {
            let missing: Vec<&String> = expect_names.difference(&got).collect();
            let extra: Vec<&String> = got.difference(&expect_names).collect();
            if known_stream {
                ctx.obs("known.filtered.set_mismatch");
            } else {
                let sig = if !missing.is_empty() { "c19.output_set.missing" } else { "c19.output_set.extra" };
                ctx.fail(
                    sig,
                    &format!("{}: required {:?}: output lacks {:?} and has unexpected {:?} (model closure has {} entries, output {})", sig, req_names, missing, extra, expect_names.len(), got.len()),
                    &input,
                );
            }
            continue;
        }
        if v.dangling || v.error.is_some() {
            let sig = "c19.output.dangling_reference";
            ctx.fail(sig, &format!("{}: the filtered output contains a dangling reference or an unreadable node ({:?})", sig, v.error), &input);
            continue;
        }
        // units: one per input unit, in order
        let out_units = d.get("units").map(|u| u.list().len()).unwrap_or(0);
        if out_units != f.nunits {
            let sig = "c19.output.unit_count";
            ctx.fail(sig, &format!("{}: {} units in the output, {} in the input", sig, out_units, f.nunits), &input);
            continue;
        }
        // attributes and parents of retained entries equal the unfiltered conversion's
        let mut bad = None;
        for (name, (parent, tag, attrs)) in &v.entries {
            let Some((bp, bt, ba)) = base_view.entries.get(name) else {
                bad = Some(format!("{} is not in the unfiltered output", name));
                break;
            };
            if bp != parent {
                bad = Some(format!("{}: parent {:?} <> unfiltered {:?}", name, parent, bp));
                break;
            }
            if bt != tag {
                bad = Some(format!("{}: tag differs", name));
                break;
            }
            if let Some(diff) = dump::first_diff(ba, attrs) {
                bad = Some(format!("{}: attributes differ from the unfiltered conversion at {}", name, diff));
                break;
            }
            ctx.obs("attrs.compared");
        }
        if let Some(b) = bad {
            let sig = "c19.retained.attributes";
            ctx.fail(sig, &format!("{}: {}", sig, b), &input);
            continue;
        }
        // root attributes
        let roots_equal = {
            let a = base.get("units").map(|u| u.list()).unwrap_or(&[]);
            let b = d.get("units").map(|u| u.list()).unwrap_or(&[]);
            a.iter().zip(b.iter()).all(|(x, y)| {
                let rx = x.get("forest").and_then(|f| f.list().first()).and_then(|e| e.get("attrs"));
                let ry = y.get("forest").and_then(|f| f.list().first()).and_then(|e| e.get("attrs"));
                rx == ry && x.get("header") == y.get("header")
            })
        };
        if !roots_equal {
            let sig = "c19.root.attributes";
            ctx.fail(sig, &format!("{}: unit header / root attributes differ from the unfiltered conversion", sig), &input);
        }
    }
    ctx.sample(if exhaustive { "forest.small" } else { "forest.large" }, || json!({"subsets": subsets.len(), "model": model()}));
}

/// Minimal witness for the known finding: one unit, two top-level variables, e0's
/// DW_AT_location refers to e1 through one operation of `kind`; required = {e0}.
fn witness_forest(enc: Enc, kind: EdgeKind) -> Option<Forest> {
    let mut dw = write::Dwarf::new();
    let mut unit = write::Unit::new(enc.encoding(), write::LineProgram::none());
    let root = unit.root();
    unit.get_mut(root).set(c::DW_AT_name, AttributeValue::String(b"root0".to_vec()));
    let e0 = unit.add(root, c::DW_TAG_variable);
    let e1 = unit.add(root, c::DW_TAG_variable);
    unit.get_mut(e0).set(c::DW_AT_name, AttributeValue::String(b"u0e0".to_vec()));
    unit.get_mut(e1).set(c::DW_AT_name, AttributeValue::String(b"u0e1".to_vec()));
    let uid = dw.units.add(unit);
    let target = write::DebugInfoRef::Entry(uid, e1);
    let mut e = write::Expression::new();
    match kind {
        EdgeKind::ExprImplicitPointer => e.op_implicit_pointer(target, 0),
        EdgeKind::ExprVariableValue => e.op_variable_value(target),
        EdgeKind::ExprNested => {
            let mut inner = write::Expression::new();
            inner.op_call_ref(target);
            e.op_entry_value(inner);
        }
        EdgeKind::ExprCallRef => e.op_call_ref(target),
        _ => return None,
    }
    dw.units.get_mut(uid).get_mut(e0).set(c::DW_AT_location, AttributeValue::Exprloc(e));
    let secs = write_dwarf(&mut dw, enc.endian()).ok()?;
    let nodes = vec![
        Node { unit: 0, k: 0, tag: c::DW_TAG_variable, parent: None, name: "u0e0".into() },
        Node { unit: 0, k: 1, tag: c::DW_TAG_variable, parent: None, name: "u0e1".into() },
    ];
    Some(Forest { enc, nunits: 1, nodes, edges: vec![Edge { from: 0, to: 1, kind, in_loclist: false }], secs })
}

pub fn run(ctx: &mut Ctx) {
    // clause "split-unit filters" (props/c19_split.rs)
    split::run(ctx);
    // minimal witnesses of the known finding (and the control: call_ref, which is followed)
    for (i, kind) in [EdgeKind::ExprCallRef, EdgeKind::ExprImplicitPointer, EdgeKind::ExprVariableValue, EdgeKind::ExprNested].into_iter().enumerate() {
        if !ctx.want_hashed("known.witness", i as u64) {
            continue;
        }
        let enc = Enc::new(true, false, 5, 8);
        if let Some(f) = witness_forest(enc, kind) {
            let mut r = ctx.rng("known.witness", i as u64);
            let before = ctx.obs.get("known.filtered.err.conv.InvalidDebugInfoRef").copied().unwrap_or(0);
            check_forest(ctx, &f, &mut r, kind.unfollowed() && SKIP_UNFOLLOWED_EXPR_EDGES);
            let after = ctx.obs.get("known.filtered.err.conv.InvalidDebugInfoRef").copied().unwrap_or(0);
            ctx.obs(&format!("known.witness.{}.{}", kind.name(), if after > before { "InvalidDebugInfoRef" } else { "ok" }));
            if after > before {
                ctx.sample("known.witness", || json!({"edge": kind.name(), "required": ["u0e0"], "expected_output": ["u0e0", "u0e1"], "observed": "convert_with_filter + ConvertUnit::convert fails with ConvertError::InvalidDebugInfoRef; write::Dwarf::from on the same sections succeeds", "sections": f.secs.json()}));
            }
        }
    }
    // small forests: exhaustive subsets
    let n_small = ctx.size(260, 2600, 4);
    for i in 0..n_small {
        if !ctx.want_hashed("small", i) {
            continue;
        }
        let mut r = ctx.rng("small", i);
        let enc = Enc::nth(r.next());
        let target = 3 + r.usize(8); // 3..=10
        let Some(f) = gen_forest(&mut r, enc, target, !SKIP_UNFOLLOWED_EXPR_EDGES) else {
            ctx.obs("gen.write_failed");
            continue;
        };
        check_forest(ctx, &f, &mut r, false);
    }
    // large forests: sampled subsets
    let n_large = ctx.size(500, 6000, 4);
    for i in 0..n_large {
        if !ctx.want_hashed("large", i) {
            continue;
        }
        let mut r = ctx.rng("large", i);
        let enc = Enc::nth(r.next());
        let target = 11 + r.usize(30); // 11..=40
        let Some(f) = gen_forest(&mut r, enc, target, !SKIP_UNFOLLOWED_EXPR_EDGES) else {
            ctx.obs("gen.write_failed");
            continue;
        };
        check_forest(ctx, &f, &mut r, false);
    }
    // known finding: edge kinds the filter does not follow (observations only while skipped)
    let n_known = ctx.size(60, 400, 4);
    for i in 0..n_known {
        if !ctx.want_hashed("known.expr_edges", i) {
            continue;
        }
        let mut r = ctx.rng("known.expr_edges", i);
        let enc = Enc::nth(r.next());
        let target = 3 + r.usize(6);
        let Some(f) = gen_forest(&mut r, enc, target, true) else {
            ctx.obs("gen.write_failed");
            continue;
        };
        check_forest(ctx, &f, &mut r, SKIP_UNFOLLOWED_EXPR_EDGES);
    }
}

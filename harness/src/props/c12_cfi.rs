//! C12 inputs: hand-assembled `.debug_frame` / `.eh_frame` sections with every call frame
//! instruction, the alignment-factor catalogue and hostile operand values.

use super::check_frame;
use crate::asm::{Asm, Enc};
use crate::rt::{Ctx, Rng};
use serde_json::json;

pub const CODE_FACTORS: &[u64] = &[1, 2, 4, 8, 255, 256, 257];
pub const DATA_FACTORS: &[i64] = &[1, 2, 4, 8, 255, 256, 257, -1, -8, -128, -129];

pub const INSNS: &[&str] = &[
    "advance_loc",
    "advance_loc1",
    "advance_loc2",
    "advance_loc4",
    "offset",
    "offset_extended",
    "offset_extended_sf",
    "restore",
    "restore_extended",
    "undefined",
    "same_value",
    "register",
    "remember_state",
    "restore_state",
    "def_cfa",
    "def_cfa_sf",
    "def_cfa_register",
    "def_cfa_offset",
    "def_cfa_offset_sf",
    "def_cfa_expression",
    "expression",
    "val_expression",
    "val_offset",
    "val_offset_sf",
    "args_size",
    "nop",
    "set_loc",
];

fn small_expr(r: &mut Rng, enc: Enc) -> Vec<u8> {
    let mut a = Asm::new(enc.le);
    match r.below(5) {
        0 => {
            a.u8(0x77).sleb(r.irange(-64, 64)).u8(0x06);
        }
        1 => {
            a.u8(0x0e).u64(3).u8(0x22); // const8u 3 (re-encodes shorter); plus
            a.u8(0x70).sleb(0);
        }
        2 => {
            a.u8(0x31).u8(0x28).u16(1).u8(0x96).u8(0x9f);
        }
        3 => {
            a.u8(0x03).uint(enc.addr as usize, r.below(0x100) & enc.addr_mask()).u8(0x06);
        }
        _ => {
            a.u8(0x91).sleb(r.boundary() as i64).u8(0x23).uleb(r.boundary());
        }
    }
    a.buf
}

struct Gen<'a> {
    r: &'a mut Rng,
    enc: Enc,
    code: u64,
    data: i64,
    /// state of the generated program: depth of remember_state stack
    remembered: u32,
    used: Vec<&'static str>,
    hostile: bool,
    /// sum of the code advances so far / the most the FDE's range field can hold
    advanced: u64,
    budget: u64,
}

impl<'a> Gen<'a> {
    fn reg(&mut self) -> u64 {
        *self.r.pick(&[0u64, 1, 6, 7, 16, 31, 63, 64, 65, 100])
    }
    /// a factored offset whose product with the data factor stays inside i32 (unless hostile)
    fn factored_u(&mut self) -> u64 {
        if self.hostile && self.r.chance(1, 2) {
            return *self.r.pick(&[0x7fff_ffffu64, 0x8000_0000, 0xffff_ffff, 1 << 40, u64::MAX >> 1, u64::MAX]);
        }
        let lim = (0x7fff_0000u64 / self.data.unsigned_abs().max(1)).max(1);
        match self.r.below(4) {
            0 => self.r.below(lim.min(16) + 1),
            1 => lim,
            2 => self.r.below(lim + 1),
            _ => self.r.below(8),
        }
    }
    fn factored_s(&mut self) -> i64 {
        if self.hostile && self.r.chance(1, 2) {
            return *self.r.pick(&[i64::MIN, i64::MAX, 0x8000_0000, -0x8000_0001, 1 << 40, -(1 << 40)]);
        }
        let v = self.factored_u() as i64;
        if self.r.bool() {
            -v
        } else {
            v
        }
    }
    fn unfactored(&mut self) -> u64 {
        if self.hostile && self.r.chance(1, 2) {
            return *self.r.pick(&[0x8000_0000u64, 0xffff_ffff, 1 << 32, u64::MAX]);
        }
        *self.r.pick(&[0u64, 8, 16, 127, 128, 4096, 0x7fff_ffff])
    }
    /// may the program advance by `delta` factored units?  (keeps every row inside the FDE's range)
    fn advance_ok(&mut self, delta: u64) -> bool {
        let add = delta.saturating_mul(self.code);
        if self.advanced.saturating_add(add) > self.budget {
            return false;
        }
        self.advanced += add;
        true
    }
    fn emit(&mut self, a: &mut Asm, what: &'static str) {
        self.used.push(what);
        match what {
            "advance_loc" => {
                let d = 1 + self.r.below(0x3f);
                if self.advance_ok(d) {
                    a.u8(0x40 | d as u8);
                } else {
                    a.u8(0);
                }
            }
            "advance_loc1" => {
                let d = *self.r.pick(&[1u8, 0x3f, 0x40, 0xff]);
                if self.advance_ok(d as u64) {
                    a.u8(0x02).u8(d);
                } else {
                    a.u8(0);
                }
            }
            "advance_loc2" => {
                let d = *self.r.pick(&[1u16, 0x100, 0xffff]);
                if self.advance_ok(d as u64) {
                    a.u8(0x03).u16(d);
                } else {
                    a.u8(0);
                }
            }
            "advance_loc4" => {
                let d = if self.hostile { *self.r.pick(&[0x1_0000u32, 0x7fff_ffff, 0xffff_ffff]) } else { *self.r.pick(&[1u32, 0x1_0000, 0x10_0000]) };
                if self.advance_ok(d as u64) {
                    a.u8(0x04).u32(d);
                } else {
                    a.u8(0);
                }
            }
            "offset" => {
                let reg = self.r.below(0x40);
                let o = self.factored_u();
                a.u8(0x80 | reg as u8).uleb(o);
            }
            "offset_extended" => {
                let reg = self.reg();
                let o = self.factored_u();
                a.u8(0x05).uleb(reg).uleb(o);
            }
            "offset_extended_sf" => {
                let reg = self.reg();
                let o = self.factored_s();
                a.u8(0x11).uleb(reg).sleb(o);
            }
            "restore" => {
                a.u8(0xc0 | self.r.below(0x40) as u8);
            }
            "restore_extended" => {
                let reg = self.reg();
                a.u8(0x06).uleb(reg);
            }
            "undefined" => {
                let reg = self.reg();
                a.u8(0x07).uleb(reg);
            }
            "same_value" => {
                let reg = self.reg();
                a.u8(0x08).uleb(reg);
            }
            "register" => {
                let (x, y) = (self.reg(), self.reg());
                a.u8(0x09).uleb(x).uleb(y);
            }
            "remember_state" => {
                if self.remembered < 3 {
                    a.u8(0x0a);
                    self.remembered += 1;
                } else {
                    a.u8(0x00);
                }
            }
            "restore_state" => {
                if self.remembered == 0 {
                    // keep the program valid: remember first
                    a.u8(0x0a);
                    self.used.push("remember_state");
                    let reg = self.reg();
                    a.u8(0x07).uleb(reg);
                    a.u8(0x0b);
                } else {
                    a.u8(0x0b);
                    self.remembered -= 1;
                }
            }
            "def_cfa" => {
                let reg = self.reg();
                let o = self.unfactored();
                a.u8(0x0c).uleb(reg).uleb(o);
            }
            "def_cfa_sf" => {
                let reg = self.reg();
                let o = self.factored_s();
                a.u8(0x12).uleb(reg).sleb(o);
            }
            "def_cfa_register" => {
                let reg = self.reg();
                a.u8(0x0d).uleb(reg);
            }
            "def_cfa_offset" => {
                let o = self.unfactored();
                a.u8(0x0e).uleb(o);
            }
            "def_cfa_offset_sf" => {
                let o = self.factored_s();
                a.u8(0x13).sleb(o);
            }
            "def_cfa_expression" => {
                let e = small_expr(self.r, self.enc);
                a.u8(0x0f).uleb(e.len() as u64).bytes(&e);
            }
            "expression" => {
                let reg = self.reg();
                let e = small_expr(self.r, self.enc);
                a.u8(0x10).uleb(reg).uleb(e.len() as u64).bytes(&e);
            }
            "val_expression" => {
                let reg = self.reg();
                let e = small_expr(self.r, self.enc);
                a.u8(0x16).uleb(reg).uleb(e.len() as u64).bytes(&e);
            }
            "val_offset" => {
                let reg = self.reg();
                let o = self.factored_u();
                a.u8(0x14).uleb(reg).uleb(o);
            }
            "val_offset_sf" => {
                let reg = self.reg();
                let o = self.factored_s();
                a.u8(0x15).uleb(reg).sleb(o);
            }
            "args_size" => {
                let v = if self.hostile { *self.r.pick(&[0xffff_ffffu64, 1 << 32, u64::MAX]) } else { self.r.small(70000) };
                a.u8(0x2e).uleb(v);
            }
            "set_loc" => {
                a.u8(0x01).uint(self.enc.addr as usize, 0x100);
            }
            _ => {
                a.u8(0x00);
            }
        }
    }
}

fn pad(a: &mut Asm, from: usize, align: usize) {
    // pad the entry (length field excluded / included does not matter for validity) with nops
    while (a.len() - from) % align.max(1) != 0 {
        a.u8(0);
    }
}

#[derive(Clone, Copy, Debug)]
pub struct FrameShape {
    pub eh: bool,
    pub version: u8,
    /// eh_frame augmentation: 0 none, 1 "zR", 2 "zPLR", 3 "zRS", 4 "zLR"
    pub aug: u8,
    pub fde_enc: u8,
}

/// One section: 1-2 CIEs, 1-3 FDEs.  `focus` = instruction that every FDE contains.
fn gen_frame(r: &mut Rng, enc: Enc, shape: FrameShape, code: u64, data: i64, focus: Option<&'static str>, hostile: bool, used: &mut Vec<&'static str>) -> Vec<u8> {
    let w = enc.fmt64;
    let asz = enc.addr as usize;
    let mask = enc.addr_mask();
    let mut a = Asm::new(enc.le);
    a.map = false;
    let ncies = 1 + r.below(2);
    let mut cie_offsets = vec![];
    let mut fde_count = 0;
    for c in 0..ncies {
        // ---- CIE
        let cie_off = a.len();
        cie_offsets.push(cie_off);
        let m = a.begin_length(w);
        if shape.eh {
            a.u32(0);
        } else if w {
            a.u64(u64::MAX);
        } else {
            a.u32(u32::MAX);
        }
        a.u8(shape.version);
        let aug: &[u8] = if shape.eh {
            match shape.aug {
                1 => b"zR",
                2 => b"zPLR",
                3 => b"zRS",
                4 => b"zLR",
                _ => b"",
            }
        } else {
            b""
        };
        a.cstr(aug);
        if shape.version >= 4 {
            a.u8(enc.addr).u8(0);
        }
        let code_f = if c == 0 { code } else { *r.pick(&[1u64, 4]) };
        let data_f = if c == 0 { data } else { *r.pick(&[-8i64, -4, 1]) };
        a.uleb(code_f).sleb(data_f);
        let ra = *r.pick(&[16u64, 30, 14, 0x7f, 0x80, 200]);
        if shape.version == 1 {
            a.u8(ra as u8);
        } else {
            a.uleb(ra);
        }
        let lsda_enc: u8 = *r.pick(&[0x00u8, 0x03, 0x0b, 0x1b]);
        if !aug.is_empty() {
            let mut d = Asm::new(enc.le);
            for ch in &aug[1..] {
                match ch {
                    b'R' => {
                        d.u8(shape.fde_enc);
                    }
                    b'L' => {
                        d.u8(lsda_enc);
                    }
                    b'P' => {
                        let penc = *r.pick(&[0x00u8, 0x03, 0x04, 0x0b, 0x80 | 0x03]);
                        d.u8(penc);
                        let val = 0x1000 + r.below(0x1000);
                        match penc & 0x0f {
                            0x00 => {
                                d.uint(asz, val & mask);
                            }
                            0x03 | 0x0b => {
                                d.u32(val as u32);
                            }
                            _ => {
                                d.u64(val);
                            }
                        }
                    }
                    _ => {}
                }
            }
            a.uleb(d.len() as u64).bytes(&d.buf);
        }
        {
            let mut g = Gen { r: &mut *r, enc, code: code_f, data: data_f, remembered: 0, used: vec![], hostile: false, advanced: 0, budget: 0 };
            // initial instructions: def_cfa r7+8, ra saved at one factored slot
            let mut ia = Asm::new(enc.le);
            ia.u8(0x0c).uleb(7).uleb(8);
            ia.u8(0x80 | 16).uleb(1);
            if g.r.bool() {
                g.emit(&mut ia, "same_value");
            }
            if g.r.chance(1, 3) {
                g.emit(&mut ia, "register");
            }
            a.bytes(&ia.buf);
        }
        pad(&mut a, cie_off, if shape.eh { 4 } else { asz.max(4) });
        a.end_length(m);

        // ---- FDEs of this CIE
        let nf = 1 + r.below(2);
        for f in 0..nf {
            fde_count += 1;
            let fde_off = a.len();
            let m = a.begin_length(w);
            if shape.eh {
                let here = a.len();
                a.u32((here - cie_off) as u32);
            } else {
                a.word(w, cie_off as u64);
            }
            let has_r = shape.eh && aug.contains(&b'R');
            let fenc = if has_r { shape.fde_enc } else { 0 };
            // how large an address range the FDE's range field can hold
            let field_bits: u32 = match fenc & 0x0f {
                0x00 => 8 * asz as u32,
                0x02 | 0x0a => 16,
                0x03 | 0x0b => 32,
                _ => 64,
            };
            let budget: u64 = if field_bits >= 64 { 1u64 << 40 } else { (1u64 << (field_bits - 1)) - 0x200 };
            // and every address must fit the address size
            let budget = budget.min((mask / 2).saturating_sub(0x800));
            // instructions first (their total advance decides the range)
            let mut ia = Asm::new(enc.le);
            let advanced;
            {
                let mut g = Gen { r: &mut *r, enc, code: code_f, data: data_f, remembered: 0, used: vec![], hostile: hostile && f == 0, advanced: 0, budget };
                let n = 2 + g.r.below(8);
                let mut placed = focus.is_none();
                for k in 0..n {
                    let what: &'static str = if !placed && (k == 1 || g.r.chance(1, 3)) {
                        placed = true;
                        focus.unwrap()
                    } else {
                        let mut w2 = *g.r.pick(INSNS);
                        if w2 == "set_loc" {
                            w2 = "nop";
                        }
                        w2
                    };
                    g.emit(&mut ia, what);
                }
                if !placed {
                    g.emit(&mut ia, focus.unwrap());
                }
                advanced = g.advanced;
                used.extend(g.used.iter());
            }
            let start = (0x100 * (fde_count as u64) + r.below(0x40)) & mask;
            let len = advanced + 1 + r.below(0x40);
            // pc_begin
            let field_at = a.len() as u64;
            let app = fenc & 0x70;
            let stored = if app == 0x10 { start.wrapping_sub(field_at) } else { start };
            let put = |a: &mut Asm, fmt: u8, val: u64| match fmt & 0x0f {
                0x00 => {
                    a.uint(asz, val);
                }
                0x01 => {
                    a.uleb(val);
                }
                0x02 | 0x0a => {
                    a.u16(val as u16);
                }
                0x03 | 0x0b => {
                    a.u32(val as u32);
                }
                0x04 | 0x0c => {
                    a.u64(val);
                }
                0x09 => {
                    a.sleb(val as i64);
                }
                _ => {
                    a.uint(asz, val);
                }
            };
            put(&mut a, fenc, stored);
            put(&mut a, fenc, len);
            if !aug.is_empty() {
                let mut d = Asm::new(enc.le);
                if aug.contains(&b'L') {
                    let lsda = 0x2000 + r.below(0x100);
                    let at = a.len() as u64 + 1; // after the 1-byte augmentation length
                    let stored = if lsda_enc & 0x70 == 0x10 { lsda.wrapping_sub(at) } else { lsda };
                    match lsda_enc & 0x0f {
                        0x00 => {
                            d.uint(asz, stored & mask);
                        }
                        _ => {
                            d.u32(stored as u32);
                        }
                    }
                }
                a.uleb(d.len() as u64).bytes(&d.buf);
            }
            a.bytes(&ia.buf);
            pad(&mut a, fde_off, if shape.eh { 4 } else { asz.max(4) });
            a.end_length(m);
        }
    }
    if shape.eh && r.bool() {
        a.u32(0); // terminator
    }
    a.buf
}

fn shapes() -> Vec<FrameShape> {
    vec![
        FrameShape { eh: false, version: 1, aug: 0, fde_enc: 0 },
        FrameShape { eh: false, version: 3, aug: 0, fde_enc: 0 },
        FrameShape { eh: false, version: 4, aug: 0, fde_enc: 0 },
        FrameShape { eh: true, version: 1, aug: 1, fde_enc: 0x1b },
    ]
}

fn run_case(ctx: &mut Ctx, stream: &str, i: u64, enc: Enc, shape: FrameShape, code: u64, data: i64, focus: Option<&'static str>, hostile: bool) {
    let mut r = ctx.rng(stream, i);
    ctx.eval();
    let mut used = vec![];
    let bytes = gen_frame(&mut r, enc, shape, code, data, focus, hostile, &mut used);
    let class = if shape.eh { "asm.cfi.eh_frame" } else { "asm.cfi.debug_frame" };
    let oks = check_frame(ctx, class, &bytes, enc, shape.eh, &|| json!({"shape": format!("{:?}", shape), "code_factor": code, "data_factor": data, "focus": focus, "hostile": hostile}));
    ctx.obs(&format!("cfi.factor.code.{}", code));
    ctx.obs(&format!("cfi.factor.data.{}", data));
    if oks > 0 {
        let mut seen = std::collections::BTreeSet::new();
        for u in &used {
            if seen.insert(*u) {
                ctx.obs(&format!("cfi.insn.{}", u));
            }
        }
        ctx.obs(&format!("cfi.ok.code.{}", code));
        ctx.obs(&format!("cfi.ok.data.{}", data));
    }
    ctx.nontrivial_bytes("cfi", &bytes);
    ctx.sample(class, || json!({"enc": enc.label(), "code": code, "data": data, "focus": focus, "bytes": crate::rt::hex(&bytes)}));
}

pub fn run(ctx: &mut Ctx) {
    // ---- catalogue: every factor pair x every instruction x section shape
    let sh = shapes();
    let total = (CODE_FACTORS.len() * DATA_FACTORS.len() * INSNS.len() * sh.len()) as u64;
    for i in 0..total {
        if !ctx.want_hashed("asm.cfi.cat", i) {
            continue;
        }
        let mut k = i as usize;
        let shape = sh[k % sh.len()];
        k /= sh.len();
        let insn = INSNS[k % INSNS.len()];
        k /= INSNS.len();
        let data = DATA_FACTORS[k % DATA_FACTORS.len()];
        k /= DATA_FACTORS.len();
        let code = CODE_FACTORS[k % CODE_FACTORS.len()];
        let addr = if i % 3 == 0 { 8 } else { 4 };
        let enc = Enc::new(i % 2 == 0, !shape.eh && (i / 2) % 4 == 0, 4, addr);
        run_case(ctx, "asm.cfi.cat", i, enc, shape, code, data, Some(insn), false);
    }
    // ---- random: all shapes incl. augmentations / pointer encodings / hostile operands
    let n = ctx.size(6000, 80_000, 4);
    for i in 0..n {
        if !ctx.want_hashed("asm.cfi", i) {
            continue;
        }
        let mut r = ctx.rng("asm.cfi.shape", i);
        let e0 = Enc::nth(i);
        let addr = if e0.addr == 1 { 4 } else { e0.addr };
        let eh = r.bool();
        let shape = if eh {
            FrameShape {
                eh: true,
                version: *r.pick(&[1u8, 1, 1, 3]),
                aug: r.below(5) as u8,
                fde_enc: *r.pick(&[0x00u8, 0x1b, 0x13, 0x03, 0x0b, 0x04, 0x0c, 0x10, 0x01, 0x09, 0x02, 0x0a, 0x80 | 0x1b]),
            }
        } else {
            FrameShape { eh: false, version: *r.pick(&[1u8, 3, 4]), aug: 0, fde_enc: 0 }
        };
        let enc = Enc::new(e0.le, !eh && e0.fmt64, 4, addr);
        let code = *r.pick(CODE_FACTORS);
        let data = *r.pick(DATA_FACTORS);
        let hostile = r.chance(1, 3);
        run_case(ctx, "asm.cfi", i, enc, shape, code, data, None, hostile);
    }
}

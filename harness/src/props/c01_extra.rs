//! C01: additional seed sources (generators of the other properties) and permanent
//! regression cases for defects that were found and fixed.

use crate::asm::{Asm, Enc, Field, FieldKind};
use crate::gen::{cfi as gcfi, expr as gexpr, index as gindex, info as ginfo, line as gline, lists as glists};
use crate::model::cfi::Bases;
use crate::model::forms;
use crate::model::index::SectKind;
use crate::model::line::{self as mline, Ins as LIns};
use crate::model::lists::{self as mlists, Flavor, Item as LItem};
use crate::mon::entries::{Secs, P};
use crate::props::c01::{run_case, Seed, Slot, ENTRIES};
use crate::rt::{mix64, Ctx, Rng};
use gimli::SectionId;

// ------------------------------------------------------------------ generator seeds

/// The i-th encoding of a generator's rotation: both byte orders and formats within any 4
/// consecutive seeds, all versions and all address sizes within any 8 (phases from `salt`).
fn enc_rot(i: usize, salt: u64) -> Enc {
    let s = mix64(salt);
    let le = (i as u64 + s) % 2 == 0;
    let fmt64 = ((i as u64 / 2) + (s >> 1)) % 2 == 1;
    let version = 2 + ((i as u64 + (s >> 2)) % 4) as u16;
    let addr = [8u8, 4, 2, 1][((i as u64 + i as u64 / 4 + (s >> 4)) % 4) as usize];
    Enc::new(le, fmt64, version, addr)
}

fn shift(fields: &[Field], by: usize) -> Vec<Field> {
    fields.iter().map(|f| Field { off: f.off + by, ..f.clone() }).collect()
}

fn leb_len_at(b: &[u8]) -> usize {
    let mut n = 0;
    while n < b.len() && n < 10 {
        n += 1;
        if b[n - 1] & 0x80 == 0 {
            break;
        }
    }
    n
}

// ---- .debug_line

struct LineOut {
    line: Vec<u8>,
    fields: Vec<Field>,
    line_str: Vec<u8>,
    str_: Vec<u8>,
}

/// Field map of one encoded line-number instruction at absolute offset `off`.
fn line_ins_fields(out: &mut Vec<Field>, off: usize, b: &[u8], ins: &LIns, enc: Enc) {
    if b.is_empty() {
        return;
    }
    out.push(Field { off, len: 1, kind: FieldKind::Opcode, name: "line.opcode" });
    match ins {
        LIns::AdvanceLine(_) => out.push(Field { off: off + 1, len: b.len() - 1, kind: FieldKind::Sleb, name: "line.sleb_operand" }),
        LIns::FixedAdvancePc(_) => out.push(Field { off: off + 1, len: 2, kind: FieldKind::Other, name: "line.u16_operand" }),
        LIns::AdvancePc(_) | LIns::SetFile(_) | LIns::SetColumn(_) | LIns::SetIsa(_) | LIns::UnknownStd(..) => {
            if b.len() > 1 {
                out.push(Field { off: off + 1, len: b.len() - 1, kind: FieldKind::Uleb, name: "line.uleb_operand" });
            }
        }
        LIns::EndSequence { .. } | LIns::SetAddress { .. } | LIns::DefineFile { .. } | LIns::SetDiscriminator { .. } | LIns::UnknownExt(..) => {
            let n = leb_len_at(&b[1..]);
            out.push(Field { off: off + 1, len: n, kind: FieldKind::Length, name: "line.ext_len" });
            let sub = 1 + n;
            if sub < b.len() {
                out.push(Field { off: off + sub, len: 1, kind: FieldKind::Opcode, name: "line.ext_opcode" });
            }
            let p = sub + 1;
            if p < b.len() {
                match ins {
                    LIns::SetAddress { .. } => {
                        let l = (enc.addr as usize).min(b.len() - p);
                        out.push(Field { off: off + p, len: l, kind: FieldKind::Address, name: "line.set_address" });
                    }
                    LIns::SetDiscriminator { .. } => out.push(Field { off: off + p, len: b.len() - p, kind: FieldKind::Uleb, name: "line.discriminator" }),
                    LIns::DefineFile { name, .. } => {
                        let l = name.len().min(b.len() - p);
                        out.push(Field { off: off + p, len: l, kind: FieldKind::Str, name: "line.define_file_name" });
                        let q = p + l + 1;
                        if q < b.len() {
                            out.push(Field { off: off + q, len: b.len() - q, kind: FieldKind::Uleb, name: "line.define_file_operands" });
                        }
                    }
                    _ => out.push(Field { off: off + p, len: b.len() - p, kind: FieldKind::Data, name: "line.ext_payload" }),
                }
            }
        }
        _ => {}
    }
}

/// One line program unit at offset 0 of `.debug_line`.  `style` selects a realistic header
/// (style % 3 != 2) or the sampled, possibly hostile, one; VLIW (maximum_operations > 1) for
/// odd styles in version >= 4.  The program is a seeded random part followed by a fixed tail
/// that contains every standard and extended opcode, incl. a DW_LNE_set_address in the
/// middle of a sequence.
fn mk_line(r: &mut Rng, enc: Enc, style: u64) -> LineOut {
    let mut tabs = gline::Tabs::default();
    let mut h = gline::sample_hdr(r, enc, &mut tabs, gline::HdrOpts { strict_tables: style % 2 == 0, small: true });
    if style % 3 != 2 {
        h.min_inst_len = if style % 4 == 3 { 4 } else { 1 };
        h.line_base = -5;
        h.line_range = 14;
        h.opcode_base = if style % 5 == 4 { 10 } else { 13 };
        h.std_lengths = [0u8, 1, 1, 1, 1, 0, 0, 0, 1, 0, 0, 1][..h.opcode_base as usize - 1].to_vec();
        h.default_is_stmt = true;
        h.default_is_stmt_raw = 1;
        h.pad = vec![];
        h.max_ops = if enc.version >= 4 && style % 2 == 1 { *r.pick(&[2u8, 4, 255]) } else { 1 };
        // two directories and two files that the program's DW_LNS_set_file can refer to, so that
        // the read->write converters accept the unit and reach the writer
        use mline::AV;
        if enc.version <= 4 {
            h.dirs_v4 = vec![b"sub".to_vec()];
            h.files_v4 = vec![(b"a.c".to_vec(), 0, 0, 0), (b"b.c".to_vec(), 1, 3, 4)];
        } else {
            let pf = if style % 4 == 1 { mline::FORM_LINE_STRP } else { mline::FORM_STRING };
            let path = |tabs: &mut gline::Tabs, s: &[u8]| if pf == mline::FORM_LINE_STRP { AV::LineStrp(tabs.line_str.add(s)) } else { AV::Str(s.to_vec()) };
            h.dir_fmt = vec![(mline::LNCT_PATH, pf)];
            h.dirs_v5 = vec![vec![path(&mut tabs, b"/d")], vec![path(&mut tabs, b"sub")]];
            h.file_fmt = vec![(mline::LNCT_PATH, pf), (mline::LNCT_DIRECTORY_INDEX, mline::FORM_UDATA)];
            h.files_v5 = vec![vec![path(&mut tabs, b"a.c"), AV::Udata(0)], vec![path(&mut tabs, b"b.c"), AV::Udata(1)]];
        }
    }
    let n = 4 + r.usize(8);
    let mut random_part = gline::gen_program(r, &h, n, style % 2 == 0, true);
    if style % 3 != 2 {
        // keep file numbers inside the table so that the converters do not stop there
        for i in random_part.iter_mut() {
            if let LIns::SetFile(v) = i {
                *v = if enc.version >= 5 { *v % 2 } else { 1 + *v % 2 };
            }
        }
    }
    let mask = enc.addr_mask();
    let a0 = 0x10 & mask;
    let mut tail = vec![
        LIns::SetAddress { addr: a0, extra: vec![] },
        LIns::Special(h.opcode_base.saturating_add(3)),
        LIns::AdvancePc(3),
        LIns::Copy,
        LIns::SetAddress { addr: (a0 + 0x40) & mask, extra: vec![] },
        LIns::Special(h.opcode_base.saturating_add(1)),
        LIns::AdvanceLine(-2),
        LIns::SetFile(1),
        LIns::SetColumn(7),
        LIns::NegateStmt,
        LIns::SetBasicBlock,
        LIns::Copy,
        LIns::ConstAddPc,
        LIns::FixedAdvancePc(4),
        LIns::SetPrologueEnd,
        LIns::SetEpilogueBegin,
        LIns::SetIsa(2),
        LIns::SetDiscriminator { v: 1, extra: vec![] },
        LIns::Copy,
    ];
    if enc.version <= 4 {
        tail.push(LIns::DefineFile { name: b"f".to_vec(), dir: 0, mtime: 0, size: 0, extra: vec![] });
        tail.push(LIns::AdvancePc(1));
        tail.push(LIns::Copy);
    }
    tail.push(LIns::EndSequence { extra: vec![] });
    // opcodes the header does not define cannot be encoded as such
    tail.retain(|i| match i {
        LIns::Copy => h.has_std(mline::LNS_COPY),
        LIns::AdvancePc(_) => h.has_std(mline::LNS_ADVANCE_PC),
        LIns::AdvanceLine(_) => h.has_std(mline::LNS_ADVANCE_LINE),
        LIns::SetFile(_) => h.has_std(mline::LNS_SET_FILE),
        LIns::SetColumn(_) => h.has_std(mline::LNS_SET_COLUMN),
        LIns::NegateStmt => h.has_std(mline::LNS_NEGATE_STMT),
        LIns::SetBasicBlock => h.has_std(mline::LNS_SET_BASIC_BLOCK),
        LIns::ConstAddPc => h.has_std(mline::LNS_CONST_ADD_PC),
        LIns::FixedAdvancePc(_) => h.has_std(mline::LNS_FIXED_ADVANCE_PC),
        LIns::SetPrologueEnd => h.has_std(mline::LNS_SET_PROLOGUE_END),
        LIns::SetEpilogueBegin => h.has_std(mline::LNS_SET_EPILOGUE_BEGIN),
        LIns::SetIsa(_) => h.has_std(mline::LNS_SET_ISA),
        LIns::Special(op) => *op >= h.opcode_base,
        _ => true,
    });
    // the fixed sequence first: converters stop at the first instruction they do not support
    let mut ins = tail;
    ins.extend(random_part);
    let mut a = Asm::new(enc.le);
    a.map = false;
    let mut spans = vec![];
    for i in &ins {
        let off = a.len();
        gline::emit_ins(&mut a, &h, i, 0);
        spans.push((off, a.len()));
    }
    let built = gline::assemble(&h, &a.buf, &[], &[]);
    let mut fields = built.fields.clone();
    for (i, (s, e)) in ins.iter().zip(&spans) {
        line_ins_fields(&mut fields, built.prog_off + s, &a.buf[*s..*e], i, enc);
    }
    LineOut { line: built.line, fields, line_str: tabs.line_str.bytes, str_: tabs.str_.bytes }
}

fn secoff_form(enc: Enc) -> u16 {
    if enc.version >= 4 {
        forms::F_SEC_OFFSET
    } else if enc.fmt64 {
        forms::F_DATA8
    } else {
        forms::F_DATA4
    }
}

fn line_seeds(ctx: &Ctx, n: usize, out: &mut Vec<Seed>) {
    for i in 0..n {
        let enc = enc_rot(i, ctx.seed ^ 0x11e);
        let mut r = Rng::new(mix64(ctx.seed ^ 0x11e0_0000 ^ i as u64));
        let lo = mk_line(&mut r, enc, i as u64 + ctx.seed % 6);
        // a minimal unit that refers to the program, so that Dwarf::unit and the converters reach it
        let root = glists::DieSpec {
            tag: glists::dwc::TAG_COMPILE_UNIT,
            attrs: vec![
                glists::AttrSpec { name: glists::dwc::AT_NAME, form: glists::dwc::FORM_STRING, val: glists::FormVal::Str(b"n.c".to_vec()) },
                glists::AttrSpec { name: 0x1b, form: glists::dwc::FORM_STRING, val: glists::FormVal::Str(if i % 4 == 3 { vec![] } else { b"/d".to_vec() }) },
                glists::secoff_attr(enc, 0x10, 0),
            ],
        };
        let unit = glists::build_unit(enc, glists::dwc::UT_COMPILE, 0, &root, &[]);
        let mut secs = Secs::default();
        secs.set(SectionId::DebugLine, lo.line);
        secs.set(SectionId::DebugLineStr, lo.line_str);
        secs.set(SectionId::DebugStr, lo.str_);
        secs.set(SectionId::DebugInfo, unit.info);
        secs.set(SectionId::DebugAbbrev, unit.abbrev);
        out.push(Seed {
            name: format!("gl{i}"),
            enc,
            secs,
            origin: "gen.line",
            fields: vec![(Slot::Sec(SectionId::DebugLine), lo.fields)],
            entries: &["line", "conv.line", "dwarf", "conv.dwarf_from", "conv.stepwise"],
        });
    }
}

// ---- .debug_info / .debug_abbrev / .debug_types

fn small_val(r: &mut Rng, form: u16, enc: Enc) -> ginfo::AttrVal {
    let mut v = ginfo::random_val(r, form, enc);
    if let ginfo::Val::Bytes(b) = &mut v.val {
        b.truncate(9);
    }
    v
}

const INFO_NAMES: &[u16] = &[
    0x01, 0x02, 0x03, 0x0b, 0x10, 0x11, 0x12, 0x13, 0x1b, 0x1c, 0x2e, 0x31, 0x3a, 0x40, 0x49, 0x52, 0x55, 0x58, 0x72, 0x73, 0x74, 0x76, 0x8c, 0x2111, 0x2131, 0x2132, 0x2133, 0x2137,
];

fn list_slot(flavor: Flavor) -> SectionId {
    match flavor {
        Flavor::Ranges => SectionId::DebugRanges,
        Flavor::Loc | Flavor::GnuLle => SectionId::DebugLoc,
        Flavor::Rle => SectionId::DebugRngLists,
        Flavor::Lle => SectionId::DebugLocLists,
    }
}

/// Keep expressions short; with `valid` replace them by small well-formed programs (random
/// bytes rarely decode, and the converters parse every expression).
fn shrink_item(it: LItem, valid: bool) -> LItem {
    const GOOD: [&[u8]; 4] = [&[0x50], &[0x91, 0x7c], &[0x75, 0x08, 0x9f], &[0x53, 0x93, 0x04]];
    let fix = move |mut v: Vec<u8>| -> Vec<u8> {
        if valid {
            GOOD[v.len() % 4].to_vec()
        } else {
            v.truncate(5);
            v
        }
    };
    let cut = |d: Option<Vec<u8>>| d.map(fix);
    match it {
        LItem::Pair(a, b, d) => LItem::Pair(a, b, cut(d)),
        LItem::StartxEndx(a, b, d) => LItem::StartxEndx(a, b, cut(d)),
        LItem::StartxLength(a, b, d) => LItem::StartxLength(a, b, cut(d)),
        LItem::OffsetPair(a, b, d) => LItem::OffsetPair(a, b, cut(d)),
        LItem::StartEnd(a, b, d) => LItem::StartEnd(a, b, cut(d)),
        LItem::StartLength(a, b, d) => LItem::StartLength(a, b, cut(d)),
        LItem::Default(v) => LItem::Default(fix(v)),
        other => other,
    }
}

struct ListOut {
    sec: glists::ListSec,
    addr: glists::AddrTable,
}

/// Two lists of `flavor` (offsets table in version 5) and the `.debug_addr` table their index
/// operands refer to.
fn mk_list(r: &mut Rng, enc: Enc, flavor: Flavor, k: usize, n_items: usize, valid_exprs: bool) -> ListOut {
    let mask = enc.addr_mask();
    let entries = glists::gen_addr_entries(r, mask, 4);
    let addr = glists::build_addr_table(r, enc, if enc.version >= 5 { 1 } else { 0 }, &entries);
    let cx = glists::ItemCtx { flavor, addr: enc.addr, addrs: &entries, base: glists::unit_base(k, mask), gnu_v5_kinds: k % 2 == 1 };
    let gen = |r: &mut Rng, n: usize| -> Vec<LItem> {
        glists::gen_items(r, &cx, n).into_iter().map(|it| shrink_item(it, valid_exprs)).filter(|it| glists::encodable(it, flavor, enc.addr)).collect()
    };
    let l0 = gen(r, n_items);
    let l1 = gen(r, 2);
    let sec = glists::build_list_section(r, enc, flavor, &[(l0, true), (l1, k % 3 != 0)], k % 2, true, 0);
    ListOut { sec, addr }
}

fn flavor_for(version: u16, loc: bool, k: usize) -> Flavor {
    match (version >= 5, loc) {
        (true, false) => Flavor::Rle,
        (true, true) => Flavor::Lle,
        (false, false) => Flavor::Ranges,
        (false, true) => {
            if k % 2 == 0 {
                Flavor::Loc
            } else {
                Flavor::GnuLle
            }
        }
    }
}

fn info_seeds(ctx: &Ctx, n: usize, out: &mut Vec<Seed>) {
    use ginfo::{AbbrevDecl, AbbrevTable, AttrDecl, AttrVal, InfoCfg, Item, UnitCfg, UnitKind, Val};
    let all_forms: Vec<u16> = forms::FORMS.iter().map(|f| f.0).filter(|f| *f != forms::F_INDIRECT).collect();
    for i in 0..n {
        let enc = enc_rot(i, ctx.seed ^ 0x1f0);
        let mut r = Rng::new(mix64(ctx.seed ^ 0x1f00_0000 ^ i as u64));
        let mut secs = Secs::default();
        let cfg;
        if i % 2 == 0 {
            // a small but realistic compilation unit with the attributes gimli interprets
            let so = secoff_form(enc);
            let v5 = enc.version >= 5;
            let block = if enc.version >= 4 { forms::F_EXPRLOC } else { forms::F_BLOCK1 };
            let high_form = [forms::F_DATA4, forms::F_UDATA, forms::F_ADDR, forms::F_DATA8, forms::F_DATA1, forms::F_SDATA][(i / 2) % 6];
            let rl = mk_list(&mut r, enc, flavor_for(enc.version, false, i), i, 3, true);
            let ll = mk_list(&mut r, enc, flavor_for(enc.version, true, i / 2), i, 2, true);
            let lo = mk_line(&mut r, enc, 0);
            let mask = enc.addr_mask();
            let low = [0x1000 & mask, mask - 0x20, 0x10, mask >> 1][(i / 2) % 4];
            let mut cu = vec![
                (AttrDecl::new(0x03, forms::F_STRING), AttrVal::new(Val::Bytes(b"a.c".to_vec()))),
                (AttrDecl::new(0x1b, forms::F_STRP), AttrVal::u(0)),
                (AttrDecl::new(0x13, forms::F_DATA2), AttrVal::u(0x0c)),
                (AttrDecl::new(0x11, forms::F_ADDR), AttrVal::u(low)),
                (AttrDecl::new(0x12, high_form), AttrVal::u(if high_form == forms::F_ADDR { low.wrapping_add(0x40) & mask } else { 0x40 })),
                (AttrDecl::new(0x10, so), AttrVal::u(0)),
            ];
            if v5 {
                cu.push((AttrDecl::new(0x72, so), AttrVal::u(8)));
                cu.push((AttrDecl::new(0x73, so), AttrVal::u(rl.addr.base)));
                cu.push((AttrDecl::new(0x74, so), AttrVal::u(rl.sec.table_base)));
                cu.push((AttrDecl::new(0x8c, so), AttrVal::u(ll.sec.table_base)));
            }
            let sub = vec![
                (AttrDecl::new(0x01, forms::F_REF4), AttrVal::new(Val::Ref { item: 4, delta: 0 })),
                (AttrDecl::new(0x03, if v5 { forms::F_STRX1 } else { forms::F_STRP }), AttrVal::u(1)),
                (AttrDecl::new(0x11, if v5 { forms::F_ADDRX } else { forms::F_ADDR }), AttrVal::u(if v5 { 1 } else { low.wrapping_add(4) & mask })),
                (AttrDecl::new(0x12, forms::F_DATA1), AttrVal::u(0x10)),
                (AttrDecl::new(0x40, block), AttrVal::new(Val::Bytes(vec![0x9c]))),
                (AttrDecl::new(0x3a, forms::F_DATA1), AttrVal::u(1)),
            ];
            let mut var = vec![
                (AttrDecl::new(0x03, forms::F_STRING), AttrVal::new(Val::Bytes(b"v".to_vec()))),
                (AttrDecl::new(0x02, block), AttrVal::new(Val::Bytes(vec![0x91, 0x7c, 0x93, 0x04]))),
                (AttrDecl::new(0x49, forms::F_REF_UDATA), AttrVal { leb_len: 2, ..AttrVal::new(Val::Ref { item: 0, delta: 0 }) }),
                (AttrDecl::new(0x0b, forms::F_DATA4), AttrVal::u(4)),
            ];
            if v5 {
                let mut d = AttrDecl::new(0x3b, forms::F_IMPLICIT_CONST);
                d.implicit_const = -3;
                var.push((d, AttrVal::new(Val::Nothing)));
            }
            let (rform, rval) = if v5 && i % 4 == 0 { (forms::F_RNGLISTX, 0) } else { (so, rl.sec.lists[0].off) };
            let (lform, lval) = if v5 && i % 4 == 2 { (forms::F_LOCLISTX, 1) } else { (so, ll.sec.lists[0].off) };
            let blk = vec![(AttrDecl::new(0x55, rform), AttrVal::u(rval)), (AttrDecl::new(0x02, lform), AttrVal::u(lval)), (AttrDecl::new(0x52, forms::F_ADDR), AttrVal::u(low))];
            let mk = |code: u64, tag: u16, children: bool, v: &Vec<(AttrDecl, AttrVal)>| AbbrevDecl { code, tag, children, attrs: v.iter().map(|x| x.0.clone()).collect() };
            let vals = |v: &Vec<(AttrDecl, AttrVal)>| -> Vec<AttrVal> { v.iter().map(|x| x.1.clone()).collect() };
            let table = AbbrevTable { decls: vec![mk(1, 0x11, true, &cu), mk(2, 0x2e, true, &sub), mk(3, 0x34, false, &var), mk(4, 0x0b, false, &blk)], terminated: i % 4 != 2 };
            let items = vec![
                Item::Die { abbrev: 0, vals: vals(&cu), code_len: 0 },
                Item::Die { abbrev: 1, vals: vals(&sub), code_len: 0 },
                Item::Die { abbrev: 2, vals: vals(&var), code_len: 0 },
                Item::Null,
                Item::Die { abbrev: 3, vals: vals(&blk), code_len: 0 },
                Item::Null,
            ];
            let kind = if v5 && i % 8 == 4 { UnitKind::Skeleton } else { UnitKind::Compile };
            cfg = InfoCfg { le: enc.le, tables: vec![table], units: vec![UnitCfg::new(enc, kind, 0, items)], abbrev_lead: 0 };
            secs.set(list_slot(flavor_for(enc.version, false, i)), rl.sec.bytes);
            secs.set(list_slot(flavor_for(enc.version, true, i / 2)), ll.sec.bytes);
            secs.set(SectionId::DebugAddr, rl.addr.bytes);
            secs.set(SectionId::DebugLine, lo.line);
            secs.set(SectionId::DebugLineStr, if lo.line_str.is_empty() { b"ls\0".to_vec() } else { lo.line_str });
        } else {
            // every form over the rotation, in random order, random payloads, 1-2 units of every kind
            let start = (i / 2) * 12 + r.usize(4);
            let mut fi = 0usize;
            let mut decls = vec![];
            for k in 0..4u64 {
                let mut attrs = vec![];
                for _ in 0..3 + r.usize(2) {
                    let form = if r.chance(1, 8) { forms::F_INDIRECT } else { all_forms[(start + fi) % all_forms.len()] };
                    fi += 1;
                    let mut d = AttrDecl::new(*r.pick(INFO_NAMES), form);
                    d.implicit_const = r.boundary() as i64;
                    attrs.push(d);
                }
                r.shuffle(&mut attrs);
                decls.push(AbbrevDecl { code: if k == 3 && r.chance(1, 3) { 0x1_0000_0005 } else { k + 1 }, tag: *r.pick(&[0x11u16, 0x2e, 0x34, 0x0b, 0x24, 0x41, 0x4a, 0x3c]), children: k % 2 == 0, attrs });
            }
            let table = AbbrevTable { decls: decls.clone(), terminated: true };
            let shapes = ginfo::forest_depths(4);
            let mut units = vec![];
            let n_units = 1 + i / 2 % 2;
            for u in 0..n_units {
                let depths = shapes[r.usize(shapes.len())].clone();
                let (items, _) = ginfo::items_from_depths(
                    &depths,
                    &[false, r.chance(1, 3), false, false],
                    |node, flag| {
                        // abbreviations 0 and 2 have the children flag
                        if flag { (node % 2) * 2 } else { 1 + (node % 2) * 2 }
                    },
                    |_| vec![],
                );
                // fill in the values (needs the abbreviation chosen for each node)
                let items: Vec<Item> = items
                    .into_iter()
                    .map(|it| match it {
                        Item::Die { abbrev, code_len, .. } => {
                            let vals = decls[abbrev].attrs.iter().map(|d| small_val(&mut r, d.form, enc)).collect();
                            Item::Die { abbrev, vals, code_len }
                        }
                        x => x,
                    })
                    .collect();
                let kinds: Vec<UnitKind> = UnitKind::ALL.iter().copied().filter(|k| k.valid_for(enc.version)).collect();
                let kind = kinds[(i / 2 + u) % kinds.len()];
                let mut uc = UnitCfg::new(enc, kind, 0, items);
                uc.type_offset = ginfo::TypeOffset::Item(0);
                units.push(uc);
            }
            cfg = InfoCfg { le: enc.le, tables: vec![table], units, abbrev_lead: r.usize(3) };
            let mut a = Asm::new(enc.le);
            for v in [0x10u64, 0x2000, enc.addr_mask(), 0] {
                a.uint(enc.addr as usize, v);
            }
            secs.set(SectionId::DebugAddr, a.buf);
            secs.set(SectionId::DebugLineStr, b"ls\0x\0".to_vec());
        }
        let b = cfg.build();
        secs.set(SectionId::DebugStr, b"/d\0fn\0a-long-name\0\0".to_vec());
        {
            let mut a = Asm::new(enc.le);
            let m = a.begin_length(enc.fmt64);
            a.u16(5).u16(0);
            for v in [0u64, 3, 6, 17] {
                a.word(enc.fmt64, v);
            }
            a.end_length(m);
            secs.set(SectionId::DebugStrOffsets, a.buf);
        }
        let mut fields = vec![(Slot::Sec(SectionId::DebugInfo), b.info_fields.clone()), (Slot::Sec(SectionId::DebugAbbrev), b.abbrev_fields.clone())];
        if !b.debug_types.is_empty() {
            fields.push((Slot::Sec(SectionId::DebugTypes), b.types_fields.clone()));
        }
        secs.set(SectionId::DebugInfo, b.debug_info);
        secs.set(SectionId::DebugAbbrev, b.debug_abbrev);
        secs.set(SectionId::DebugTypes, b.debug_types);
        out.push(Seed { name: format!("gi{i}"), enc, secs, origin: "gen.info", fields, entries: &["units", "abbrevs", "dwarf", "conv.dwarf_from", "conv.stepwise"] });
    }
}

// ---- range / location lists

fn lists_seeds(ctx: &Ctx, n: usize, out: &mut Vec<Seed>) {
    use glists::dwc;
    const FLAVORS: [Flavor; 5] = [Flavor::Rle, Flavor::Lle, Flavor::Ranges, Flavor::Loc, Flavor::GnuLle];
    for i in 0..n {
        let flavor = FLAVORS[i % 5];
        let mut enc = enc_rot(i, ctx.seed ^ 0x115);
        let v5 = matches!(flavor, Flavor::Rle | Flavor::Lle);
        if v5 {
            enc.version = 5;
        } else if enc.version == 5 {
            enc.version = 4;
        }
        let mut r = Rng::new(mix64(ctx.seed ^ 0x1150_0000 ^ i as u64));
        let lo = mk_list(&mut r, enc, flavor, i / 5 + (ctx.seed % 8) as usize, 5, (i / 5) % 2 == 0);
        let mask = enc.addr_mask();
        let base = glists::unit_base(i / 5 + (ctx.seed % 8) as usize, mask);
        let at = if flavor.is_loc() { dwc::AT_LOCATION } else { dwc::AT_RANGES };
        let mut root_attrs = vec![glists::addr_attr(&mut r, enc, dwc::AT_LOW_PC, base, None).0];
        if v5 {
            root_attrs.push(glists::base_attr(dwc::AT_ADDR_BASE, lo.addr.base));
            root_attrs.push(glists::base_attr(if flavor.is_loc() { dwc::AT_LOCLISTS_BASE } else { dwc::AT_RNGLISTS_BASE }, lo.sec.table_base));
        } else if flavor == Flavor::GnuLle {
            root_attrs.push(glists::base_attr(dwc::AT_GNU_ADDR_BASE, lo.addr.base));
        }
        let first = lo.sec.lists.first().map(|l| l.off).unwrap_or(0);
        let second = lo.sec.lists.get(1).map(|l| l.off).unwrap_or(0);
        if v5 && i % 2 == 0 {
            root_attrs.push(glists::AttrSpec { name: at, form: if flavor.is_loc() { dwc::FORM_LOCLISTX } else { dwc::FORM_RNGLISTX }, val: glists::FormVal::Uleb(0) });
        } else {
            root_attrs.push(glists::secoff_attr(enc, at, first));
        }
        let child = glists::DieSpec { tag: if flavor.is_loc() { dwc::TAG_VARIABLE } else { dwc::TAG_LEXICAL_BLOCK }, attrs: vec![glists::secoff_attr(enc, at, second)] };
        let root = glists::DieSpec { tag: dwc::TAG_COMPILE_UNIT, attrs: root_attrs };
        let unit = glists::build_unit(enc, dwc::UT_COMPILE, 0, &root, &[child]);
        let mut secs = Secs::default();
        let slot = list_slot(flavor);
        secs.set(slot, lo.sec.bytes);
        secs.set(SectionId::DebugAddr, lo.addr.bytes);
        secs.set(SectionId::DebugInfo, unit.info);
        secs.set(SectionId::DebugAbbrev, unit.abbrev);
        out.push(Seed { name: format!("gr{i}"), enc, secs, origin: "gen.lists", fields: vec![(Slot::Sec(slot), lo.sec.fields)], entries: &["lists", "dwarf", "conv.dwarf_from", "conv.stepwise"] });
    }
}

// ---- call frame information

fn cfi_catalogue(initial: u64) -> Vec<gcfi::Ins> {
    let mut v = vec![];
    for b in (0x00u8..=0x16).chain([0x2d, 0x2e, 0x41, 0x7f, 0x83, 0xbf, 0xc3]) {
        let x = (b as u64 * 7) % 17;
        let y = match b {
            0x01 => initial.wrapping_add(8),
            0x11 | 0x12 | 0x13 | 0x15 => (-(b as i64) * 3) as u64,
            _ => (b as u64 * 5) % 40,
        };
        v.push(gcfi::Ins::for_opcode_byte(b, x, y));
    }
    v
}

fn cfi_seeds(ctx: &Ctx, n: usize, out: &mut Vec<Seed>) {
    use gcfi::{CieSpec, FdeSpec, HdrSpec, Item, Kind, SectionSpec};
    let augs: [&[u8]; 8] = [b"zR", b"", b"zPLR", b"zRS", b"zLR", b"zP", b"zR", b"eh"];
    let fde_encs = [0x1bu8, 0x00, 0x03, 0x0b, 0x04, 0x01, 0x09, 0x0c, 0x33, 0x23, 0x02];
    let factors = [(1u64, -8i64), (4, -4), (1, 1), (2, -1), (8, 8), (1, -128), (255, 127), (0x40, -0x40)];
    for i in 0..n {
        let enc = enc_rot(i, ctx.seed ^ 0xcf1);
        let mut r = Rng::new(mix64(ctx.seed ^ 0xcf10_0000 ^ i as u64));
        let mask = enc.addr_mask();
        let initial = [0x2000u64, 0x1000, 0x20, mask - 0x50][i % 4] & mask;
        let range = 0x40u64 & mask;
        let cat = cfi_catalogue(initial);
        // every other seed is accepted by write::FrameTable::from (no DW_CFA_set_loc or unknown
        // opcodes, absolute pointer encodings), so that the conversion reaches the writer
        let convertible = i % 2 == 0;
        let pick = |r: &mut Rng, from: usize, k: usize| -> Vec<gcfi::Ins> {
            let mut v: Vec<gcfi::Ins> = (0..k).map(|j| cat[(from + j) % cat.len()].clone()).collect();
            if convertible {
                v.retain(|x| !matches!(x, gcfi::Ins::SetLoc(_) | gcfi::Ins::Raw { .. } | gcfi::Ins::NegateRaState | gcfi::Ins::RestoreState));
            }
            v.insert(r.usize(v.len() + 1), gcfi::Ins::AdvanceLoc(1 + r.below(3) as u8));
            v
        };
        let (ca, da) = factors[(i + (ctx.seed % 8) as usize) % factors.len()];
        let mut secs = Secs::default();
        let mut fields = vec![];
        for kind in [Kind::DebugFrame, Kind::EhFrame] {
            let eh = kind == Kind::EhFrame;
            let from = (i * 11 + if eh { 5 } else { 0 }) % cat.len();
            let cie = CieSpec {
                fmt64: enc.fmt64 && !eh || (eh && i % 5 == 4),
                version: if eh { [1u8, 1, 3][i % 3] } else { [1u8, 3, 4][i % 3] },
                aug: if eh && convertible { [&b"zR"[..], b"", b"zRS", b"zLR"][(i / 2) % 4].to_vec() } else if eh { augs[i % augs.len()].to_vec() } else if i % 4 == 1 { b"zR".to_vec() } else { vec![] },
                v4_addr_size: enc.addr,
                v4_seg_size: 0,
                code_align: ca,
                data_align: da,
                ra: [16u64, 30, 0x81][i % 3],
                lsda_enc: if convertible { [0x00u8, 0x03, 0x0b, 0x04][(i / 2) % 4] } else { [0x00u8, 0x1b, 0x03, 0xff][i % 4] },
                pers_enc: if convertible { [0x00u8, 0x03, 0x04, 0x0b][(i / 2) % 4] } else { [0x00u8, 0x9b, 0x03, 0x04][(i / 2) % 4] },
                pers_target: 0x3000,
                fde_enc: if convertible { [0x00u8, 0x03, 0x0b, 0x04, 0x0c][(i / 2 + (ctx.seed % 5) as usize) % 5] } else { fde_encs[(i + (ctx.seed % 11) as usize) % fde_encs.len()] },
                aug_pad: i % 3 / 2,
                insns: pick(&mut r, from, 4),
                pad_nops: r.usize(4),
            };
            let fde0 = FdeSpec { cie: 0, fmt64: cie.fmt64, initial, range, lsda_target: 0x3100, aug_pad: 0, insns: pick(&mut r, from + 4, 8), pad_nops: r.usize(3) };
            let fde1 = FdeSpec { cie: 0, fmt64: false, initial: initial.wrapping_add(range) & mask, range: 0x10 & mask, lsda_target: 0, aug_pad: 0, insns: pick(&mut r, from + 12, 5), pad_nops: 0 };
            let mut items = vec![Item::Cie(cie), Item::Fde(fde0), Item::Fde(fde1)];
            if eh && i % 2 == 0 {
                items.push(Item::ZeroLength { fmt64: false });
            }
            let spec = SectionSpec {
                kind,
                le: enc.le,
                addr_size: enc.addr,
                aarch64: i % 4 == 3,
                bases: Bases { section: Some(0x1000), text: Some(0x2000), data: Some(0x3000), func: None },
                raw_pointers: false,
                items,
            };
            let built = gcfi::build(&spec);
            if eh {
                let entries: Vec<(u64, u64)> = built.fdes().map(|(_, f)| (f.initial.clone().unwrap_or(initial), 0x1000 + f.offset)).collect();
                let hs = HdrSpec {
                    le: enc.le,
                    addr_size: enc.addr,
                    version: 1,
                    eh_frame_ptr_enc: [0x1bu8, 0x03, 0x04, 0x00, 0x01, 0x0b][i % 6],
                    fde_count_enc: [0x03u8, 0x04, 0x01, 0x02, 0x0c, 0x00][(i + (ctx.seed % 6) as usize) % 6],
                    table_enc: [0x3bu8, 0x03, 0x04, 0x0b, 0x33, 0x3c, 0x1b, 0x01][(i + (ctx.seed % 8) as usize) % 8],
                    eh_frame_addr: 0x1000,
                    entries,
                    bases: Bases { section: Some(0x800), text: Some(0x2000), data: Some(0x800), func: None },
                };
                let hb = gcfi::build_hdr(&hs);
                fields.push((Slot::Sec(SectionId::EhFrameHdr), hb.fields));
                secs.set(SectionId::EhFrameHdr, hb.bytes);
                fields.push((Slot::Sec(SectionId::EhFrame), built.fields));
                secs.set(SectionId::EhFrame, built.bytes);
            } else {
                fields.push((Slot::Sec(SectionId::DebugFrame), built.fields));
                secs.set(SectionId::DebugFrame, built.bytes);
            }
        }
        out.push(Seed { name: format!("gc{i}"), enc, secs, origin: "gen.cfi", fields, entries: &["debug_frame", "eh_frame", "eh_frame_hdr", "conv.frame"] });
    }
}

// ---- index family

fn index_seeds(ctx: &Ctx, n: usize, out: &mut Vec<Seed>) {
    for i in 0..n {
        let enc = enc_rot(i, ctx.seed ^ 0x1d5);
        let mut r = Rng::new(mix64(ctx.seed ^ 0x1d50_0000 ^ i as u64));
        let mut secs = Secs::default();
        let mut fields = vec![];
        let mut put = |secs: &mut Secs, id: SectionId, a: Asm| {
            fields.push((Slot::Sec(id), a.fields));
            secs.set(id, a.buf);
        };
        for (id, version) in [(SectionId::DebugCuIndex, if i % 2 == 0 { 5u16 } else { 2 }), (SectionId::DebugTuIndex, if i % 2 == 0 { 2 } else { 5 })] {
            let mut cols = SectKind::all_for(version);
            r.shuffle(&mut cols);
            cols.truncate(2 + r.usize(2));
            let slots = [4usize, 8, 2, 16][(i / 2) % 4];
            let m = gindex::gen_unit_index(&mut r, version, cols, slots, (slots / 2).min(3), (i + (ctx.seed % 7) as usize) % gindex::KEY_PATTERNS, i % 2);
            put(&mut secs, id, gindex::asm_unit_index(&m, enc.le));
        }
        {
            let o = gindex::NamesOpts { fmt64: enc.fmt64, bucket_count: [2u32, 0, 1, 3][i % 4], n_names: 3, forced_hashes: i % 2 == 1, n_cu: 1 + i % 2, n_local_tu: i % 2, n_foreign_tu: (i / 2) % 2 };
            let mut a = Asm::new(enc.le);
            let mut st = vec![];
            let _ = gindex::gen_name_index(&mut r, &o, &mut a, &mut st);
            put(&mut secs, SectionId::DebugNames, a);
            secs.set(SectionId::DebugStr, st);
        }
        {
            let mut a = Asm::new(enc.le);
            for k in 0..2 {
                let mut set = gindex::gen_arange_set(&mut r, enc.fmt64 && k == 0, enc.addr);
                set.tuples.truncate(4);
                if k == 0 {
                    set.tuples.push((0, 0));
                }
                gindex::asm_arange_set(&mut a, &mut set, 0);
            }
            put(&mut secs, SectionId::DebugAranges, a);
        }
        for id in [SectionId::DebugPubNames, SectionId::DebugPubTypes] {
            let mut a = Asm::new(enc.le);
            let mut set = gindex::gen_pub_set(&mut r, enc.fmt64);
            set.entries.truncate(3);
            gindex::asm_pub_set(&mut a, &set, i % 3 != 2, &[]);
            let set2 = gindex::gen_pub_set(&mut r, false);
            gindex::asm_pub_set(&mut a, &gimli_free_truncate(set2), true, &[0xaa; 2][..i % 3]);
            put(&mut secs, id, a);
        }
        let (a, _) = gindex::gen_str_offsets(&mut r, enc.le);
        put(&mut secs, SectionId::DebugStrOffsets, a);
        let (a, _) = gindex::gen_addr(&mut r, enc.le);
        put(&mut secs, SectionId::DebugAddr, a);
        out.push(Seed { name: format!("gx{i}"), enc, secs, origin: "gen.index", fields, entries: &["index", "names", "aranges", "pubs", "tables"] });
    }
}

fn gimli_free_truncate(mut s: crate::model::index::PubSetM) -> crate::model::index::PubSetM {
    s.entries.truncate(2);
    s
}

// ---- expressions

fn expr_seeds(ctx: &Ctx, n: usize, out: &mut Vec<Seed>) {
    for i in 0..n {
        let enc = enc_rot(i, ctx.seed ^ 0xe59);
        let mut r = Rng::new(mix64(ctx.seed ^ 0xe590_0000 ^ i as u64));
        let mut best: Option<(Vec<u8>, Vec<usize>)> = None;
        for attempt in 0..6usize {
            let with_loc = i % 3 == 0;
            let snippets = (5usize.saturating_sub(attempt)).max(1);
            let mut b = gexpr::Builder::new(enc, &mut r, 1);
            for _ in 0..snippets {
                b.snippet();
            }
            if with_loc {
                b.location_tail();
            }
            let (bytes, offs) = b.finish();
            let better = best.as_ref().map_or(true, |x| bytes.len() < x.0.len());
            if better && !bytes.is_empty() {
                best = Some((bytes, offs));
            }
            if best.as_ref().map_or(false, |x| x.0.len() <= 120) {
                break;
            }
        }
        let Some((bytes, offs)) = best else { continue };
        let mut fields = vec![];
        for (k, &o) in offs.iter().enumerate() {
            let end = offs.get(k + 1).copied().unwrap_or(bytes.len());
            if o >= end {
                continue;
            }
            fields.push(Field { off: o, len: 1, kind: FieldKind::Opcode, name: "expr.opcode" });
            if end - o > 1 {
                fields.push(Field { off: o + 1, len: end - o - 1, kind: FieldKind::Uleb, name: "expr.operands" });
                if matches!(end - o - 1, 1 | 2 | 4 | 8) {
                    fields.push(Field { off: o + 1, len: end - o - 1, kind: FieldKind::Other, name: "expr.fixed_operand" });
                }
            }
        }
        let mut secs = Secs::default();
        secs.expr = bytes;
        out.push(Seed { name: format!("ge{i}"), enc, secs, origin: "gen.expr", fields: vec![(Slot::Expr, fields)], entries: &["expr"] });
    }
}

/// Seeds produced by the section generators of the other property modules: a deterministic
/// (in `ctx.seed`), bounded set per generator, each section a few hundred bytes at most.
pub fn extra_seeds(ctx: &Ctx) -> Vec<Seed> {
    let q = ctx.quick();
    let mut out = vec![];
    info_seeds(ctx, if q { 8 } else { 32 }, &mut out);
    line_seeds(ctx, if q { 8 } else { 32 }, &mut out);
    cfi_seeds(ctx, if q { 8 } else { 32 }, &mut out);
    lists_seeds(ctx, if q { 10 } else { 40 }, &mut out);
    index_seeds(ctx, if q { 4 } else { 16 }, &mut out);
    expr_seeds(ctx, if q { 8 } else { 32 }, &mut out);
    let _ = shift;
    out
}

fn entry(name: &str) -> &'static crate::props::c01::Entry {
    ENTRIES.iter().find(|e| e.name == name).unwrap()
}

/// Witnesses of fixed (and open) defects, kept in the quick tier for ever.
/// Stream "regress", one index per witness.
pub fn regressions(ctx: &mut Ctx) {
    let enc = Enc::new(true, false, 4, 8);
    let p = P { enc, dwo: false, aarch64: false, seed: 1 };
    let mut cases: Vec<(&'static str, &'static str, Secs, P)> = vec![];
    // DW_OP_piece 2^61
    {
        let mut s = Secs::default();
        let mut a = Asm::new(true);
        a.u8(0x93).uleb(1 << 61).u8(0x50).u8(0x93).uleb(u64::MAX);
        s.expr = a.buf;
        cases.push(("expr", "DW_OP_piece 2^61", s, p));
    }
    // .eh_frame_hdr with fde_count 2^63 / 2^61, table pointer below eh_frame_ptr
    for count in [1u64 << 63, 1 << 61, u64::MAX] {
        let mut s = Secs::default();
        let mut a = Asm::new(true);
        a.u8(1).u8(0x03).u8(0x04).u8(0x03);
        a.u32(0x1000).u64(count);
        a.u32(0x800).u32(0x10).u32(0x900).u32(0x1018);
        s.set(SectionId::EhFrameHdr, a.buf);
        s.set(SectionId::EhFrame, vec![0u8; 64]);
        cases.push(("eh_frame_hdr", "eh_frame_hdr absurd fde_count / pointer below eh_frame_ptr", s, p));
    }
    // index forms with huge indices are exercised by entry `tables`/`lists` on any input
    cases.push(("tables", "get_address/get_str_offset index*size overflow", Secs::default(), p));
    cases.push(("lists", "get_offset index*size and base+entry overflow", {
        let mut s = Secs::default();
        let mut a = Asm::new(true);
        a.u32(0).u16(5).u8(8).u8(0).u32(1);
        a.u32(0xffff_fff0).u32(0xffff_ffff);
        s.set(SectionId::DebugRngLists, a.buf.clone());
        s.set(SectionId::DebugLocLists, a.buf);
        s
    }, P { enc: Enc::new(true, false, 5, 8), ..p }));
    // rnglists startx_length with index 2^61 through .debug_addr
    {
        let mut s = Secs::default();
        s.set(SectionId::DebugRngLists, vec![0x03, 0x80, 0x80, 0x80, 0x80, 0x80, 0x80, 0x80, 0x80, 0x20, 0x05, 0x00]);
        let mut a = Asm::new(true);
        a.u64(0x11).u64(0x22);
        s.set(SectionId::DebugAddr, a.buf);
        cases.push(("lists", "DW_RLE_startx_length index 2^61", s, P { enc: Enc::new(true, false, 5, 8), ..p }));
    }
    // line: advance_line i64::MIN; partial tombstone; hostile header line_base -128 range 1
    for (lb, lr, name) in [(0xfbu8, 14u8, "advance_line i64::MIN + partial tombstone"), (0x80, 1, "line_base -128 line_range 1"), (0x80, 255, "line_base -128 line_range 255")] {
        let mut a = Asm::new(true);
        let m = a.begin_length(false);
        a.u16(4);
        let hl = a.len();
        a.u32(0);
        let hs = a.len();
        a.u8(1).u8(1).u8(1).u8(lb).u8(lr).u8(13);
        for l in [0u8, 1, 1, 1, 1, 0, 0, 0, 1, 0, 0, 1] {
            a.u8(l);
        }
        a.u8(0);
        a.cstr(b"f.c").uleb(0).uleb(0).uleb(0);
        a.u8(0);
        let hlen = (a.len() - hs) as u64;
        a.patch_uint(hl, 4, hlen);
        a.u8(0).uleb(9).u8(2).u64(0x1000);
        a.u8(3).sleb(i64::MIN).u8(1);
        a.u8(0).uleb(9).u8(2).u64(0x10);
        a.u8(2).uleb(4).u8(1).u8(0xff);
        a.u8(0).uleb(1).u8(1);
        a.u8(0).uleb(9).u8(2).u64(0x20);
        a.u8(1).u8(2).uleb(8);
        // DW_LNE_define_file with an empty name, then end_sequence
        a.u8(0).uleb(5).u8(3).u8(0).uleb(0).uleb(0).uleb(0);
        a.u8(0).uleb(1).u8(1);
        a.end_length(m);
        let mut s = Secs::default();
        s.set(SectionId::DebugLine, a.buf);
        cases.push(("line", name, s.clone(), p));
        cases.push(("conv.line", name, s, p));
    }
    // fix ee1744a (found by the gen::line seeds of this check): a row address that is not a
    // multiple of minimum_instruction_length (DW_LNS_fixed_advance_pc is not scaled; a
    // mid-sequence DW_LNE_set_address need not be aligned) tripped a debug assertion in
    // write::LineProgram::op_advance during conversion (silent truncation in release builds)
    for (mil, mid_set_address) in [(4u8, false), (4, true), (0xf0, false), (0, false)] {
        let mut a = Asm::new(true);
        let m = a.begin_length(false);
        a.u16(4);
        let hl = a.len();
        a.u32(0);
        let hs = a.len();
        a.u8(mil).u8(2).u8(1).u8(0xfb).u8(14).u8(13);
        for l in [0u8, 1, 1, 1, 1, 0, 0, 0, 1, 0, 0, 1] {
            a.u8(l);
        }
        a.u8(0);
        a.cstr(b"f.c").uleb(0).uleb(0).uleb(0);
        a.u8(0);
        let hlen = (a.len() - hs) as u64;
        a.patch_uint(hl, 4, hlen);
        a.u8(0).uleb(9).u8(2).u64(0x1000);
        a.u8(1);
        if mid_set_address {
            a.u8(0).uleb(9).u8(2).u64(0x1006);
        } else {
            a.u8(9).u16(2);
        }
        a.u8(1).u8(2).uleb(3).u8(1);
        a.u8(0).uleb(1).u8(1);
        a.end_length(m);
        let mut s = Secs::default();
        s.set(SectionId::DebugLine, a.buf);
        cases.push(("conv.line", "row address not a multiple of minimum_instruction_length", s.clone(), p));
        cases.push(("line", "row address not a multiple of minimum_instruction_length", s, p));
    }
    // fixes a0172f1 (A), c588a77 (B) and the line_advance fix (C), all found by this check's gen::line
    // seeds: (A) VLIW rows converted into a target encoding with fewer operations per
    // instruction, (B) a sequence tombstoned part-way, (C) a row with line >= 2^63 after a small one
    {
        let unhex = crate::rt::unhex;
        let info = "0000001300040000000004016e2e63002f640000000000";
        let abbrev = "01110003081b081017000000";
        let a_line = "77000000050004002a000000010801fb0e0a000101010100000001010108022f640073756200020108020f02612e630000622e630001000502100000000d020301000502500000000b037e0401050706070108090400000204010100010166a7010700050241000000a906000403e7c9ab9a000303650601000101";
        let b_line = "0000006c000400000026040201fb0e0d0001010101000000010000017375620000612e6300000000622e6300010304000005020000001010020301000502ffffffff0e037e04010507060701080900040a0b0c02000204010100060366000000000201010001010101560bf501000101";
        let c_line = "0000007c0003000000250101fb0e0d0001010101000000010000017375620000612e6300000000622e6300010304000005020000001010020301000502000000500e037e04010507060701080900040a0b0c02000204010100060366000000000201010001010c81800409635d03ffffffffffffffffff009e010bf201000101";
        let mut s = Secs::default();
        s.set(SectionId::DebugLine, unhex(a_line));
        cases.push(("conv.line", "VLIW rows into a target line encoding with maximum_operations_per_instruction 1", s, P { enc: Enc::new(true, false, 5, 4), ..p }));
        let mut s = Secs::default();
        s.set(SectionId::DebugLine, unhex(b_line));
        cases.push(("conv.line", "sequence tombstoned part-way, then another sequence", s.clone(), P { enc: Enc::new(false, false, 4, 4), ..p }));
        s.set(SectionId::DebugInfo, unhex(info));
        s.set(SectionId::DebugAbbrev, unhex(abbrev));
        cases.push(("conv.dwarf_from", "sequence tombstoned part-way, then another sequence", s.clone(), P { enc: Enc::new(false, false, 4, 4), ..p }));
        cases.push(("conv.stepwise", "sequence tombstoned part-way, then another sequence", s, P { enc: Enc::new(false, false, 4, 4), ..p }));
        let mut s = Secs::default();
        s.set(SectionId::DebugLine, unhex(c_line));
        cases.push(("conv.line", "row with line >= 2^63 after a row with a small line", s, P { enc: Enc::new(false, false, 3, 4), ..p }));
        // (D) VLIW: DW_LNS_fixed_advance_pc 0 after a row with op_index 3 (same address, smaller op_index)
        let d_line = "00000063000400000023010401fb0e0a0001010101000000017375620000612e6300000000622e63000103040000030200100d02030100030200500b037e040105070607010809000400020401010006036600000000020101010101070109000001037e000101";
        let mut s = Secs::default();
        s.set(SectionId::DebugLine, unhex(d_line));
        cases.push(("conv.line", "VLIW: fixed_advance_pc 0 after a row with op_index > 0", s, P { enc: Enc::new(false, false, 4, 2), ..p }));
    }
    // die_ranges: low_pc near max + high_pc constant
    {
        let mut ab = Asm::new(true);
        ab.uleb(1).uleb(gimli::DW_TAG_compile_unit.0 as u64).u8(0);
        ab.uleb(gimli::DW_AT_low_pc.0 as u64).uleb(gimli::DW_FORM_addr.0 as u64);
        ab.uleb(gimli::DW_AT_high_pc.0 as u64).uleb(gimli::DW_FORM_data1.0 as u64);
        ab.uleb(0).uleb(0).uleb(0);
        let mut a = Asm::new(true);
        let m = a.begin_length(false);
        a.u16(4).u32(0).u8(8);
        a.u8(1).u64(0xffff_ffff_ffff_fffe).u8(5);
        a.end_length(m);
        let mut s = Secs::default();
        s.set(SectionId::DebugAbbrev, ab.buf);
        s.set(SectionId::DebugInfo, a.buf);
        cases.push(("dwarf", "die_ranges low_pc + high_pc overflows", s.clone(), p));
        cases.push(("conv.dwarf_from", "die_ranges low_pc + high_pc overflows", s, p));
    }
    // skip_attributes: huge block length followed by a fixed-size attribute
    {
        let mut ab = Asm::new(true);
        ab.uleb(1).uleb(gimli::DW_TAG_compile_unit.0 as u64).u8(0);
        ab.uleb(gimli::DW_AT_location.0 as u64).uleb(gimli::DW_FORM_exprloc.0 as u64);
        ab.uleb(gimli::DW_AT_byte_size.0 as u64).uleb(gimli::DW_FORM_data4.0 as u64);
        ab.uleb(0).uleb(0).uleb(0);
        let mut a = Asm::new(true);
        let m = a.begin_length(false);
        a.u16(4).u32(0).u8(8);
        a.u8(1).uleb(u64::MAX).u32(7);
        a.end_length(m);
        let mut s = Secs::default();
        s.set(SectionId::DebugAbbrev, ab.buf);
        s.set(SectionId::DebugInfo, a.buf);
        cases.push(("units", "skip_attributes: block length u64::MAX + fixed attribute", s.clone(), p));
        cases.push(("conv.stepwise", "skip_attributes: block length u64::MAX + fixed attribute", s, p));
    }
    // CFI conversion: alignment factors 0 / 256 / huge, offsets beyond i32, huge advance
    for (code, data) in [(0u64, 0i64), (256, -129), (1 << 40, i64::MIN), (1, 1)] {
        let mut a = Asm::new(true);
        // CIE
        let m = a.begin_length(false);
        a.u32(0xffff_ffff).u8(1).u8(0);
        a.uleb(code).sleb(data).u8(16);
        a.u8(0x0c).uleb(7).uleb(u64::MAX >> 1); // def_cfa r7, huge
        a.u8(0x80 | 3).uleb(u64::MAX >> 2); // offset r3, huge factored
        a.pad_to(8, 0);
        a.end_length(m);
        // FDE
        let m = a.begin_length(false);
        a.u32(0).u64(0x1000).u64(0x100);
        a.u8(0x04).u32(0xffff_ffff); // advance_loc4 max
        a.u8(0x11).uleb(5).sleb(i64::MIN); // offset_extended_sf
        a.u8(0x2e).uleb(u64::MAX); // GNU_args_size
        a.u8(0x04).u32(0xffff_ffff);
        a.pad_to(8, 0);
        a.end_length(m);
        let mut s = Secs::default();
        s.set(SectionId::DebugFrame, a.buf);
        cases.push(("conv.frame", "FrameTable::from with hostile alignment factors / offsets", s.clone(), p));
        cases.push(("debug_frame", "hostile alignment factors / offsets", s, p));
    }
    // names: hash table truncated
    {
        let mut a = Asm::new(true);
        let m = a.begin_length(false);
        a.u16(5).u16(0);
        a.u32(1).u32(0).u32(0).u32(2).u32(3).u32(0).u32(0);
        a.u32(0);
        a.u32(1).u32(3);
        a.u32(0x10);
        a.end_length(m);
        let mut s = Secs::default();
        s.set(SectionId::DebugNames, a.buf);
        cases.push(("names", "truncated .debug_names hash table", s, p));
    }
    // macinfo without terminator / empty
    {
        let mut s = Secs::default();
        s.set(SectionId::DebugMacinfo, vec![1, 1, b'A', 0, 1, 2]);
        s.set(SectionId::DebugMacro, vec![5, 0, 0, 1, 1, b'A', 0, 5]);
        cases.push(("macros", "unterminated macro lists", s, p));
        cases.push(("macros", "empty macro sections", Secs::default(), p));
    }
    // aranges: tuple whose end overflows followed by a valid tuple (open finding: sticky)
    {
        let mut a = Asm::new(true);
        let m = a.begin_length(false);
        a.u16(2).u32(0).u8(8).u8(0);
        a.pad_to(16, 0);
        a.u64(0x8000_0000_0000_0000).u64(0x8000_0000_0000_0000);
        a.u64(0x10).u64(4);
        a.u64(0).u64(0);
        a.end_length(m);
        let mut s = Secs::default();
        s.set(SectionId::DebugAranges, a.buf);
        cases.push(("aranges", "aranges tuple overflow then valid tuple", s, p));
    }
    for (i, (ename, what, s, p)) in cases.into_iter().enumerate() {
        if !ctx.want("regress", i as u64) {
            continue;
        }
        run_case(ctx, entry(ename), &s, p, None, "regress", what);
    }
}

/// Debugging aid (GV_C01_DEBUG_SEEDS=1): why a generator seed is rejected by the converters.
pub fn debug_seed_conversions(pool: &[Seed]) {
    use gimli::write;
    for sd in pool.iter().filter(|s| !s.is_base()) {
        let endian = sd.enc.endian();
        let dwarf: gimli::Dwarf<gimli::EndianSlice<gimli::RunTimeEndian>> = gimli::Dwarf::load(|id| Ok::<_, ()>(gimli::EndianSlice::new(sd.secs.get(id), endian))).unwrap();
        if sd.entries.contains(&"conv.dwarf_from") {
            let r = write::Dwarf::from(&dwarf, &|a| Some(write::Address::Constant(a)));
            eprintln!("{} {} dwarf_from: {:?}", sd.name, sd.enc.label(), r.as_ref().map(|_| ()).map_err(|e| format!("{e:?}")));
            if r.is_err() && sd.origin == "gen.info" {
                eprintln!("   info {} abbrev {}", crate::rt::hex(sd.secs.get(SectionId::DebugInfo)), crate::rt::hex(sd.secs.get(SectionId::DebugAbbrev)));
                let mut it = dwarf.units();
                while let Ok(Some(h)) = it.next() {
                    match dwarf.unit(h) {
                        Err(e) => eprintln!("   unit: {e:?}"),
                        Ok(u) => {
                            let mut c = u.entries();
                            loop {
                                match c.next_dfs() {
                                    Ok(Some(e)) => {
                                        eprintln!("    <{:x}> {:?}", e.offset().0, e.tag());
                                        for a in e.attrs() {
                                            eprintln!("     {:?} {:?}", a.name(), a.value());
                                        }
                                    }
                                    Ok(None) => break,
                                    Err(e) => {
                                        eprintln!("   entry err {e:?}");
                                        break;
                                    }
                                }
                            }
                        }
                    }
                }
            }
            if let Ok(mut w) = r {
                let mut sections = write::Sections::new(write::EndianVec::new(endian));
                eprintln!("   write: {:?}", w.write(&mut sections));
            }
        }
        if sd.entries.contains(&"conv.line") || sd.origin == "gen.info" {
            let prog = dwarf.debug_line.program(gimli::DebugLineOffset(0), sd.enc.addr, Some(gimli::EndianSlice::new(b"/d", endian)), Some(gimli::EndianSlice::new(b"n.c", endian)));
            match prog {
                Err(e) => eprintln!("{} {} line parse: {e:?}", sd.name, sd.enc.label()),
                Ok(prog) => {
                    let mut w = write::Dwarf::new();
                    let r = (|| -> write::ConvertResult<()> {
                        let conv = w.read_line_program(&dwarf, prog.clone(), None, None)?;
                        let _ = conv.convert(&|a| Some(write::Address::Constant(a)))?;
                        Ok(())
                    })();
                    eprintln!("{} {} conv.line: {:?}", sd.name, sd.enc.label(), r.map_err(|e| format!("{e:?}")));
                }
            }
        }
        if sd.entries.contains(&"conv.frame") {
            let mut sec = gimli::DebugFrame::from(gimli::EndianSlice::new(sd.secs.get(SectionId::DebugFrame), endian));
            sec.set_address_size(sd.enc.addr);
            let r = write::FrameTable::from(&sec, &|a| Some(write::Address::Constant(a)));
            eprintln!("{} {} frame(debug_frame): {:?}", sd.name, sd.enc.label(), r.map(|_| ()).map_err(|e| format!("{e:?}")));
            let mut sec = gimli::EhFrame::from(gimli::EndianSlice::new(sd.secs.get(SectionId::EhFrame), endian));
            sec.set_address_size(sd.enc.addr);
            let r = write::FrameTable::from(&sec, &|a| Some(write::Address::Constant(a)));
            eprintln!("{} {} frame(eh_frame): {:?}", sd.name, sd.enc.label(), r.map(|_| ()).map_err(|e| format!("{e:?}")));
        }
    }
}

//! C01: additional seed sources (generators of the other properties) and permanent
//! regression cases for defects that were found and fixed.

use crate::asm::{Asm, Enc};
use crate::mon::entries::{Secs, P};
use crate::props::c01::{run_case, Seed, ENTRIES};
use crate::rt::Ctx;
use gimli::SectionId;

/// Seeds produced by the section generators of the other property modules.
pub fn extra_seeds(_ctx: &Ctx) -> Vec<Seed> {
    vec![]
}

fn entry(name: &str) -> &'static crate::props::c01::Entry {
    ENTRIES.iter().find(|e| e.name == name).unwrap()
}

/// Witnesses of fixed (and open) defects, kept in the quick tier for ever.
/// Stream "regress", one index per witness.
pub fn regressions(ctx: &mut Ctx) {
    let enc = Enc::new(true, false, 4, 8);
    let p = P { enc, dwo: false, aarch64: false, seed: 1 };
    let mut cases: Vec<(&'static str, &'static str, Secs, P)> = vec![];
    // DW_OP_piece 2^61
    {
        let mut s = Secs::default();
        let mut a = Asm::new(true);
        a.u8(0x93).uleb(1 << 61).u8(0x50).u8(0x93).uleb(u64::MAX);
        s.expr = a.buf;
        cases.push(("expr", "DW_OP_piece 2^61", s, p));
    }
    // .eh_frame_hdr with fde_count 2^63 / 2^61, table pointer below eh_frame_ptr
    for count in [1u64 << 63, 1 << 61, u64::MAX] {
        let mut s = Secs::default();
        let mut a = Asm::new(true);
        a.u8(1).u8(0x03).u8(0x04).u8(0x03);
        a.u32(0x1000).u64(count);
        a.u32(0x800).u32(0x10).u32(0x900).u32(0x1018);
        s.set(SectionId::EhFrameHdr, a.buf);
        s.set(SectionId::EhFrame, vec![0u8; 64]);
        cases.push(("eh_frame_hdr", "eh_frame_hdr absurd fde_count / pointer below eh_frame_ptr", s, p));
    }
    // index forms with huge indices are exercised by entry `tables`/`lists` on any input
    cases.push(("tables", "get_address/get_str_offset index*size overflow", Secs::default(), p));
    cases.push(("lists", "get_offset index*size and base+entry overflow", {
        let mut s = Secs::default();
        let mut a = Asm::new(true);
        a.u32(0).u16(5).u8(8).u8(0).u32(1);
        a.u32(0xffff_fff0).u32(0xffff_ffff);
        s.set(SectionId::DebugRngLists, a.buf.clone());
        s.set(SectionId::DebugLocLists, a.buf);
        s
    }, P { enc: Enc::new(true, false, 5, 8), ..p }));
    // rnglists startx_length with index 2^61 through .debug_addr
    {
        let mut s = Secs::default();
        s.set(SectionId::DebugRngLists, vec![0x03, 0x80, 0x80, 0x80, 0x80, 0x80, 0x80, 0x80, 0x80, 0x20, 0x05, 0x00]);
        let mut a = Asm::new(true);
        a.u64(0x11).u64(0x22);
        s.set(SectionId::DebugAddr, a.buf);
        cases.push(("lists", "DW_RLE_startx_length index 2^61", s, P { enc: Enc::new(true, false, 5, 8), ..p }));
    }
    // line: advance_line i64::MIN; partial tombstone; hostile header line_base -128 range 1
    for (lb, lr, name) in [(0xfbu8, 14u8, "advance_line i64::MIN + partial tombstone"), (0x80, 1, "line_base -128 line_range 1"), (0x80, 255, "line_base -128 line_range 255")] {
        let mut a = Asm::new(true);
        let m = a.begin_length(false);
        a.u16(4);
        let hl = a.len();
        a.u32(0);
        let hs = a.len();
        a.u8(1).u8(1).u8(1).u8(lb).u8(lr).u8(13);
        for l in [0u8, 1, 1, 1, 1, 0, 0, 0, 1, 0, 0, 1] {
            a.u8(l);
        }
        a.u8(0);
        a.cstr(b"f.c").uleb(0).uleb(0).uleb(0);
        a.u8(0);
        let hlen = (a.len() - hs) as u64;
        a.patch_uint(hl, 4, hlen);
        a.u8(0).uleb(9).u8(2).u64(0x1000);
        a.u8(3).sleb(i64::MIN).u8(1);
        a.u8(0).uleb(9).u8(2).u64(0x10);
        a.u8(2).uleb(4).u8(1).u8(0xff);
        a.u8(0).uleb(1).u8(1);
        a.u8(0).uleb(9).u8(2).u64(0x20);
        a.u8(1).u8(2).uleb(8);
        // DW_LNE_define_file with an empty name, then end_sequence
        a.u8(0).uleb(5).u8(3).u8(0).uleb(0).uleb(0).uleb(0);
        a.u8(0).uleb(1).u8(1);
        a.end_length(m);
        let mut s = Secs::default();
        s.set(SectionId::DebugLine, a.buf);
        cases.push(("line", name, s.clone(), p));
        cases.push(("conv.line", name, s, p));
    }
    // die_ranges: low_pc near max + high_pc constant
    {
        let mut ab = Asm::new(true);
        ab.uleb(1).uleb(gimli::DW_TAG_compile_unit.0 as u64).u8(0);
        ab.uleb(gimli::DW_AT_low_pc.0 as u64).uleb(gimli::DW_FORM_addr.0 as u64);
        ab.uleb(gimli::DW_AT_high_pc.0 as u64).uleb(gimli::DW_FORM_data1.0 as u64);
        ab.uleb(0).uleb(0).uleb(0);
        let mut a = Asm::new(true);
        let m = a.begin_length(false);
        a.u16(4).u32(0).u8(8);
        a.u8(1).u64(0xffff_ffff_ffff_fffe).u8(5);
        a.end_length(m);
        let mut s = Secs::default();
        s.set(SectionId::DebugAbbrev, ab.buf);
        s.set(SectionId::DebugInfo, a.buf);
        cases.push(("dwarf", "die_ranges low_pc + high_pc overflows", s.clone(), p));
        cases.push(("conv.dwarf_from", "die_ranges low_pc + high_pc overflows", s, p));
    }
    // skip_attributes: huge block length followed by a fixed-size attribute
    {
        let mut ab = Asm::new(true);
        ab.uleb(1).uleb(gimli::DW_TAG_compile_unit.0 as u64).u8(0);
        ab.uleb(gimli::DW_AT_location.0 as u64).uleb(gimli::DW_FORM_exprloc.0 as u64);
        ab.uleb(gimli::DW_AT_byte_size.0 as u64).uleb(gimli::DW_FORM_data4.0 as u64);
        ab.uleb(0).uleb(0).uleb(0);
        let mut a = Asm::new(true);
        let m = a.begin_length(false);
        a.u16(4).u32(0).u8(8);
        a.u8(1).uleb(u64::MAX).u32(7);
        a.end_length(m);
        let mut s = Secs::default();
        s.set(SectionId::DebugAbbrev, ab.buf);
        s.set(SectionId::DebugInfo, a.buf);
        cases.push(("units", "skip_attributes: block length u64::MAX + fixed attribute", s.clone(), p));
        cases.push(("conv.stepwise", "skip_attributes: block length u64::MAX + fixed attribute", s, p));
    }
    // CFI conversion: alignment factors 0 / 256 / huge, offsets beyond i32, huge advance
    for (code, data) in [(0u64, 0i64), (256, -129), (1 << 40, i64::MIN), (1, 1)] {
        let mut a = Asm::new(true);
        // CIE
        let m = a.begin_length(false);
        a.u32(0xffff_ffff).u8(1).u8(0);
        a.uleb(code).sleb(data).u8(16);
        a.u8(0x0c).uleb(7).uleb(u64::MAX >> 1); // def_cfa r7, huge
        a.u8(0x80 | 3).uleb(u64::MAX >> 2); // offset r3, huge factored
        a.pad_to(8, 0);
        a.end_length(m);
        // FDE
        let m = a.begin_length(false);
        a.u32(0).u64(0x1000).u64(0x100);
        a.u8(0x04).u32(0xffff_ffff); // advance_loc4 max
        a.u8(0x11).uleb(5).sleb(i64::MIN); // offset_extended_sf
        a.u8(0x2e).uleb(u64::MAX); // GNU_args_size
        a.u8(0x04).u32(0xffff_ffff);
        a.pad_to(8, 0);
        a.end_length(m);
        let mut s = Secs::default();
        s.set(SectionId::DebugFrame, a.buf);
        cases.push(("conv.frame", "FrameTable::from with hostile alignment factors / offsets", s.clone(), p));
        cases.push(("debug_frame", "hostile alignment factors / offsets", s, p));
    }
    // names: hash table truncated
    {
        let mut a = Asm::new(true);
        let m = a.begin_length(false);
        a.u16(5).u16(0);
        a.u32(1).u32(0).u32(0).u32(2).u32(3).u32(0).u32(0);
        a.u32(0);
        a.u32(1).u32(3);
        a.u32(0x10);
        a.end_length(m);
        let mut s = Secs::default();
        s.set(SectionId::DebugNames, a.buf);
        cases.push(("names", "truncated .debug_names hash table", s, p));
    }
    // macinfo without terminator / empty
    {
        let mut s = Secs::default();
        s.set(SectionId::DebugMacinfo, vec![1, 1, b'A', 0, 1, 2]);
        s.set(SectionId::DebugMacro, vec![5, 0, 0, 1, 1, b'A', 0, 5]);
        cases.push(("macros", "unterminated macro lists", s, p));
        cases.push(("macros", "empty macro sections", Secs::default(), p));
    }
    // aranges: tuple whose end overflows followed by a valid tuple (open finding: sticky)
    {
        let mut a = Asm::new(true);
        let m = a.begin_length(false);
        a.u16(2).u32(0).u8(8).u8(0);
        a.pad_to(16, 0);
        a.u64(0x8000_0000_0000_0000).u64(0x8000_0000_0000_0000);
        a.u64(0x10).u64(4);
        a.u64(0).u64(0);
        a.end_length(m);
        let mut s = Secs::default();
        s.set(SectionId::DebugAranges, a.buf);
        cases.push(("aranges", "aranges tuple overflow then valid tuple", s, p));
    }
    for (i, (ename, what, s, p)) in cases.into_iter().enumerate() {
        if !ctx.want("regress", i as u64) {
            continue;
        }
        run_case(ctx, entry(ename), &s, p, None, "regress", what);
    }
}

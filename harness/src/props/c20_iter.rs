//! C20 clause 4: a cloned iterator and its original, advanced independently, give what two
//! fresh runs from that position give — for every `Clone` iterator type of the pinned tree,
//! with the clone taken at every position.  Also: resumed line rows in any order.

use super::die_reuse::{damage, gen_unit, open_unit, snap};
use super::{flush, Out};
use crate::asm::{Asm, Enc};
use crate::gen::{mutate, seeds};
use crate::mon::entries::Secs;
use crate::rt::{Ctx, Rng};
use gimli::read::{BaseAddresses, CieOrFde, DebuggingInformationEntry, UnwindContext, UnwindSection};
use gimli::{EndianSlice, RunTimeEndian, SectionId};
use serde_json::json;

type R<'a> = EndianSlice<'a, RunTimeEndian>;

const MAX_STEPS: usize = 56;

fn st<T>(r: gimli::Result<Option<T>>, f: impl FnOnce(T) -> String) -> (String, bool) {
    match r {
        Ok(Some(x)) => (f(x), false),
        Ok(None) => ("None".to_string(), true),
        Err(e) => (format!("Err({e:?})"), true),
    }
}

/// The clone check.  `mk` builds a fresh iterator (None: not constructible from this input),
/// `step` advances it once and renders what it returned plus whether the run is over.
fn check<I: Clone>(name: &str, out: &mut Out, mk: impl Fn() -> Option<I>, step: impl Fn(&mut I) -> (String, bool)) {
    let Some(mut it) = mk() else { return };
    // reference run
    let mut reference: Vec<String> = vec![];
    let mut over = 0;
    let mut erred = false;
    while reference.len() < MAX_STEPS {
        let (s, done) = step(&mut it);
        if s.starts_with("Err(") {
            erred = true;
        }
        reference.push(s);
        if done {
            over += 1;
            if over >= 3 {
                break;
            }
        }
    }
    let n = reference.len();
    out.stats.add(&format!("clone.{name}"));
    if erred {
        out.stats.add("clone.err_runs");
    }
    for p in 0..=n {
        let Some(mut a) = mk() else { return };
        let mut ok = true;
        for (j, want) in reference.iter().enumerate().take(p) {
            let (s, _) = step(&mut a);
            if &s != want {
                out.cmp(&format!("clone.{name}.rerun"), want, &s, &|| format!("second fresh run differs at step {j}"));
                ok = false;
                break;
            }
        }
        if !ok {
            return;
        }
        let mut b = a.clone();
        out.evals += 1;
        out.stats.add("clone.positions");
        let note_a = |j: usize| format!("original continued from position {p} (clone taken there), step {j} of {n}");
        let note_b = |j: usize| format!("clone taken at position {p}, step {j} of {n}");
        if p % 2 == 0 {
            // the clone first, then the original
            for j in p..n {
                let (s, _) = step(&mut b);
                if !out.cmp(&format!("clone.{name}.clone"), &reference[j], &s, &|| note_b(j)) {
                    return;
                }
            }
            for j in p..n {
                let (s, _) = step(&mut a);
                if !out.cmp(&format!("clone.{name}.original"), &reference[j], &s, &|| note_a(j)) {
                    return;
                }
            }
        } else {
            // interleaved; and a clone of the clone half-way
            let mid = p + (n - p) / 2;
            let mut c = None;
            for j in p..n {
                if j == mid {
                    c = Some(b.clone());
                }
                let (s, _) = step(&mut a);
                if !out.cmp(&format!("clone.{name}.original"), &reference[j], &s, &|| note_a(j)) {
                    return;
                }
                let (s, _) = step(&mut b);
                if !out.cmp(&format!("clone.{name}.clone"), &reference[j], &s, &|| note_b(j)) {
                    return;
                }
            }
            if let Some(mut c) = c {
                for j in mid..n {
                    let (s, _) = step(&mut c);
                    if !out.cmp(&format!("clone.{name}.clone2"), &reference[j], &s, &|| note_b(j)) {
                        return;
                    }
                }
            }
        }
    }
}

fn endian(enc: Enc) -> RunTimeEndian {
    enc.endian()
}

// ---------------------------------------------------------------- DIE family

fn cursor_state(c: &gimli::EntriesCursor<'_, R<'_>>) -> String {
    format!(
        "off={} depth={} cur={:?} next_off={} next_depth={}",
        c.offset().0,
        c.depth(),
        c.current().map(snap),
        c.next_offset().0,
        c.next_depth()
    )
}

fn die_iters(info: &[u8], abbrev: &[u8], enc: Enc, out: &mut Out, exprs: &mut Vec<(Vec<u8>, gimli::Encoding)>) {
    let e = endian(enc);
    let debug_info = gimli::DebugInfo::new(info, e);
    let debug_abbrev = gimli::DebugAbbrev::new(abbrev, e);
    check("DebugInfoUnitHeadersIter", out, || Some(debug_info.units()), |it| st(it.next(), |h| format!("{h:?}")));
    let mut hs = vec![];
    let mut it = debug_info.units();
    while let Ok(Some(h)) = it.next() {
        hs.push(h);
        if hs.len() >= 3 {
            break;
        }
    }
    for h in &hs {
        let Ok(abbrevs) = h.abbreviations(&debug_abbrev) else { continue };
        for style in 0..3u8 {
            check(
                "EntriesCursor",
                out,
                || Some(h.entries(&abbrevs)),
                |c| {
                    let pick = match style {
                        0 => 0,
                        1 => 1,
                        _ => (c.next_offset().0 % 3) as u8,
                    };
                    let (s, done) = match pick {
                        0 => st(c.next_dfs().map(|o| o.map(snap)), |x| format!("dfs {x:?}")),
                        1 => match c.next_entry() {
                            Ok(true) => ("entry true".to_string(), false),
                            Ok(false) => ("entry false".to_string(), true),
                            Err(e) => (format!("Err({e:?})"), true),
                        },
                        _ => st(c.next_sibling().map(|o| o.map(snap)), |x| format!("sibling {x:?}")),
                    };
                    (format!("{s} | {}", cursor_state(c)), done)
                },
            );
        }
        check(
            "EntriesRaw",
            out,
            || h.entries_raw(&abbrevs, None).ok(),
            |raw| {
                if raw.is_empty() {
                    return (format!("empty next_off={} depth={}", raw.next_offset().0, raw.next_depth()), true);
                }
                let (s, done) = if raw.next_offset().0 % 4 == 3 {
                    match raw.read_abbreviation() {
                        Ok(Some(ab)) => {
                            let r = raw.skip_attributes(ab.attributes());
                            (format!("abbrev {} skip {r:?}", ab.code()), r.is_err())
                        }
                        Ok(None) => ("abbrev null".to_string(), false),
                        Err(e) => (format!("Err({e:?})"), true),
                    }
                } else {
                    let mut entry = DebuggingInformationEntry::null();
                    match raw.read_entry(&mut entry) {
                        Ok(b) => (format!("read {b} {:?}", snap(&entry)), false),
                        Err(e) => (format!("Err({e:?})"), true),
                    }
                };
                (format!("{s} | next_off={} depth={}", raw.next_offset().0, raw.next_depth()), done)
            },
        );
        // collect a few expressions for OperationIter
        let mut c = h.entries(&abbrevs);
        let mut n = 0;
        while let Ok(Some(entry)) = c.next_dfs() {
            n += 1;
            if n > 200 {
                break;
            }
            for a in entry.attrs() {
                if let Some(x) = a.exprloc_value() {
                    if exprs.len() < 6 {
                        exprs.push((x.0.slice().to_vec(), h.encoding()));
                    }
                }
            }
        }
    }
}

fn types_section(enc: Enc, r: &mut Rng) -> (Vec<u8>, Vec<u8>) {
    // two or three .debug_types units over one abbreviation table
    let mut ab = Asm::new(enc.le);
    ab.uleb(1).uleb(0x41).u8(1).uleb(0x03).uleb(0x08).uleb(0).uleb(0);
    ab.uleb(2).uleb(0x13).u8(0).uleb(0x0b).uleb(0x0b).uleb(0).uleb(0);
    ab.uleb(0);
    let mut a = Asm::new(enc.le);
    for k in 0..(2 + r.below(2)) {
        let m = a.begin_length(enc.fmt64);
        a.u16(4).word(enc.fmt64, 0).u8(enc.addr);
        a.u64(0xabc0 + k);
        a.word(enc.fmt64, 0);
        a.u8(1).cstr(b"ty").u8(2).u8(k as u8).u8(0);
        a.end_length(m);
    }
    (a.buf, ab.buf)
}

// ---------------------------------------------------------------- line family

fn line_iters(line: &[u8], enc: Enc, out: &mut Out) {
    let e = endian(enc);
    let debug_line = gimli::DebugLine::new(line, e);
    let Ok(prog) = debug_line.program(gimli::DebugLineOffset(0), enc.addr, None, None) else { return };
    let header = prog.header().clone();
    check("LineInstructions", out, || Some(header.instructions()), |it| st(it.next_instruction(&header), |i| format!("{i:?}")));
    let row_step = |o: gimli::Result<Option<(&gimli::LineProgramHeader<R<'_>>, &gimli::LineRow)>>| st(o, |(h, r)| format!("{r:?} files={}", h.file_names().len()));
    check("LineRows", out, || Some(prog.clone().rows()), |rows| row_step(rows.next_row()));
    // sequences + resume
    let Ok((complete, seqs)) = prog.clone().sequences() else { return };
    if seqs.is_empty() {
        return;
    }
    out.stats.add_n("resume.sequences", seqs.len() as u64);
    // reference: each sequence resumed on its own
    let run_seq = |k: usize| -> Vec<String> {
        let mut rows = complete.resume_from(&seqs[k]);
        let mut v = vec![];
        while v.len() < 400 {
            let (s, done) = st(rows.next_row(), |(_, r)| format!("{r:?}"));
            v.push(s);
            if done {
                break;
            }
        }
        v
    };
    let reference: Vec<Vec<String>> = (0..seqs.len().min(12)).map(run_seq).collect();
    // resumed in reverse order and interleaved pairwise
    for k in (0..reference.len()).rev() {
        out.evals += 1;
        out.cmp("resume.reverse_order", &reference[k], &run_seq(k), &|| format!("sequence {k} resumed after later sequences"));
    }
    for k in 0..reference.len().saturating_sub(1) {
        let mut ra = complete.resume_from(&seqs[k]);
        let mut rb = complete.resume_from(&seqs[k + 1]);
        let (mut va, mut vb) = (vec![], vec![]);
        let (mut da, mut db) = (false, false);
        while (!da || !db) && va.len() < 400 && vb.len() < 400 {
            if !da {
                let (s, d) = st(ra.next_row(), |(_, r)| format!("{r:?}"));
                va.push(s);
                da = d;
            }
            if !db {
                let (s, d) = st(rb.next_row(), |(_, r)| format!("{r:?}"));
                vb.push(s);
                db = d;
            }
        }
        out.evals += 1;
        out.cmp("resume.interleaved", &reference[k], &va, &|| format!("sequence {k} interleaved with {}", k + 1));
        out.cmp("resume.interleaved", &reference[k + 1], &vb, &|| format!("sequence {} interleaved with {k}", k + 1));
    }
    // the rows of the resumed sequences are the rows of the one-shot run, sequence by sequence
    {
        let mut rows = prog.clone().rows();
        let mut groups: Vec<Vec<String>> = vec![vec![]];
        let mut ok = true;
        let mut n = 0;
        loop {
            n += 1;
            if n > 5000 {
                ok = false;
                break;
            }
            match rows.next_row() {
                Ok(Some((_, r))) => {
                    groups.last_mut().unwrap().push(format!("{r:?}"));
                    if r.end_sequence() {
                        groups.push(vec![]);
                    }
                }
                Ok(None) => break,
                Err(_) => {
                    ok = false;
                    break;
                }
            }
        }
        if ok && groups.len() == seqs.len() + 1 && groups.last().map(|g| g.is_empty()).unwrap_or(false) {
            for k in 0..reference.len() {
                let mut want = groups[k].clone();
                want.push("None".to_string());
                out.evals += 1;
                out.cmp("resume.vs_oneshot", &want, &reference[k], &|| format!("rows of resumed sequence {k} vs the one-shot run"));
            }
        } else {
            out.stats.add("resume.oneshot_not_comparable");
        }
    }
    for k in 0..seqs.len().min(3) {
        check("ResumedLineRows", out, || Some(complete.resume_from(&seqs[k])), |rows| row_step(rows.next_row()));
    }
}

// ---------------------------------------------------------------- CFI family

fn cfi_iters<'a, Sec: UnwindSection<R<'a>>>(name: &str, sec: &Sec, bases: &BaseAddresses, out: &mut Out) {
    let render = |x: CieOrFde<'_, Sec, R<'a>>| match x {
        CieOrFde::Cie(c) => format!("{c:?}"),
        CieOrFde::Fde(p) => format!(
            "partial off={:?} cie={:?} len={:?} parsed={:?}",
            p.offset(),
            p.cie_offset(),
            p.entry_len(),
            p.parse(Sec::cie_from_offset)
        ),
    };
    check(name, out, || Some(sec.entries(bases)), |it| st(it.next(), render));
    let mut it = sec.entries(bases);
    let mut n = 0;
    while let Ok(Some(x)) = it.next() {
        n += 1;
        if n > 6 {
            break;
        }
        match x {
            CieOrFde::Cie(c) => {
                check("CallFrameInstructionIter", out, || Some(c.instructions(sec, bases)), |it| st(it.next(), |i| format!("{i:?}")));
            }
            CieOrFde::Fde(p) => {
                let Ok(fde) = p.parse(Sec::cie_from_offset) else { continue };
                check("CallFrameInstructionIter", out, || Some(fde.instructions(sec, bases)), |it| st(it.next(), |i| format!("{i:?}")));
                let mut ctx: UnwindContext<usize> = UnwindContext::new();
                // the last row of the FDE
                let last = fde.initial_address().wrapping_add(fde.len()).wrapping_sub(1);
                if let Ok(row) = fde.unwind_info_for_address(sec, bases, &mut ctx, last) {
                    check(
                        "RegisterRuleIter",
                        out,
                        || Some(row.registers()),
                        |it| match it.next() {
                            Some(x) => (format!("{x:?}"), false),
                            None => ("None".to_string(), true),
                        },
                    );
                }
            }
        }
    }
}

// ---------------------------------------------------------------- misc family

fn misc_iters(s: &Secs, enc: Enc, out: &mut Out) {
    let e = endian(enc);
    {
        let sec = gimli::DebugAranges::new(s.get(SectionId::DebugAranges), e);
        check("ArangeHeaderIter", out, || Some(sec.headers()), |it| st(it.next(), |h| format!("{h:?}")));
        let mut hs = sec.headers();
        let mut n = 0;
        while let Ok(Some(h)) = hs.next() {
            n += 1;
            if n > 3 {
                break;
            }
            check(
                "ArangeEntryIter",
                out,
                || Some(h.entries()),
                |it| {
                    // alternate the two stepping methods depending on what is left
                    st(it.next(), |x| format!("{x:?}"))
                },
            );
            check("ArangeEntryIter", out, || Some(h.entries()), |it| st(it.next_raw(), |x| format!("raw {x:?}")));
        }
    }
    {
        let sec = gimli::DebugAddr::from(EndianSlice::new(s.get(SectionId::DebugAddr), e));
        check("AddrHeaderIter", out, || Some(sec.headers()), |it| st(it.next(), |h| format!("{h:?}")));
        let mut hs = sec.headers();
        let mut n = 0;
        while let Ok(Some(h)) = hs.next() {
            n += 1;
            if n > 3 {
                break;
            }
            check("AddrEntryIter", out, || Some(h.entries()), |it| st(it.next(), |x| format!("{x:?}")));
        }
    }
    {
        let sec = gimli::DebugPubNames::new(s.get(SectionId::DebugPubNames), e);
        check("PubNamesEntryIter", out, || Some(sec.items()), |it| st(it.next(), |x| format!("{x:?}")));
        let sec = gimli::DebugPubTypes::new(s.get(SectionId::DebugPubTypes), e);
        check("PubTypesEntryIter", out, || Some(sec.items()), |it| st(it.next(), |x| format!("{x:?}")));
    }
    {
        let sec = gimli::DebugMacinfo::new(s.get(SectionId::DebugMacinfo), e);
        check("MacroIter", out, || sec.get_macinfo(gimli::DebugMacinfoOffset(0)).ok(), |it| st(it.next(), |x| format!("{x:?}")));
        let sec = gimli::DebugMacro::new(s.get(SectionId::DebugMacro), e);
        check("MacroIter", out, || sec.get_macros(gimli::DebugMacroOffset(0)).ok(), |it| st(it.next(), |x| format!("{x:?}")));
    }
    {
        let sec = gimli::DebugNames::new(s.get(SectionId::DebugNames), e);
        check("NameIndexHeaderIter", out, || Some(sec.headers()), |it| st(it.next(), |h| format!("{h:?}")));
    }
    for (id, is_cu) in [(SectionId::DebugCuIndex, true), (SectionId::DebugTuIndex, false)] {
        let bytes = s.get(id);
        let idx = if is_cu { gimli::DebugCuIndex::new(bytes, e).index() } else { gimli::DebugTuIndex::new(bytes, e).index() };
        let Ok(idx) = idx else { continue };
        for row in 0..4u32 {
            check(
                "UnitIndexSectionIterator",
                out,
                || idx.sections(row).ok(),
                |it| match it.next() {
                    Some(x) => (format!("{x:?}"), false),
                    None => ("None".to_string(), true),
                },
            );
        }
    }
}

fn expr_iters(bytes: &[u8], encoding: gimli::Encoding, e: RunTimeEndian, out: &mut Out) {
    let expr = gimli::Expression(EndianSlice::new(bytes, e));
    check(
        "OperationIter",
        out,
        || Some(expr.clone().operations(encoding)),
        |it| {
            let (s, done) = st(it.next(), |op| format!("{op:?}"));
            (format!("{s} @{}", it.offset_from(&expr)), done)
        },
    );
}

/// A hand-assembled `.debug_line` program with several sequences (used for every case of the
/// line family, so that the line iterators do not depend on `gimli::write`).
fn line_seed(enc: Enc, r: &mut Rng) -> Vec<u8> {
    let mut a = Asm::new(enc.le);
    a.map = false;
    let w = enc.fmt64;
    let asz = enc.addr as usize;
    let m = a.begin_length(w);
    a.u16(enc.version);
    if enc.version >= 5 {
        a.u8(enc.addr).u8(0);
    }
    let hl = a.len();
    a.word(w, 0);
    let hstart = a.len();
    a.u8(1);
    if enc.version >= 4 {
        a.u8(1);
    }
    a.u8(1).u8(0xfb).u8(14).u8(13);
    for l in [0u8, 1, 1, 1, 1, 0, 0, 0, 1, 0, 0, 1] {
        a.u8(l);
    }
    if enc.version >= 5 {
        a.u8(1).uleb(1).uleb(0x08);
        a.uleb(2).cstr(b"/d").cstr(b"inc");
        a.u8(2).uleb(1).uleb(0x08).uleb(2).uleb(0x0f);
        a.uleb(2).cstr(b"a.c").uleb(0).cstr(b"b.h").uleb(1);
    } else {
        a.cstr(b"inc").u8(0);
        a.cstr(b"a.c").uleb(0).uleb(0).uleb(0);
        a.cstr(b"b.h").uleb(1).uleb(0).uleb(0);
        a.u8(0);
    }
    let hlen = (a.len() - hstart) as u64;
    a.patch_uint(hl, if w { 8 } else { 4 }, hlen);
    let nseq = 2 + r.usize(3);
    let tomb = if r.chance(1, 3) { Some(r.usize(nseq)) } else { None };
    for s in 0..nseq {
        let base: u64 = if Some(s) == tomb { enc.addr_mask() } else { (0x10 + 0x20 * s as u64) & enc.addr_mask() };
        a.u8(0).uleb(1 + asz as u64).u8(2).uint(asz, base);
        let nops = 2 + r.usize(7);
        for _ in 0..nops {
            match r.below(12) {
                0 => {
                    a.u8(1);
                }
                1 => {
                    a.u8(2).uleb(r.below(4));
                }
                2 => {
                    a.u8(3).sleb(r.irange(-3, 9));
                }
                3 => {
                    a.u8(4).uleb(1 + r.below(2));
                }
                4 => {
                    a.u8(5).uleb(r.below(80));
                }
                5 => {
                    a.u8(6);
                }
                6 => {
                    a.u8(8);
                }
                7 => {
                    a.u8(9).u16(r.below(3) as u16);
                }
                8 => {
                    a.u8(0).uleb(2).u8(4).uleb(r.below(5));
                }
                9 if enc.version < 5 => {
                    // DW_LNE_define_file
                    a.u8(0).uleb(1 + 4 + 3).u8(3).cstr(b"c.c").uleb(0).uleb(0).uleb(0);
                }
                _ => {
                    a.u8(13 + r.below(60) as u8);
                }
            }
        }
        a.u8(13 + r.below(30) as u8);
        a.u8(0).uleb(1).u8(1);
    }
    a.end_length(m);
    a.buf
}

// ---------------------------------------------------------------- driver

fn maybe_mutate(s: &mut Secs, ids: &[SectionId], r: &mut Rng) -> String {
    if !r.bool() {
        return "valid".to_string();
    }
    let present: Vec<SectionId> = ids.iter().copied().filter(|id| !s.get(*id).is_empty()).collect();
    if present.is_empty() {
        return "valid".to_string();
    }
    let id = *r.pick(&present);
    let b = s.get(id).to_vec();
    let k = r.below(mutate::count(b.len()));
    let (nb, what) = mutate::nth(&b, k);
    s.set(id, nb);
    format!("{}: {what}", id.name())
}

pub fn run(ctx: &mut Ctx) {
    let n = ctx.size(1_920, 19_200, 6);
    for i in 0..n {
        if !ctx.want("iter.clone", i) {
            continue;
        }
        let mut r = ctx.rng("iter.clone", i);
        let enc = Enc::nth(i);
        let fam = (i / 64) % 5;
        let mut secs = Secs::default();
        let mut exprs_in: Vec<Vec<u8>> = vec![];
        let what;
        match fam {
            0 => {
                match if i % 2 == 0 { seeds::dwarf_seed(enc, &mut r) } else { None } {
                    Some(s) => secs = s,
                    None => {
                        let mx = 4 + r.usize(20);
                        let u = gen_unit(&mut r, enc, mx);
                        secs.set(SectionId::DebugInfo, u.info);
                        secs.set(SectionId::DebugAbbrev, u.abbrev);
                        secs.set(SectionId::DebugLine, line_seed(enc, &mut r));
                    }
                }
                what = maybe_mutate(&mut secs, &[SectionId::DebugInfo, SectionId::DebugAbbrev, SectionId::DebugLine], &mut r);
            }
            1 => {
                secs = seeds::frame_seed(enc, &mut r);
                what = maybe_mutate(&mut secs, &[SectionId::DebugFrame, SectionId::EhFrame], &mut r);
            }
            2 => {
                secs = seeds::misc_seed(enc, &mut r);
                let ids: Vec<SectionId> = secs.map.keys().copied().collect();
                let mut ids = ids;
                ids.sort_by_key(|k| k.name());
                what = maybe_mutate(&mut secs, &ids, &mut r);
                exprs_in = seeds::expr_seeds(enc);
                if r.bool() {
                    let k = r.usize(exprs_in.len());
                    let b = exprs_in[k].clone();
                    let m = r.below(mutate::count(b.len()));
                    exprs_in[k] = mutate::nth(&b, m).0;
                }
            }
            3 => {
                // generated DIE trees (deeper / wider than the seed), optionally damaged
                let mx = 4 + r.usize(30);
                let u0 = gen_unit(&mut r, enc, mx);
                let u = if r.bool() { damage(&u0, &mut r) } else { u0 };
                what = format!("generated unit ({})", u.note);
                secs.set(SectionId::DebugInfo, u.info.clone());
                secs.set(SectionId::DebugAbbrev, u.abbrev.clone());
                let _ = open_unit(&u);
            }
            _ => {
                let (t, ab) = types_section(enc, &mut r);
                secs.set(SectionId::DebugTypes, t);
                secs.set(SectionId::DebugAbbrev, ab);
                what = maybe_mutate(&mut secs, &[SectionId::DebugTypes], &mut r);
            }
        }
        let input = || json!({"enc": enc.label(), "family": fam, "mutation": what, "sections": secs.json(), "exprs": exprs_in.iter().map(|e| crate::rt::hex(e)).collect::<Vec<_>>()});
        let res = ctx.guard("iterator.clone", &input, || {
            let mut out = Out::default();
            let e = endian(enc);
            match fam {
                0 | 3 => {
                    let mut exprs = vec![];
                    die_iters(secs.get(SectionId::DebugInfo), secs.get(SectionId::DebugAbbrev), enc, &mut out, &mut exprs);
                    for (b, encoding) in &exprs {
                        expr_iters(b, *encoding, e, &mut out);
                    }
                    if fam == 0 {
                        line_iters(secs.get(SectionId::DebugLine), enc, &mut out);
                    }
                }
                1 => {
                    let bases = BaseAddresses::default().set_eh_frame(0x1000).set_text(0x100).set_got(0x200).set_eh_frame_hdr(0x800);
                    let mut df = gimli::DebugFrame::new(secs.get(SectionId::DebugFrame), e);
                    df.set_address_size(enc.addr);
                    cfi_iters("CfiEntriesIter.debug_frame", &df, &bases, &mut out);
                    let mut eh = gimli::EhFrame::new(secs.get(SectionId::EhFrame), e);
                    eh.set_address_size(enc.addr);
                    cfi_iters("CfiEntriesIter.eh_frame", &eh, &bases, &mut out);
                }
                2 => {
                    misc_iters(&secs, enc, &mut out);
                    for b in &exprs_in {
                        expr_iters(b, enc.encoding(), e, &mut out);
                    }
                }
                _ => {
                    let dt = gimli::DebugTypes::new(secs.get(SectionId::DebugTypes), e);
                    check("DebugTypesUnitHeadersIter", &mut out, || Some(dt.units()), |it| st(it.next(), |h| format!("{h:?}")));
                    let debug_abbrev = gimli::DebugAbbrev::new(secs.get(SectionId::DebugAbbrev), e);
                    let mut it = dt.units();
                    if let Ok(Some(h)) = it.next() {
                        if let Ok(abbrevs) = h.abbreviations(&debug_abbrev) {
                            check("EntriesCursor", &mut out, || Some(h.entries(&abbrevs)), |c| {
                                let (s, done) = st(c.next_dfs().map(|o| o.map(snap)), |x| format!("dfs {x:?}"));
                                (format!("{s} | {}", cursor_state(c)), done)
                            });
                        }
                    }
                }
            }
            out
        });
        flush(ctx, res, &input);
        ctx.nontrivial(crate::rt::fnv_add(secs.digest(), &exprs_in.concat()));
        if i % 64 == 0 && i / 64 < 5 {
            ctx.sample("iter.clone", || json!({"enc": enc.label(), "family": fam, "mutation": what}));
        }
    }
}

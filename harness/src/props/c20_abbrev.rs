//! C20 clause 5: `Dwarf::abbreviations` / `Dwarf::unit` with a populated
//! `AbbreviationsCache` (any strategy, any number of populate calls) vs no cache.

use super::{flush, Out};
use crate::asm::Asm;
use crate::rt::{hex, Ctx, Rng};
use gimli::read::{AbbreviationsCache, AbbreviationsCacheStrategy as Strat, DebugAbbrev, UnitHeader};
use gimli::DebugAbbrevOffset;
use gimli::{EndianSlice, RunTimeEndian, SectionId};
use serde_json::json;
use std::collections::BTreeMap;

type R<'a> = EndianSlice<'a, RunTimeEndian>;

#[derive(Clone, Debug)]
struct Gen {
    le: bool,
    abbrev: Vec<u8>,
    info: Vec<u8>,
    types: Vec<u8>,
    /// candidate offsets with a description
    candidates: Vec<(u64, &'static str)>,
    /// offsets chosen by the .debug_info units, in order
    used: Vec<u64>,
}

fn table(a: &mut Asm, t: usize, r: &mut Rng) {
    // code 1: compile_unit (or type_unit) root with a name; the rest makes tables distinct
    a.uleb(1).uleb(0x11).u8(if t % 2 == 0 { 1 } else { 0 }).uleb(0x03).uleb(0x08).uleb(0).uleb(0);
    let extra = 1 + (t % 3) + r.usize(2);
    for k in 0..extra {
        let code = if k == extra - 1 && r.bool() { 100 + t as u64 * 7 + k as u64 } else { 2 + k as u64 };
        a.uleb(code).uleb(0x20 + t as u64).u8((k % 2) as u8);
        for j in 0..(t + k) % 7 {
            a.uleb(0x03 + j as u64).uleb(*r.pick(&[0x0bu64, 0x05, 0x0f, 0x08, 0x0c]));
        }
        a.uleb(0).uleb(0);
    }
    a.uleb(0);
}

fn gen(r: &mut Rng) -> Gen {
    let le = r.bool();
    let mut a = Asm::new(le);
    a.map = false;
    let mut candidates: Vec<(u64, &'static str)> = vec![];
    if r.chance(1, 4) {
        // leading junk so that offset 0 is not a table
        a.u8(0);
    }
    let ntab = 2 + r.usize(4);
    let bad_at = r.usize(ntab + 1);
    for t in 0..ntab {
        if t == bad_at || r.chance(1, 6) {
            let off = a.len() as u64;
            match r.below(3) {
                0 => {
                    a.uleb(1).uleb(0x11).u8(1).uleb(0).uleb(0);
                    a.uleb(1).uleb(0x2e).u8(0).uleb(0).uleb(0).uleb(0);
                    candidates.push((off, "invalid:duplicate_code"));
                }
                1 => {
                    a.uleb(1).uleb(0).u8(1).uleb(0).uleb(0).uleb(0);
                    candidates.push((off, "invalid:tag_zero"));
                }
                _ => {
                    a.uleb(1).uleb(0x11).u8(2).uleb(0).uleb(0).uleb(0);
                    candidates.push((off, "invalid:children"));
                }
            }
        }
        let off = a.len() as u64;
        table(&mut a, t, r);
        candidates.push((off, "table"));
        if r.chance(1, 5) {
            candidates.push((off + 1, "invalid:mid_table"));
        }
    }
    if r.chance(1, 3) {
        // unterminated, truncated last table
        let off = a.len() as u64;
        a.uleb(1).uleb(0x11).u8(1).uleb(0x03);
        candidates.push((off, "invalid:truncated"));
    }
    let len = a.len() as u64;
    candidates.push((len, "invalid:at_end"));
    candidates.push((len + 1 + r.below(40), "invalid:past_end"));
    candidates.push((0xffff_fff0, "invalid:huge32"));
    let abbrev = a.buf;

    // ---- units
    let nunits = 1 + r.usize(8);
    let pattern = r.below(5);
    let mut pool: Vec<u64> = candidates.iter().map(|c| c.0).collect();
    r.shuffle(&mut pool);
    let mut used = vec![];
    for k in 0..nunits {
        let off = match pattern {
            0 => pool[0],
            1 => pool[k % pool.len()],
            2 => pool[(k / 2) % pool.len()],
            3 => pool[(k / 3) % pool.len()],
            _ => *r.pick(&pool),
        };
        used.push(off);
    }
    let mut info = Asm::new(le);
    info.map = false;
    for (k, off) in used.iter().enumerate() {
        let fmt64 = r.chance(1, 4);
        let version = 2 + r.below(4) as u16;
        let addr = *r.pick(&[1u8, 2, 4, 8]);
        let m = info.begin_length(fmt64);
        info.u16(version);
        if version >= 5 {
            info.u8(1).u8(addr).word(fmt64, *off);
        } else {
            info.word(fmt64, *off).u8(addr);
        }
        info.u8(1).cstr(format!("u{k}").as_bytes());
        info.u8(0);
        info.end_length(m);
    }
    if r.chance(1, 5) {
        // trailing garbage: the unit iterator ends with an error
        let ng = 1 + r.usize(6);
        let g = r.bytes(ng);
        info.bytes(&g);
    }
    // ---- type units (v4 .debug_types)
    let mut types = Asm::new(le);
    types.map = false;
    let ntypes = if r.chance(1, 3) { 1 + r.usize(2) } else { 0 };
    for k in 0..ntypes {
        let fmt64 = r.chance(1, 4);
        let off = *r.pick(&pool);
        let m = types.begin_length(fmt64);
        types.u16(4).word(fmt64, off).u8(8);
        types.u64(0x1000 + k as u64);
        types.word(fmt64, if fmt64 { 12 + 2 + 8 + 1 + 8 + 8 } else { 4 + 2 + 4 + 1 + 8 + 4 });
        types.u8(1).cstr(b"t").u8(0);
        types.end_length(m);
    }
    Gen { le, abbrev, info: info.buf, types: types.buf, candidates, used }
}

fn load<'a>(g: &'a Gen) -> gimli::Dwarf<R<'a>> {
    let endian = if g.le { RunTimeEndian::Little } else { RunTimeEndian::Big };
    static EMPTY: [u8; 0] = [];
    gimli::Dwarf::load(|id| {
        Ok::<_, ()>(EndianSlice::new(
            match id {
                SectionId::DebugAbbrev => &g.abbrev[..],
                SectionId::DebugInfo => &g.info[..],
                SectionId::DebugTypes => &g.types[..],
                _ => &EMPTY[..],
            },
            endian,
        ))
    })
    .unwrap()
}

fn headers<'a>(d: &gimli::Dwarf<R<'a>>) -> Vec<UnitHeader<R<'a>>> {
    let mut v = vec![];
    let mut it = d.units();
    while let Ok(Some(h)) = it.next() {
        v.push(h);
        if v.len() > 64 {
            break;
        }
    }
    let mut it = d.type_units();
    while let Ok(Some(h)) = it.next() {
        v.push(h);
        if v.len() > 80 {
            break;
        }
    }
    v
}

type Res = Result<String, gimli::Error>;

fn abbr_nocache(d: &gimli::Dwarf<R<'_>>, h: &UnitHeader<R<'_>>) -> Res {
    d.debug_abbrev.abbreviations(h.debug_abbrev_offset()).map(|a| format!("{a:?}"))
}

fn abbr(d: &gimli::Dwarf<R<'_>>, h: &UnitHeader<R<'_>>) -> Res {
    d.abbreviations(h).map(|a| format!("{:?}", &*a))
}

fn unit<'a>(d: &gimli::Dwarf<R<'a>>, h: &UnitHeader<R<'a>>) -> Res {
    d.unit(*h).map(|u| format!("{u:?}"))
}

fn strat_name(s: Strat) -> &'static str {
    match s {
        Strat::Duplicates => "Duplicates",
        Strat::All => "All",
        _ => "other",
    }
}

fn sequences() -> Vec<Vec<Strat>> {
    use Strat::*;
    vec![
        vec![],
        vec![Duplicates],
        vec![All],
        vec![Duplicates, Duplicates],
        vec![Duplicates, All],
        vec![All, Duplicates],
        vec![All, All],
        vec![Duplicates, All, Duplicates],
        vec![All, Duplicates, All],
        vec![All, All, Duplicates],
        vec![Duplicates, Duplicates, All],
    ]
}

struct Base {
    abbr: Vec<Res>,
    unit: Vec<Res>,
}

fn baseline<'a>(g: &'a Gen, out: &mut Out) -> (Vec<UnitHeader<R<'a>>>, Base) {
    let d0 = load(g);
    let hs = headers(&d0);
    let mut b = Base { abbr: vec![], unit: vec![] };
    for h in &hs {
        let want = abbr_nocache(&d0, h);
        let got = abbr(&d0, h);
        out.evals += 1;
        out.cmp("cache.none.abbreviations", &want, &got, &|| format!("unit at {:?}, no populate call", h.offset()));
        out.stats.add("cache.none");
        out.stats.add(if want.is_ok() { "cache.abbrev.ok" } else { "cache.abbrev.err" });
        let u = unit(&d0, h);
        out.stats.add(if u.is_ok() { "cache.unit.ok" } else { "cache.unit.err" });
        b.abbr.push(want);
        b.unit.push(u);
    }
    (hs, b)
}

fn check_against<'a>(d: &gimli::Dwarf<R<'a>>, hs: &[UnitHeader<R<'a>>], base: &Base, what: &str, out: &mut Out) {
    let order: Vec<usize> = (0..hs.len()).chain((0..hs.len()).rev()).collect();
    for &k in &order {
        let h = &hs[k];
        let note = || format!("{what}: unit #{k} at {:?} abbrev offset {:#x}", h.offset(), h.debug_abbrev_offset().0);
        for _rep in 0..2 {
            out.evals += 1;
            out.cmp("cache.abbreviations", &base.abbr[k], &abbr(d, h), &note);
        }
        out.evals += 1;
        out.cmp("cache.unit", &base.unit[k], &unit(d, h), &note);
    }
}

fn cache_case(g: &Gen, g2: &Gen, r: &mut Rng, out: &mut Out) {
    let (hs, base) = baseline(g, out);
    // usage statistics (from the generator, not from gimli)
    let mut uses: BTreeMap<u64, usize> = BTreeMap::new();
    for o in &g.used {
        *uses.entry(*o).or_insert(0) += 1;
    }
    for (o, n) in &uses {
        out.stats.add(match n {
            1 => "cache.offset.used1",
            2 => "cache.offset.used2",
            _ => "cache.offset.used3plus",
        });
        if g.candidates.iter().any(|c| c.0 == *o && c.1.starts_with("invalid")) {
            out.stats.add("cache.offset.invalid");
        }
    }
    if !g.types.is_empty() {
        out.stats.add("cache.type_units");
    }
    for seq in sequences() {
        let mut d = load(g);
        for s in &seq {
            d.populate_abbreviations_cache(*s);
        }
        let what = format!("populate sequence {:?}", seq);
        check_against(&d, &hs, &base, &what, out);
        if let Some(s) = seq.last() {
            out.stats.add(&format!("cache.{}", strat_name(*s)));
        }
        match seq.len() {
            2 => out.stats.add("cache.populate.x2"),
            3 => out.stats.add("cache.populate.x3"),
            _ => {}
        }
    }
    // populate on other sections first, then swap the sections and populate again
    {
        let (hs2, base2) = {
            let mut o2 = Out::default();
            let x = baseline(g2, &mut o2);
            out.mis.extend(o2.mis);
            x
        };
        if g.le == g2.le {
            for (first, second) in [(Strat::All, Strat::Duplicates), (Strat::All, Strat::All), (Strat::Duplicates, Strat::Duplicates), (Strat::Duplicates, Strat::All)] {
                let mut d = load(g);
                d.populate_abbreviations_cache(first);
                let d2 = load(g2);
                d.debug_abbrev = d2.debug_abbrev;
                d.debug_info = d2.debug_info;
                d.debug_types = d2.debug_types;
                d.populate_abbreviations_cache(second);
                let what = format!("populate({first:?}) on other sections, sections replaced, populate({second:?})");
                check_against(&d, &hs2, &base2, &what, out);
                out.stats.add("cache.swap");
            }
        }
    }
    // the cache object directly: populate from a (possibly advanced) unit iterator, then
    // `get` at every candidate offset and its neighbours
    {
        let d = load(g);
        let debug_abbrev: DebugAbbrev<R<'_>> = d.debug_abbrev;
        for strat in [Strat::Duplicates, Strat::All] {
            let mut cache = AbbreviationsCache::new();
            let mut it = d.debug_info.units();
            let skip = r.usize(3);
            for _ in 0..skip {
                let _ = it.next();
            }
            cache.populate(strat, &debug_abbrev, it);
            if r.bool() {
                // a second populate discards the first
                cache.populate(if r.bool() { Strat::All } else { Strat::Duplicates }, &debug_abbrev, d.debug_info.units());
            }
            let mut offs: Vec<u64> = vec![];
            for c in &g.candidates {
                offs.extend_from_slice(&[c.0, c.0.wrapping_add(1), c.0.wrapping_sub(1)]);
            }
            for off in offs {
                let o = DebugAbbrevOffset(off as usize);
                let want: Res = debug_abbrev.abbreviations(o).map(|a| format!("{a:?}"));
                let got: Res = cache.get(&debug_abbrev, o).map(|a| format!("{:?}", &*a));
                out.evals += 1;
                out.cmp("cache.get", &want, &got, &|| format!("AbbreviationsCache::get at offset {off:#x} after populate({strat:?}) skipping {skip} units"));
            }
        }
    }
}

fn gen_json(g: &Gen) -> serde_json::Value {
    json!({"le": g.le, "debug_abbrev": hex(&g.abbrev), "debug_info": hex(&g.info), "debug_types": hex(&g.types),
        "candidates": g.candidates.iter().map(|c| format!("{:#x}:{}", c.0, c.1)).collect::<Vec<_>>(), "unit_offsets": g.used})
}

pub fn run(ctx: &mut Ctx) {
    let n = ctx.size(3_000, 30_000, 6);
    for i in 0..n {
        if !ctx.want("abbrev.cache", i) {
            continue;
        }
        let mut r = ctx.rng("abbrev.cache", i);
        let g = gen(&mut r);
        let mut g2 = gen(&mut r);
        if g2.le != g.le {
            // same byte order so that the sections can be swapped into one Dwarf
            let mut r3 = ctx.rng("abbrev.cache.alt", i);
            for _ in 0..8 {
                g2 = gen(&mut r3);
                if g2.le == g.le {
                    break;
                }
            }
        }
        let input = || json!({"sections": gen_json(&g), "swap_sections": gen_json(&g2)});
        let mut r2 = r.clone();
        let res = ctx.guard("AbbreviationsCache", &input, || {
            let mut out = Out::default();
            cache_case(&g, &g2, &mut r2, &mut out);
            out
        });
        flush(ctx, res, &input);
        let mut d = crate::rt::fnv(b"cache");
        d = crate::rt::fnv_add(d, &g.abbrev);
        d = crate::rt::fnv_add(d, &g.info);
        d = crate::rt::fnv_add(d, &g.types);
        if g.used.len() >= 2 {
            ctx.nontrivial(d);
        }
        if i < 2 {
            ctx.sample("abbrev.cache", || gen_json(&g));
        }
    }
}

//! C17: split-DWARF packages — a unit fetched from a package reads exactly like the unit in
//! its standalone object.

use super::super::{ceq, cfail, endian, guarded, Rd};
use crate::asm::Enc;
use crate::gen::index::*;
use crate::model::index::*;
use crate::rt::{hex, Ctx, Rng};
use gimli::{EndianSlice, Reader, Section, SectionId};
use serde_json::{json, Value};

/// Structured facts extracted from a unit (compared with the generator's model).
#[derive(Debug, Clone, PartialEq, Eq)]
pub struct Fact {
    pub depth: isize,
    pub tag: u16,
    pub name: Option<Vec<u8>>,
    pub low_pc: Option<u64>,
}

#[derive(Default)]
pub struct UnitDump {
    pub lines: Vec<String>,
    pub facts: Vec<Fact>,
    pub id: Option<u64>,
    pub resolved: BTreeCounts,
}

#[derive(Default, Debug, Clone)]
pub struct BTreeCounts {
    pub strx: u64,
    pub addrx: u64,
    pub rnglist: u64,
    pub loclist: u64,
    pub line: u64,
    pub errors: u64,
}

fn bytes_of<R: Reader<Offset = usize>>(r: &R) -> Vec<u8> {
    r.to_slice().map(|c| c.to_vec()).unwrap_or_default()
}

/// Render everything gimli reports for one unit, without absolute section offsets.
pub fn dump_unit<R: Reader<Offset = usize>>(dwarf: &gimli::Dwarf<R>, header: gimli::UnitHeader<R>, addr_base: usize) -> UnitDump {
    use gimli::AttributeValue as AV;
    let mut d = UnitDump::default();
    let ut = header.type_();
    d.id = match ut {
        gimli::UnitType::SplitCompilation(id) | gimli::UnitType::Skeleton(id) => Some(id.0),
        gimli::UnitType::Type { type_signature, .. } | gimli::UnitType::SplitType { type_signature, .. } => Some(type_signature.0),
        _ => None,
    };
    d.lines.push(format!(
        "header v{} {:?} addr{} len{} type {:?} abbrev_off {}",
        header.version(),
        header.format(),
        header.address_size(),
        header.unit_length(),
        ut,
        header.debug_abbrev_offset().0
    ));
    let mut unit = match dwarf.unit(header) {
        Ok(u) => u,
        Err(e) => {
            d.lines.push(format!("unit: Err({e:?})"));
            d.resolved.errors += 1;
            return d;
        }
    };
    unit.addr_base = gimli::DebugAddrBase(addr_base);
    if d.id.is_none() {
        d.id = unit.dwo_id.map(|x| x.0);
    }
    d.lines.push(format!(
        "unit name {:?} comp_dir {:?} low_pc {:#x} str_offsets_base {} loclists_base {} rnglists_base {} dwo_id {:?}",
        unit.name.as_ref().map(|n| String::from_utf8_lossy(&bytes_of(n)).to_string()),
        unit.comp_dir.as_ref().map(|n| String::from_utf8_lossy(&bytes_of(n)).to_string()),
        unit.low_pc,
        unit.str_offsets_base.0,
        unit.loclists_base.0,
        unit.rnglists_base.0,
        unit.dwo_id
    ));
    if let Some(lp) = &unit.line_program {
        let h = lp.header();
        d.resolved.line += 1;
        let mut files = vec![];
        for f in h.file_names() {
            match dwarf.attr_string(&unit, f.path_name()) {
                Ok(s) => files.push(format!("{}@{}", String::from_utf8_lossy(&bytes_of(&s)), f.directory_index())),
                Err(e) => files.push(format!("Err({e:?})")),
            }
        }
        let mut dirs = vec![];
        for f in h.include_directories() {
            match dwarf.attr_string(&unit, f.clone()) {
                Ok(s) => dirs.push(String::from_utf8_lossy(&bytes_of(&s)).to_string()),
                Err(e) => dirs.push(format!("Err({e:?})")),
            }
        }
        d.lines.push(format!("line v{} files {:?} dirs {:?} line_base {} line_range {}", h.version(), files, dirs, h.line_base(), h.line_range()));
    } else {
        d.lines.push("line none".into());
    }
    let mut cursor = unit.entries();
    let mut count = 0;
    loop {
        let entry = match cursor.next_dfs() {
            Ok(Some(e)) => e,
            Ok(None) => break,
            Err(e) => {
                d.lines.push(format!("entries: Err({e:?})"));
                d.resolved.errors += 1;
                break;
            }
        };
        count += 1;
        if count > 10_000 {
            break;
        }
        let mut fact = Fact { depth: entry.depth(), tag: entry.tag().0, name: None, low_pc: None };
        d.lines.push(format!("die +{:#x} depth {} tag {:#x}", entry.offset().0, entry.depth(), entry.tag().0));
        for attr in entry.attrs() {
            let v = attr.value();
            let mut line = format!("  attr {:#x} = ", attr.name().0);
            match &v {
                AV::String(_) | AV::DebugStrRef(_) | AV::DebugStrOffsetsIndex(_) | AV::DebugLineStrRef(_) | AV::DebugStrRefSup(_) => {
                    if let AV::DebugStrOffsetsIndex(i) = &v {
                        line += &format!("strx {} ", i.0);
                        d.resolved.strx += 1;
                    }
                    match dwarf.attr_string(&unit, v.clone()) {
                        Ok(s) => {
                            let b = bytes_of(&s);
                            line += &format!("string {:?}", String::from_utf8_lossy(&b));
                            if attr.name() == gimli::DW_AT_name {
                                fact.name = Some(b);
                            }
                        }
                        Err(e) => {
                            line += &format!("string Err({e:?})");
                            d.resolved.errors += 1;
                        }
                    }
                }
                AV::Addr(_) | AV::DebugAddrIndex(_) => {
                    if let AV::DebugAddrIndex(i) = &v {
                        line += &format!("addrx {} ", i.0);
                        d.resolved.addrx += 1;
                    }
                    match dwarf.attr_address(&unit, v.clone()) {
                        Ok(a) => {
                            line += &format!("address {a:x?}");
                            if attr.name() == gimli::DW_AT_low_pc {
                                fact.low_pc = a;
                            }
                        }
                        Err(e) => {
                            line += &format!("address Err({e:?})");
                            d.resolved.errors += 1;
                        }
                    }
                }
                _ => {
                    // raw rendering for values without section references
                    match &v {
                        AV::Udata(x) => line += &format!("udata {x}"),
                        AV::Sdata(x) => line += &format!("sdata {x}"),
                        AV::Data1(x) => line += &format!("data1 {x}"),
                        AV::Data2(x) => line += &format!("data2 {x}"),
                        AV::Data4(x) => line += &format!("data4 {x}"),
                        AV::Data8(x) => line += &format!("data8 {x}"),
                        AV::UnitRef(x) => line += &format!("unitref {:#x}", x.0),
                        AV::DwoId(x) => line += &format!("dwo_id {:#x}", x.0),
                        AV::Language(x) => line += &format!("language {:#x}", x.0),
                        AV::DebugLineRef(x) => line += &format!("lineref {}", x.0),
                        AV::SecOffset(x) => line += &format!("secoffset {x}"),
                        AV::RangeListsRef(x) => line += &format!("rangelistsref {}", x.0),
                        AV::LocationListsRef(x) => line += &format!("loclistsref {}", x.0),
                        AV::DebugRngListsIndex(x) => line += &format!("rnglistx {}", x.0),
                        AV::DebugLocListsIndex(x) => line += &format!("loclistx {}", x.0),
                        other => {
                            // readers inside are rendered by content
                            line += &format!("other {}", variant_name(&format!("{other:?}")));
                        }
                    }
                    if attr.name() == gimli::DW_AT_ranges {
                        match dwarf.attr_ranges(&unit, v.clone()) {
                            Ok(Some(mut it)) => {
                                d.resolved.rnglist += 1;
                                let mut rs = vec![];
                                for _ in 0..64 {
                                    match it.next() {
                                        Ok(Some(r)) => rs.push(format!("{:#x}..{:#x}", r.begin, r.end)),
                                        Ok(None) => break,
                                        Err(e) => {
                                            rs.push(format!("Err({e:?})"));
                                            d.resolved.errors += 1;
                                            break;
                                        }
                                    }
                                }
                                line += &format!(" ranges {rs:?}");
                            }
                            Ok(None) => line += " ranges none",
                            Err(e) => {
                                line += &format!(" ranges Err({e:?})");
                                d.resolved.errors += 1;
                            }
                        }
                    }
                    if attr.name() == gimli::DW_AT_location {
                        match dwarf.attr_locations(&unit, v.clone()) {
                            Ok(Some(mut it)) => {
                                d.resolved.loclist += 1;
                                let mut rs = vec![];
                                for _ in 0..64 {
                                    match it.next() {
                                        Ok(Some(l)) => rs.push(format!("{:#x}..{:#x}:{}", l.range.begin, l.range.end, hex(&bytes_of(&l.data.0)))),
                                        Ok(None) => break,
                                        Err(e) => {
                                            rs.push(format!("Err({e:?})"));
                                            d.resolved.errors += 1;
                                            break;
                                        }
                                    }
                                }
                                line += &format!(" locations {rs:?}");
                            }
                            Ok(None) => line += " locations none",
                            Err(e) => {
                                line += &format!(" locations Err({e:?})");
                                d.resolved.errors += 1;
                            }
                        }
                    }
                }
            }
            d.lines.push(line);
        }
        d.facts.push(fact);
    }
    d
}

fn variant_name(s: &str) -> String {
    s.split(|c: char| c == '(' || c == ' ' || c == '{').next().unwrap_or("").to_string()
}

/// Macro information at offset 0 of both macro sections.
fn dump_macros<R: Reader<Offset = usize>>(dwarf: &gimli::Dwarf<R>, out: &mut Vec<String>) -> u64 {
    let mut n = 0;
    for which in 0..2 {
        let empty = if which == 0 { dwarf.debug_macinfo.reader().is_empty() } else { dwarf.debug_macro.reader().is_empty() };
        if empty {
            out.push(format!("macro{which}: empty"));
            continue;
        }
        let it = if which == 0 { dwarf.macinfo(gimli::DebugMacinfoOffset(0)) } else { dwarf.macros(gimli::DebugMacroOffset(0)) };
        match it {
            Ok(mut it) => {
                for _ in 0..16 {
                    match it.next() {
                        Ok(Some(e)) => {
                            n += 1;
                            let text = match &e {
                                gimli::MacroEntry::Define { line, text } | gimli::MacroEntry::Undef { line, name: text } => match text {
                                    gimli::MacroString::Direct(s) => format!("{} {:?}", line, String::from_utf8_lossy(&bytes_of(s))),
                                    _ => format!("{line} indirect"),
                                },
                                _ => "other".to_string(),
                            };
                            out.push(format!("macro{which}: {} {}", variant_name(&format!("{e:?}")), text));
                        }
                        Ok(None) => break,
                        Err(e) => {
                            out.push(format!("macro{which}: Err({e:?})"));
                            break;
                        }
                    }
                }
            }
            Err(e) => out.push(format!("macro{which}: Err({e:?})")),
        }
    }
    n
}

/// Dump every unit (`.debug_info` then `.debug_types`) of a Dwarf.
pub fn dump_all<R: Reader<Offset = usize>>(dwarf: &gimli::Dwarf<R>, addr_base: usize) -> Vec<UnitDump> {
    let mut out = vec![];
    let mut it = dwarf.units();
    for _ in 0..64 {
        match it.next() {
            Ok(Some(h)) => out.push(dump_unit(dwarf, h, addr_base)),
            Ok(None) => break,
            Err(e) => {
                let mut d = UnitDump::default();
                d.lines.push(format!("units: Err({e:?})"));
                d.resolved.errors += 1;
                out.push(d);
                break;
            }
        }
    }
    let mut it = dwarf.type_units();
    for _ in 0..64 {
        match it.next() {
            Ok(Some(h)) => out.push(dump_unit(dwarf, h, addr_base)),
            Ok(None) => break,
            Err(e) => {
                let mut d = UnitDump::default();
                d.lines.push(format!("type_units: Err({e:?})"));
                d.resolved.errors += 1;
                out.push(d);
                break;
            }
        }
    }
    out
}

fn pkg_json(p: &Package) -> Value {
    json!({
        "enc": p.enc.label(),
        "cu_index": {"columns": p.cu_index.columns.iter().map(|c| c.name()).collect::<Vec<_>>(), "slots": p.cu_index.slots.iter().map(|s| format!("{:#x}:{}", s.0, s.1)).collect::<Vec<_>>(), "rows": format!("{:?}", p.cu_index.rows)},
        "tu_index": {"columns": p.tu_index.columns.iter().map(|c| c.name()).collect::<Vec<_>>(), "slots": p.tu_index.slots.iter().map(|s| format!("{:#x}:{}", s.0, s.1)).collect::<Vec<_>>(), "rows": format!("{:?}", p.tu_index.rows)},
        "sections": p.secs.iter().map(|(k, v)| (k.name().to_string(), json!(hex(v)))).collect::<serde_json::Map<_, _>>(),
        "debug_str": hex(&p.str),
        "parent_debug_addr": hex(&p.parent_addr),
        "parent_debug_ranges": hex(&p.parent_ranges),
    })
}

fn kind_for(id: SectionId) -> Option<SectKind> {
    Some(match id {
        SectionId::DebugAbbrev => SectKind::Abbrev,
        SectionId::DebugInfo => SectKind::Info,
        SectionId::DebugLine => SectKind::Line,
        SectionId::DebugLoc => SectKind::Loc,
        SectionId::DebugLocLists => SectKind::LocLists,
        SectionId::DebugMacinfo => SectKind::Macinfo,
        SectionId::DebugMacro => SectKind::Macro,
        SectionId::DebugRngLists => SectKind::RngLists,
        SectionId::DebugStrOffsets => SectKind::StrOffsets,
        SectionId::DebugTypes => SectKind::Types,
        _ => return None,
    })
}

pub fn pkg_stream(ctx: &mut Ctx) {
    let n = ctx.size(4_000, 30_000, 6);
    for i in 0..n {
        if !ctx.want("pkg", i) {
            continue;
        }
        let mut r = ctx.rng("pkg", i);
        let base = Enc::nth(i);
        let enc = Enc::new(base.le, base.fmt64, if i / 64 % 2 == 0 { 5 } else { 4 }, base.addr);
        let n_obj = match r.below(6) {
            0 => 1,
            1 => 6,
            _ => 2 + r.usize(3),
        };
        let p = gen_package(&mut r, enc, n_obj);
        let cu_b = asm_unit_index(&p.cu_index, enc.le).buf;
        let tu_b = asm_unit_index(&p.tu_index, enc.le).buf;
        let input = || {
            let mut v = pkg_json(&p);
            v["debug_cu_index"] = json!(hex(&cu_b));
            v["debug_tu_index"] = json!(hex(&tu_b));
            v
        };
        ctx.eval();
        guarded(ctx, "pkg", &input, |ctx| {
            let e = endian(enc.le);
            let empty_b: &[u8] = &[];
            let empty = EndianSlice::new(empty_b, e);
            ctx.obs(if enc.version >= 5 { "pkg.v5" } else { "pkg.v2" });
            if p.objects.len() > 1 {
                ctx.obs("pkg.multi");
            }
            let parent: gimli::Dwarf<Rd> = match gimli::Dwarf::load(|id| -> Result<Rd, gimli::Error> {
                Ok(EndianSlice::new(
                    match id {
                        SectionId::DebugAddr => &p.parent_addr[..],
                        SectionId::DebugRanges => &p.parent_ranges[..],
                        _ => empty_b,
                    },
                    e,
                ))
            }) {
                Ok(d) => d,
                Err(_) => return,
            };
            let dwp = gimli::DwarfPackage::load(
                |id| -> Result<Rd, gimli::Error> {
                    Ok(EndianSlice::new(
                        match id {
                            SectionId::DebugCuIndex => &cu_b[..],
                            SectionId::DebugTuIndex => &tu_b[..],
                            SectionId::DebugStr => &p.str[..],
                            other => kind_for(other).and_then(|k| p.secs.get(&k)).map(|v| &v[..]).unwrap_or(empty_b),
                        },
                        e,
                    ))
                },
                empty,
            );
            let dwp = match dwp {
                Ok(d) => d,
                Err(err) => {
                    cfail(ctx, "pkg.load", &format!("DwarfPackage::load failed on a well-formed package: {err:?}"), &input);
                    return;
                }
            };
            let addr_base = p.parent_addr_base as usize;
            for (oi, obj) in p.objects.iter().enumerate() {
                // ---- the standalone object
                let mut alone: gimli::Dwarf<Rd> = match gimli::Dwarf::load(|id| -> Result<Rd, gimli::Error> {
                    Ok(EndianSlice::new(
                        match id {
                            SectionId::DebugStr => &obj.str[..],
                            other => kind_for(other).and_then(|k| obj.secs.get(&k)).map(|v| &v[..]).unwrap_or(empty_b),
                        },
                        e,
                    ))
                }) {
                    Ok(d) => d,
                    Err(_) => return,
                };
                alone.make_dwo(&parent);
                let alone_units = dump_all(&alone, addr_base);
                let mut alone_macros = vec![];
                dump_macros(&alone, &mut alone_macros);
                for um in &obj.units {
                    let tagk = if um.is_type { "tu" } else { "cu" };
                    ctx.obs(if um.is_type { "pkg.tu" } else { "pkg.cu" });
                    let found = if um.is_type {
                        dwp.find_tu(gimli::DebugTypeSignature(um.id), &parent)
                    } else {
                        dwp.find_cu(gimli::DwoId(um.id), &parent)
                    };
                    let sub = match found {
                        Ok(Some(d)) => d,
                        Ok(None) => {
                            cfail(ctx, &format!("pkg.find_{tagk}.none"), &format!("unit {:#x} of object {oi} not found in the package", um.id), &input);
                            continue;
                        }
                        Err(err) => {
                            cfail(ctx, &format!("pkg.find_{tagk}.err"), &format!("unit {:#x} of object {oi}: {err:?}", um.id), &input);
                            continue;
                        }
                    };
                    ceq(ctx, &format!("pkg.find_{tagk}.file_type"), &true, &(sub.file_type == gimli::DwarfFileType::Dwo), &input);
                    let got = dump_all(&sub, addr_base);
                    if got.len() != 1 {
                        ceq(ctx, &format!("pkg.find_{tagk}.unit_count"), &1usize, &got.len(), &input);
                        continue;
                    }
                    let g = &got[0];
                    // the standalone unit with the same id
                    let Some(a) = alone_units.iter().find(|u| u.id == Some(um.id)) else {
                        cfail(ctx, "pkg.standalone.missing", &format!("unit {:#x} not found in its standalone object {oi}", um.id), &input);
                        continue;
                    };
                    if a.lines != g.lines {
                        let first = a.lines.iter().zip(g.lines.iter()).position(|(x, y)| x != y).unwrap_or(a.lines.len().min(g.lines.len()));
                        ceq(ctx, 
                            &format!("pkg.find_{tagk}.dump"),
                            &a.lines.get(first),
                            &g.lines.get(first),
                            &|| json!({"unit": format!("{:#x}", um.id), "object": oi, "standalone": a.lines, "package": g.lines, "pkg": input()}),
                        );
                    }
                    // generator facts: structure, names, addresses
                    let want: Vec<Fact> = um.dies.iter().map(|d| Fact { depth: d.depth as isize, tag: d.tag, name: d.name.clone(), low_pc: d.low_pc }).collect();
                    if want != g.facts {
                        ceq(ctx, &format!("pkg.find_{tagk}.model"), &want, &g.facts, &|| json!({"unit": format!("{:#x}", um.id), "object": oi, "package": g.lines, "pkg": input()}));
                    }
                    if want != a.facts {
                        ceq(ctx, "pkg.standalone.model", &want, &a.facts, &|| json!({"unit": format!("{:#x}", um.id), "object": oi, "standalone": a.lines, "pkg": input()}));
                    }
                    if g.resolved.errors > 0 {
                        ctx.obs("pkg.resolve_errors");
                    }
                    ctx.obs_n("pkg.strx", g.resolved.strx);
                    ctx.obs_n("pkg.addrx", g.resolved.addrx);
                    ctx.obs_n("pkg.rnglist", g.resolved.rnglist);
                    ctx.obs_n("pkg.loclist", g.resolved.loclist);
                    ctx.obs_n("pkg.line", g.resolved.line);
                    // macro sections of the compile unit's row
                    if !um.is_type {
                        let mut gm = vec![];
                        let nm = dump_macros(&sub, &mut gm);
                        ctx.obs_n("pkg.macro", nm);
                        ceq(ctx, "pkg.find_cu.macros", &alone_macros, &gm, &input);
                    }
                    // the row-number path gives the same unit
                    let idxm = if um.is_type { &p.tu_index } else { &p.cu_index };
                    if let Some(row) = idxm.linear_find(um.id) {
                        let by_row = if um.is_type { dwp.tu_sections(row, &parent) } else { dwp.cu_sections(row, &parent) };
                        match by_row {
                            Ok(d2) => {
                                let got2 = dump_all(&d2, addr_base);
                                let l2: Vec<&Vec<String>> = got2.iter().map(|u| &u.lines).collect();
                                ceq(ctx, &format!("pkg.{tagk}_sections.dump"), &vec![&g.lines], &l2, &input);
                                // sections that never come from the package
                                ceq(ctx, "pkg.sections.debug_addr", &p.parent_addr, &d2.debug_addr.reader().slice().to_vec(), &input);
                                ceq(ctx, "pkg.sections.debug_ranges", &p.parent_ranges, &d2.ranges.debug_ranges().reader().slice().to_vec(), &input);
                                ceq(ctx, "pkg.sections.debug_str", &p.str, &d2.debug_str.reader().slice().to_vec(), &input);
                                ceq(ctx, "pkg.sections.debug_line_str", &0usize, &d2.debug_line_str.reader().len(), &input);
                                ceq(ctx, "pkg.sections.debug_aranges", &0usize, &d2.debug_aranges.reader().len(), &input);
                                ceq(ctx, "pkg.sections.debug_names", &0usize, &d2.debug_names.reader().len(), &input);
                                // every contribution is exactly the row's (offset, size) window
                                if let Some(cs) = idxm.contributions(row) {
                                    for (k, off, size) in cs {
                                        let want = p.secs.get(&k).map(|v| v[off as usize..(off + size) as usize].to_vec()).unwrap_or_default();
                                        let got = match k {
                                            SectKind::Abbrev => d2.debug_abbrev.reader().slice().to_vec(),
                                            SectKind::Info => d2.debug_info.reader().slice().to_vec(),
                                            SectKind::Types => d2.debug_types.reader().slice().to_vec(),
                                            SectKind::Line => d2.debug_line.reader().slice().to_vec(),
                                            SectKind::StrOffsets => d2.debug_str_offsets.reader().slice().to_vec(),
                                            SectKind::Macinfo => d2.debug_macinfo.reader().slice().to_vec(),
                                            SectKind::Macro => d2.debug_macro.reader().slice().to_vec(),
                                            SectKind::RngLists => d2.ranges.debug_rnglists().reader().slice().to_vec(),
                                            // no accessor for the location sections: covered by the dumps
                                            SectKind::Loc | SectKind::LocLists => want.clone(),
                                        };
                                        if want != got {
                                            ceq(ctx, &format!("pkg.sections.window.{}", k.name()), &hex(&want), &hex(&got), &input);
                                        }
                                    }
                                }
                            }
                            Err(err) => cfail(ctx, &format!("pkg.{tagk}_sections.err"), &format!("row {row}: {err:?}"), &input),
                        }
                    }
                }
            }
            // absent ids, and ids of the other index
            let mut absent = gen_absent(&mut r, &p.cu_index, 6);
            absent.extend(p.tu_index.present_ids());
            for id in absent {
                if p.cu_index.linear_find(id).is_some() {
                    continue;
                }
                ctx.obs("pkg.absent");
                match dwp.find_cu(gimli::DwoId(id), &parent) {
                    Ok(None) => {}
                    other => cfail(ctx, "pkg.find_cu.absent", &format!("absent id {id:#x}: {:?}", other.map(|o| o.is_some())), &input),
                }
            }
            let mut absent = gen_absent(&mut r, &p.tu_index, 6);
            absent.extend(p.cu_index.present_ids());
            for id in absent {
                if p.tu_index.linear_find(id).is_some() {
                    continue;
                }
                ctx.obs("pkg.absent");
                match dwp.find_tu(gimli::DebugTypeSignature(id), &parent) {
                    Ok(None) => {}
                    other => cfail(ctx, "pkg.find_tu.absent", &format!("absent signature {id:#x}: {:?}", other.map(|o| o.is_some())), &input),
                }
            }
            // rows that do not exist
            for row in [0u32, p.cu_index.rows.len() as u32 + 1] {
                ceq(ctx, "pkg.cu_sections.invalid_row", &true, &dwp.cu_sections(row, &parent).is_err(), &input);
            }
            for row in [0u32, p.tu_index.rows.len() as u32 + 1] {
                ceq(ctx, "pkg.tu_sections.invalid_row", &true, &dwp.tu_sections(row, &parent).is_err(), &input);
            }
        });
        let mut dg = crate::rt::fnv(&cu_b);
        for v in p.secs.values() {
            dg = crate::rt::fnv_add(dg, v);
        }
        ctx.nontrivial(dg);
        if i == 1 || i == 65 {
            ctx.sample("pkg", || {
                json!({"enc": enc.label(), "objects": p.objects.len(), "cu_ids": p.cu_index.present_ids().iter().map(|x| format!("{x:#x}")).collect::<Vec<_>>(),
                "tu_ids": p.tu_index.present_ids().iter().map(|x| format!("{x:#x}")).collect::<Vec<_>>(), "debug_cu_index": hex(&cu_b)})
            });
        }
    }
}

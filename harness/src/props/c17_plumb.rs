//! C17: the plumbing clause.  The loader returns, for every `SectionId`, bytes that spell
//! that id's name (prefixed with the role of the file: main / sup / dwo / dwp); every field
//! of every loading API must hold the bytes of its own id (or of the documented source).

use super::super::{ceq, cfail, endian, guarded, Rd};
use crate::gen::index::*;
use crate::model::index::*;
use crate::rt::{hex, Ctx};
use gimli::{EndianSlice, Reader, Section, SectionId};
use serde_json::{json, Value};
use std::collections::BTreeMap;

pub const ALL_IDS: [SectionId; 23] = [
    SectionId::DebugAbbrev,
    SectionId::DebugAddr,
    SectionId::DebugAranges,
    SectionId::DebugCuIndex,
    SectionId::DebugFrame,
    SectionId::EhFrame,
    SectionId::EhFrameHdr,
    SectionId::DebugInfo,
    SectionId::DebugLine,
    SectionId::DebugLineStr,
    SectionId::DebugLoc,
    SectionId::DebugLocLists,
    SectionId::DebugMacinfo,
    SectionId::DebugMacro,
    SectionId::DebugNames,
    SectionId::DebugPubNames,
    SectionId::DebugPubTypes,
    SectionId::DebugRanges,
    SectionId::DebugRngLists,
    SectionId::DebugStr,
    SectionId::DebugStrOffsets,
    SectionId::DebugTuIndex,
    SectionId::DebugTypes,
];

/// The marker: `<role>:<section name>;` repeated `rep` times.
pub fn marker(role: &str, id: SectionId, rep: usize) -> Vec<u8> {
    let one = format!("{role}:{};", id.name());
    one.repeat(rep.max(1)).into_bytes()
}

struct Markers {
    role: String,
    rep: usize,
    bufs: BTreeMap<&'static str, Vec<u8>>,
    /// ids requested by the API under test, in order
    asked: std::cell::RefCell<Vec<SectionId>>,
}

impl Markers {
    fn new(role: &str, rep: usize) -> Markers {
        let mut bufs = BTreeMap::new();
        for id in ALL_IDS {
            bufs.insert(id.name(), marker(role, id, rep));
        }
        Markers { role: role.to_string(), rep, bufs, asked: Default::default() }
    }
    fn get(&self, id: SectionId) -> &[u8] {
        self.bufs.get(id.name()).map(|v| &v[..]).unwrap_or(&[])
    }
    fn vec(&self, id: SectionId) -> Vec<u8> {
        self.get(id).to_vec()
    }
    fn load_vec(&self, id: SectionId) -> Result<Vec<u8>, gimli::Error> {
        self.asked.borrow_mut().push(id);
        Ok(self.vec(id))
    }
    fn load_slice<'a>(&'a self, id: SectionId, le: bool) -> Result<Rd<'a>, gimli::Error> {
        self.asked.borrow_mut().push(id);
        Ok(EndianSlice::new(self.get(id), endian(le)))
    }
}

const DWARF_IDS: [SectionId; 16] = [
    SectionId::DebugAbbrev,
    SectionId::DebugAddr,
    SectionId::DebugAranges,
    SectionId::DebugInfo,
    SectionId::DebugLine,
    SectionId::DebugLineStr,
    SectionId::DebugMacinfo,
    SectionId::DebugMacro,
    SectionId::DebugNames,
    SectionId::DebugStr,
    SectionId::DebugStrOffsets,
    SectionId::DebugTypes,
    SectionId::DebugLoc,
    SectionId::DebugLocLists,
    SectionId::DebugRanges,
    SectionId::DebugRngLists,
];

/// (field name, id) -> bytes held by that field of a `Dwarf<EndianSlice>` (fields with an
/// accessor).
fn dwarf_fields<'a>(d: &gimli::Dwarf<Rd<'a>>) -> Vec<(&'static str, SectionId, Vec<u8>)> {
    vec![
        ("debug_abbrev", SectionId::DebugAbbrev, d.debug_abbrev.reader().slice().to_vec()),
        ("debug_addr", SectionId::DebugAddr, d.debug_addr.reader().slice().to_vec()),
        ("debug_aranges", SectionId::DebugAranges, d.debug_aranges.reader().slice().to_vec()),
        ("debug_info", SectionId::DebugInfo, d.debug_info.reader().slice().to_vec()),
        ("debug_line", SectionId::DebugLine, d.debug_line.reader().slice().to_vec()),
        ("debug_line_str", SectionId::DebugLineStr, d.debug_line_str.reader().slice().to_vec()),
        ("debug_macinfo", SectionId::DebugMacinfo, d.debug_macinfo.reader().slice().to_vec()),
        ("debug_macro", SectionId::DebugMacro, d.debug_macro.reader().slice().to_vec()),
        ("debug_names", SectionId::DebugNames, d.debug_names.reader().slice().to_vec()),
        ("debug_str", SectionId::DebugStr, d.debug_str.reader().slice().to_vec()),
        ("debug_str_offsets", SectionId::DebugStrOffsets, d.debug_str_offsets.reader().slice().to_vec()),
        ("debug_types", SectionId::DebugTypes, d.debug_types.reader().slice().to_vec()),
        ("ranges.debug_ranges", SectionId::DebugRanges, d.ranges.debug_ranges().reader().slice().to_vec()),
        ("ranges.debug_rnglists", SectionId::DebugRngLists, d.ranges.debug_rnglists().reader().slice().to_vec()),
    ]
}

/// The two location sections have no accessor: probe them through `lookup_offset_id`
/// (pointer identity with the buffer handed out for the id) and through the length of the
/// data that `raw_locations` can skip.
fn loc_probe<'a>(d: &gimli::Dwarf<Rd<'a>>, want_loc: &[u8], want_loclists: &[u8]) -> Vec<String> {
    let mut bad = vec![];
    for (name, want, version) in [("locations.debug_loc", want_loc, 4u16), ("locations.debug_loclists", want_loclists, 5)] {
        let enc = gimli::Encoding { format: gimli::Format::Dwarf32, version, address_size: 4 };
        let ok_at_len = d.locations.raw_locations(gimli::LocationListsOffset(want.len()), enc).is_ok();
        let err_past = d.locations.raw_locations(gimli::LocationListsOffset(want.len() + 1), enc).is_err();
        if !(ok_at_len && err_past) {
            bad.push(format!("{name}: holds data of a different length than its own section ({} bytes expected)", want.len()));
        }
        if want.len() >= 2 {
            let id = gimli::ReaderOffsetId(want.as_ptr() as u64 + 1);
            let sid = if version == 4 { SectionId::DebugLoc } else { SectionId::DebugLocLists };
            match d.locations.lookup_offset_id(id) {
                Some((s, 1)) if s == sid => {}
                other => bad.push(format!("{name}: lookup_offset_id of its own buffer gave {other:?}")),
            }
        }
    }
    bad
}

fn check_dwarf_fields<'a>(ctx: &mut Ctx, sig: &str, d: &gimli::Dwarf<Rd<'a>>, want: &dyn Fn(SectionId) -> &'a [u8], input: &dyn Fn() -> Value) {
    for (name, id, got) in dwarf_fields(d) {
        let w = want(id).to_vec();
        if w != got {
            ceq(ctx, &format!("{sig}.{name}"), &String::from_utf8_lossy(&w).to_string(), &String::from_utf8_lossy(&got).to_string(), input);
        }
    }
    for b in loc_probe(d, want(SectionId::DebugLoc), want(SectionId::DebugLocLists)) {
        cfail(ctx, &format!("{sig}.locations"), &b, input);
    }
    // every buffer is found under its own id by Dwarf::lookup_offset_id (the ids that
    // function consults)
    for id in DWARF_IDS {
        if matches!(id, SectionId::DebugMacinfo | SectionId::DebugMacro | SectionId::DebugNames) {
            continue;
        }
        let w = want(id);
        if w.len() < 2 {
            continue;
        }
        ctx.obs("plumb.lookup_offset_id");
        let got = d.lookup_offset_id(gimli::ReaderOffsetId(w.as_ptr() as u64 + 1));
        // the same buffer may legitimately be referenced from the supplementary file too,
        // but the main file is searched first
        if got != Some((false, id, 1)) {
            ceq(ctx, &format!("{sig}.lookup_offset_id"), &Some((false, id, 1usize)), &got, input);
        }
    }
}

/// Debug rendering of every public field of a `Dwarf<Vec<u8>>` against references built
/// with the section constructors.
fn check_owned_dwarf(ctx: &mut Ctx, sig: &str, d: &gimli::Dwarf<Vec<u8>>, m: &Markers, input: &dyn Fn() -> Value) {
    macro_rules! f {
        ($field:ident, $ty:ident, $id:ident) => {
            let want = format!("{:?}", gimli::$ty::from(m.vec(SectionId::$id)));
            let got = format!("{:?}", d.$field);
            if want != got {
                ceq(ctx, &format!("{}.{}", sig, stringify!($field)), &want, &got, input);
            }
        };
    }
    f!(debug_abbrev, DebugAbbrev, DebugAbbrev);
    f!(debug_addr, DebugAddr, DebugAddr);
    f!(debug_aranges, DebugAranges, DebugAranges);
    f!(debug_info, DebugInfo, DebugInfo);
    f!(debug_line, DebugLine, DebugLine);
    f!(debug_line_str, DebugLineStr, DebugLineStr);
    f!(debug_macinfo, DebugMacinfo, DebugMacinfo);
    f!(debug_macro, DebugMacro, DebugMacro);
    f!(debug_names, DebugNames, DebugNames);
    f!(debug_str, DebugStr, DebugStr);
    f!(debug_str_offsets, DebugStrOffsets, DebugStrOffsets);
    f!(debug_types, DebugTypes, DebugTypes);
    let want = format!("{:?}", gimli::LocationLists::new(gimli::DebugLoc::from(m.vec(SectionId::DebugLoc)), gimli::DebugLocLists::from(m.vec(SectionId::DebugLocLists))));
    let got = format!("{:?}", d.locations);
    if want != got {
        ceq(ctx, &format!("{sig}.locations"), &want, &got, input);
    }
    let want = format!("{:?}", gimli::RangeLists::new(gimli::DebugRanges::from(m.vec(SectionId::DebugRanges)), gimli::DebugRngLists::from(m.vec(SectionId::DebugRngLists))));
    let got = format!("{:?}", d.ranges);
    if want != got {
        ceq(ctx, &format!("{sig}.ranges"), &want, &got, input);
    }
}

fn check_owned_sections(ctx: &mut Ctx, sig: &str, d: &gimli::DwarfSections<Vec<u8>>, m: &Markers, input: &dyn Fn() -> Value) {
    macro_rules! f {
        ($field:ident, $ty:ident, $id:ident) => {
            let want = format!("{:?}", gimli::$ty::from(m.vec(SectionId::$id)));
            let got = format!("{:?}", d.$field);
            if want != got {
                ceq(ctx, &format!("{}.{}", sig, stringify!($field)), &want, &got, input);
            }
        };
    }
    f!(debug_abbrev, DebugAbbrev, DebugAbbrev);
    f!(debug_addr, DebugAddr, DebugAddr);
    f!(debug_aranges, DebugAranges, DebugAranges);
    f!(debug_info, DebugInfo, DebugInfo);
    f!(debug_line, DebugLine, DebugLine);
    f!(debug_line_str, DebugLineStr, DebugLineStr);
    f!(debug_macinfo, DebugMacinfo, DebugMacinfo);
    f!(debug_macro, DebugMacro, DebugMacro);
    f!(debug_names, DebugNames, DebugNames);
    f!(debug_str, DebugStr, DebugStr);
    f!(debug_str_offsets, DebugStrOffsets, DebugStrOffsets);
    f!(debug_types, DebugTypes, DebugTypes);
    f!(debug_loc, DebugLoc, DebugLoc);
    f!(debug_loclists, DebugLocLists, DebugLocLists);
    f!(debug_ranges, DebugRanges, DebugRanges);
    f!(debug_rnglists, DebugRngLists, DebugRngLists);
}

fn asked_ok(ctx: &mut Ctx, sig: &str, m: &Markers, expect: &[SectionId], input: &dyn Fn() -> Value) {
    // every id the API owns was requested exactly once, nothing else
    let mut asked: Vec<&'static str> = m.asked.borrow().iter().map(|i| i.name()).collect();
    let mut want: Vec<&'static str> = expect.iter().map(|i| i.name()).collect();
    asked.sort();
    want.sort();
    ceq(ctx, &format!("{sig}.requested_ids"), &want, &asked, input);
    m.asked.borrow_mut().clear();
}

/// A tiny valid index whose only unit has `id`, for the package loaders (the index
/// sections are parsed while loading, so their marker must be a real index).
fn marker_index(version: u16, id: u64, le: bool, rep: usize) -> (Vec<u8>, UnitIndexM) {
    let cols = SectKind::all_for(version);
    let mut m = UnitIndexM::new(version, cols.clone(), 2);
    let mut row = vec![];
    for (k, c) in cols.iter().enumerate() {
        // windows inside the marker of the column's section: skip k+1 bytes, take a length
        // that covers at least one full period of the marker
        let period = format!("dwp:{};", c.name()).len();
        let off = 1 + k as u32;
        let size = (period * (rep.max(2) - 1)) as u32 - off;
        row.push((off, size));
    }
    m.rows.push(row);
    m.insert(id, 1);
    (asm_unit_index(&m, le).buf, m)
}

const PKG_IDS: [SectionId; 13] = [
    SectionId::DebugCuIndex,
    SectionId::DebugTuIndex,
    SectionId::DebugAbbrev,
    SectionId::DebugInfo,
    SectionId::DebugLine,
    SectionId::DebugMacinfo,
    SectionId::DebugMacro,
    SectionId::DebugStr,
    SectionId::DebugStrOffsets,
    SectionId::DebugLoc,
    SectionId::DebugLocLists,
    SectionId::DebugRngLists,
    SectionId::DebugTypes,
];

fn section_kind_id(k: SectKind) -> SectionId {
    match k {
        SectKind::Info => SectionId::DebugInfo,
        SectKind::Types => SectionId::DebugTypes,
        SectKind::Abbrev => SectionId::DebugAbbrev,
        SectKind::Line => SectionId::DebugLine,
        SectKind::Loc => SectionId::DebugLoc,
        SectKind::LocLists => SectionId::DebugLocLists,
        SectKind::StrOffsets => SectionId::DebugStrOffsets,
        SectKind::Macinfo => SectionId::DebugMacinfo,
        SectKind::Macro => SectionId::DebugMacro,
        SectKind::RngLists => SectionId::DebugRngLists,
    }
}

fn check_package<'a>(
    ctx: &mut Ctx,
    sig: &str,
    dwp: &gimli::DwarfPackage<Rd<'a>>,
    m: &'a Markers,
    parent: &gimli::Dwarf<Rd<'a>>,
    pm: &'a Markers,
    sup: &'a Markers,
    cu: &(u64, UnitIndexM),
    tu: &(u64, UnitIndexM),
    input: &dyn Fn() -> Value,
) {
    let fields: Vec<(&str, SectionId, Vec<u8>)> = vec![
        ("debug_abbrev", SectionId::DebugAbbrev, dwp.debug_abbrev.reader().slice().to_vec()),
        ("debug_info", SectionId::DebugInfo, dwp.debug_info.reader().slice().to_vec()),
        ("debug_line", SectionId::DebugLine, dwp.debug_line.reader().slice().to_vec()),
        ("debug_macinfo", SectionId::DebugMacinfo, dwp.debug_macinfo.reader().slice().to_vec()),
        ("debug_macro", SectionId::DebugMacro, dwp.debug_macro.reader().slice().to_vec()),
        ("debug_str", SectionId::DebugStr, dwp.debug_str.reader().slice().to_vec()),
        ("debug_str_offsets", SectionId::DebugStrOffsets, dwp.debug_str_offsets.reader().slice().to_vec()),
        ("debug_loc", SectionId::DebugLoc, dwp.debug_loc.reader().slice().to_vec()),
        ("debug_loclists", SectionId::DebugLocLists, dwp.debug_loclists.reader().slice().to_vec()),
        ("debug_rnglists", SectionId::DebugRngLists, dwp.debug_rnglists.reader().slice().to_vec()),
        ("debug_types", SectionId::DebugTypes, dwp.debug_types.reader().slice().to_vec()),
    ];
    for (name, id, got) in fields {
        let w = m.vec(id);
        if w != got {
            ceq(ctx, &format!("{sig}.{name}"), &String::from_utf8_lossy(&w).to_string(), &String::from_utf8_lossy(&got).to_string(), input);
        }
    }
    ceq(ctx, &format!("{sig}.empty"), &0usize, &dwp.empty.len(), input);
    // the two indexes are told apart by the only key each holds
    ceq(ctx, &format!("{sig}.cu_index.find(own)"), &Some(1), &dwp.cu_index.find(cu.0), input);
    ceq(ctx, &format!("{sig}.cu_index.find(other)"), &None, &dwp.cu_index.find(tu.0), input);
    ceq(ctx, &format!("{sig}.tu_index.find(own)"), &Some(1), &dwp.tu_index.find(tu.0), input);
    ceq(ctx, &format!("{sig}.tu_index.find(other)"), &None, &dwp.tu_index.find(cu.0), input);
    // unit sections: windows of the package's own sections, plus the parent's parts
    for (which, model, id) in [("cu_sections", &cu.1, cu.0), ("tu_sections", &tu.1, tu.0)] {
        ctx.obs(&format!("plumb.{which}"));
        let res = if which == "cu_sections" { dwp.find_cu(gimli::DwoId(id), parent) } else { dwp.find_tu(gimli::DebugTypeSignature(id), parent) };
        let d = match res {
            Ok(Some(d)) => d,
            other => {
                cfail(ctx, &format!("{sig}.{which}.find"), &format!("marker unit not found: {:?}", other.map(|o| o.is_some())), input);
                continue;
            }
        };
        let contrib: BTreeMap<&'static str, (u32, u32)> = model.contributions(1).unwrap_or_default().into_iter().map(|(k, o, s)| (section_kind_id(k).name(), (o, s))).collect();
        // expected bytes per field
        let windows: BTreeMap<&'static str, Vec<u8>> = ALL_IDS
            .iter()
            .map(|sid| {
                let v: Vec<u8> = match *sid {
                    SectionId::DebugStr => m.vec(SectionId::DebugStr),
                    SectionId::DebugAddr => pm.vec(SectionId::DebugAddr),
                    SectionId::DebugRanges => pm.vec(SectionId::DebugRanges),
                    other => match contrib.get(other.name()) {
                        Some((o, s)) => m.get(other)[*o as usize..(*o + *s) as usize].to_vec(),
                        // no column: offset 0, size 0 of the package's section; the three
                        // sections that never exist in a package are empty
                        None => vec![],
                    },
                };
                (sid.name(), v)
            })
            .collect();
        for (name, sid, got) in dwarf_fields(&d) {
            let w = windows.get(sid.name()).cloned().unwrap_or_default();
            if w != got {
                ceq(ctx, &format!("{sig}.{which}.{name}"), &String::from_utf8_lossy(&w).to_string(), &String::from_utf8_lossy(&got).to_string(), input);
            }
        }
        // location sections through pointer identity + length
        for (sid, version) in [(SectionId::DebugLoc, 4u16), (SectionId::DebugLocLists, 5)] {
            let (o, s) = contrib.get(sid.name()).copied().unwrap_or((0, 0));
            let enc = gimli::Encoding { format: gimli::Format::Dwarf32, version, address_size: 4 };
            let ok_at_len = d.locations.raw_locations(gimli::LocationListsOffset(s as usize), enc).is_ok();
            let err_past = d.locations.raw_locations(gimli::LocationListsOffset(s as usize + 1), enc).is_err();
            ceq(ctx, &format!("{sig}.{which}.locations.{}.len", sid.name()), &(true, true), &(ok_at_len, err_past), input);
            if s >= 2 {
                let base = m.get(sid).as_ptr() as u64 + o as u64;
                let got = d.locations.lookup_offset_id(gimli::ReaderOffsetId(base + 1));
                ceq(ctx, &format!("{sig}.{which}.locations.{}.window", sid.name()), &Some((sid, 1usize)), &got, input);
                let before = d.locations.lookup_offset_id(gimli::ReaderOffsetId(base - 1));
                ceq(ctx, &format!("{sig}.{which}.locations.{}.before", sid.name()), &None, &before, input);
            }
        }
        ceq(ctx, &format!("{sig}.{which}.file_type"), &true, &(d.file_type == gimli::DwarfFileType::Dwo), input);
        // the supplementary file is the parent's
        let sup_str = d.sup().map(|s| s.debug_str.reader().slice().to_vec());
        ceq(ctx, &format!("{sig}.{which}.sup"), &Some(sup.vec(SectionId::DebugStr)), &sup_str, input);
    }
}

pub fn plumb_stream(ctx: &mut Ctx) {
    let n = ctx.size(64, 512, 2);
    for i in 0..n {
        if !ctx.want("plumb", i) {
            continue;
        }
        let le = i % 2 == 0;
        let rep = 1 + (i / 2 % 4) as usize;
        let main = Markers::new("main", rep);
        let sup = Markers::new("sup", rep);
        let dwo = Markers::new("dwo", rep);
        let input = || json!({"le": le, "marker": String::from_utf8_lossy(&marker("main", SectionId::DebugInfo, rep)).to_string()});
        ctx.eval();
        guarded(ctx, "plumb", &input, |ctx| {
            // ---------------- Dwarf::load with a reader
            let d: gimli::Dwarf<Rd> = match gimli::Dwarf::load(|id| main.load_slice(id, le)) {
                Ok(d) => d,
                Err(_) => return,
            };
            ctx.obs("plumb.Dwarf::load");
            asked_ok(ctx, "Dwarf::load", &main, &DWARF_IDS, &input);
            check_dwarf_fields(ctx, "Dwarf::load", &d, &|id| main.get(id), &input);
            ceq(ctx, "Dwarf::load.file_type", &true, &(d.file_type == gimli::DwarfFileType::Main), &input);
            ceq(ctx, "Dwarf::load.sup", &true, &d.sup().is_none(), &input);
            // ---------------- load_sup
            let mut d = d;
            if d.load_sup(|id| sup.load_slice(id, le)).is_err() {
                return;
            }
            ctx.obs("plumb.load_sup");
            asked_ok(ctx, "load_sup", &sup, &DWARF_IDS, &input);
            check_dwarf_fields(ctx, "load_sup.main", &d, &|id| main.get(id), &input);
            match d.sup() {
                Some(s) => check_dwarf_fields(ctx, "load_sup.sup", s, &|id| sup.get(id), &input),
                None => cfail(ctx, "load_sup.none", "load_sup did not set the supplementary file", &input),
            }
            // a supplementary buffer is reported as supplementary
            let w = sup.get(SectionId::DebugStr);
            ceq(ctx, "load_sup.lookup_offset_id", &Some((true, SectionId::DebugStr, 1usize)), &d.lookup_offset_id(gimli::ReaderOffsetId(w.as_ptr() as u64 + 1)), &input);
            // ---------------- make_dwo
            let mut o: gimli::Dwarf<Rd> = match gimli::Dwarf::load(|id| dwo.load_slice(id, le)) {
                Ok(d) => d,
                Err(_) => return,
            };
            dwo.asked.borrow_mut().clear();
            o.make_dwo(&d);
            ctx.obs("plumb.make_dwo");
            check_dwarf_fields(
                ctx,
                "make_dwo",
                &o,
                &|id| match id {
                    SectionId::DebugAddr | SectionId::DebugRanges => main.get(id),
                    other => dwo.get(other),
                },
                &input,
            );
            ceq(ctx, "make_dwo.file_type", &true, &(o.file_type == gimli::DwarfFileType::Dwo), &input);
            let sup_str = o.sup().map(|s| s.debug_str.reader().slice().to_vec());
            ceq(ctx, "make_dwo.sup", &Some(sup.vec(SectionId::DebugStr)), &sup_str, &input);
            // the parent is untouched
            check_dwarf_fields(ctx, "make_dwo.parent", &d, &|id| main.get(id), &input);

            // ---------------- owned data: Dwarf<Vec<u8>>::load, DwarfSections::load + borrow
            let dv: gimli::Dwarf<Vec<u8>> = match gimli::Dwarf::load(|id| main.load_vec(id)) {
                Ok(d) => d,
                Err(_) => return,
            };
            asked_ok(ctx, "Dwarf<Vec>::load", &main, &DWARF_IDS, &input);
            check_owned_dwarf(ctx, "Dwarf<Vec>::load", &dv, &main, &input);
            let mut dv = dv;
            if dv.load_sup(|id| sup.load_vec(id)).is_err() {
                return;
            }
            sup.asked.borrow_mut().clear();
            check_owned_dwarf(ctx, "Dwarf<Vec>::load_sup.main", &dv, &main, &input);
            if let Some(s) = dv.sup() {
                check_owned_dwarf(ctx, "Dwarf<Vec>::load_sup.sup", s, &sup, &input);
            }
            #[allow(deprecated)]
            {
                let b = dv.borrow(|v| EndianSlice::new(&v[..], endian(le)));
                for (name, id, got) in dwarf_fields(&b) {
                    let w = main.vec(id);
                    if w != got {
                        ceq(ctx, &format!("Dwarf::borrow.{name}"), &String::from_utf8_lossy(&w).to_string(), &String::from_utf8_lossy(&got).to_string(), &input);
                    }
                }
                if let Some(s) = b.sup() {
                    for (name, id, got) in dwarf_fields(s) {
                        let w = sup.vec(id);
                        if w != got {
                            ceq(ctx, &format!("Dwarf::borrow.sup.{name}"), &String::from_utf8_lossy(&w).to_string(), &String::from_utf8_lossy(&got).to_string(), &input);
                        }
                    }
                } else {
                    cfail(ctx, "Dwarf::borrow.sup", "borrow dropped the supplementary file", &input);
                }
                let want = format!("{:?}", gimli::LocationLists::new(gimli::DebugLoc::from(EndianSlice::new(main.get(SectionId::DebugLoc), endian(le))), gimli::DebugLocLists::from(EndianSlice::new(main.get(SectionId::DebugLocLists), endian(le)))));
                ceq(ctx, "Dwarf::borrow.locations", &want, &format!("{:?}", b.locations), &input);
            }
            let secs: gimli::DwarfSections<Vec<u8>> = match gimli::DwarfSections::load(|id| main.load_vec(id)) {
                Ok(d) => d,
                Err(_) => return,
            };
            ctx.obs("plumb.DwarfSections::load");
            asked_ok(ctx, "DwarfSections::load", &main, &DWARF_IDS, &input);
            check_owned_sections(ctx, "DwarfSections::load", &secs, &main, &input);
            let b = secs.borrow(|v| EndianSlice::new(&v[..], endian(le)));
            ctx.obs("plumb.DwarfSections::borrow");
            for (name, id, got) in dwarf_fields(&b) {
                let w = main.vec(id);
                if w != got {
                    ceq(ctx, &format!("DwarfSections::borrow.{name}"), &String::from_utf8_lossy(&w).to_string(), &String::from_utf8_lossy(&got).to_string(), &input);
                }
            }
            // locations of the borrowed Dwarf: same probes, against the *owned* buffers'
            // contents (lengths) — pointer identity is not available for owned data
            for (sid, version) in [(SectionId::DebugLoc, 4u16), (SectionId::DebugLocLists, 5)] {
                let enc = gimli::Encoding { format: gimli::Format::Dwarf32, version, address_size: 4 };
                let len = main.get(sid).len();
                let ok = b.locations.raw_locations(gimli::LocationListsOffset(len), enc).is_ok() && b.locations.raw_locations(gimli::LocationListsOffset(len + 1), enc).is_err();
                ceq(ctx, &format!("DwarfSections::borrow.locations.{}", sid.name()), &true, &ok, &input);
            }
            let want = format!("{:?}", gimli::LocationLists::new(gimli::DebugLoc::from(EndianSlice::new(main.get(SectionId::DebugLoc), endian(le))), gimli::DebugLocLists::from(EndianSlice::new(main.get(SectionId::DebugLocLists), endian(le)))));
            ceq(ctx, "DwarfSections::borrow.locations", &want, &format!("{:?}", b.locations), &input);
            ceq(ctx, "DwarfSections::borrow.sup", &true, &b.sup().is_none(), &input);
            let sup_secs: gimli::DwarfSections<Vec<u8>> = match gimli::DwarfSections::load(|id| sup.load_vec(id)) {
                Ok(d) => d,
                Err(_) => return,
            };
            sup.asked.borrow_mut().clear();
            let b2 = secs.borrow_with_sup(Some(&sup_secs), |v| EndianSlice::new(&v[..], endian(le)));
            ctx.obs("plumb.borrow_with_sup");
            for (name, id, got) in dwarf_fields(&b2) {
                let w = main.vec(id);
                if w != got {
                    ceq(ctx, &format!("borrow_with_sup.main.{name}"), &String::from_utf8_lossy(&w).to_string(), &String::from_utf8_lossy(&got).to_string(), &input);
                }
            }
            match b2.sup() {
                Some(s) => {
                    for (name, id, got) in dwarf_fields(s) {
                        let w = sup.vec(id);
                        if w != got {
                            ceq(ctx, &format!("borrow_with_sup.sup.{name}"), &String::from_utf8_lossy(&w).to_string(), &String::from_utf8_lossy(&got).to_string(), &input);
                        }
                    }
                }
                None => cfail(ctx, "borrow_with_sup.none", "borrow_with_sup did not set the supplementary file", &input),
            }
            let b3 = secs.borrow_with_sup(None, |v| EndianSlice::new(&v[..], endian(le)));
            ceq(ctx, "borrow_with_sup(None).sup", &true, &b3.sup().is_none(), &input);

            // ---------------- packages (index version 2 and 5 so that all ten kinds appear)
            for version in [2u16, 5] {
                let mut dwpm = Markers::new("dwp", rep.max(2) + 1);
                let cu_id = 0x1111_0000_0000_0000u64 | (i << 8) | version as u64;
                let tu_id = 0x2222_0000_0000_0000u64 | (i << 8) | version as u64;
                let (cu_b, cu_m) = marker_index(version, cu_id, le, rep.max(2) + 1);
                let (tu_b, tu_m) = marker_index(version, tu_id, le, rep.max(2) + 1);
                dwpm.bufs.insert(SectionId::DebugCuIndex.name(), cu_b);
                dwpm.bufs.insert(SectionId::DebugTuIndex.name(), tu_b);
                let dwpm = dwpm;
                let empty = EndianSlice::new(&[][..], endian(le));
                match gimli::DwarfPackage::load(|id| dwpm.load_slice(id, le), empty) {
                    Ok(p) => {
                        ctx.obs("plumb.DwarfPackage::load");
                        asked_ok(ctx, "DwarfPackage::load", &dwpm, &PKG_IDS, &input);
                        check_package(ctx, "DwarfPackage::load", &p, &dwpm, &d, &main, &sup, &(cu_id, cu_m.clone()), &(tu_id, tu_m.clone()), &input);
                    }
                    Err(e) => cfail(ctx, "DwarfPackage::load.err", &format!("{e:?}"), &input),
                }
                match gimli::DwarfPackageSections::<Vec<u8>>::load(|id| dwpm.load_vec(id)) {
                    Ok(ps) => {
                        ctx.obs("plumb.DwarfPackageSections::load");
                        asked_ok(ctx, "DwarfPackageSections::load", &dwpm, &PKG_IDS, &input);
                        macro_rules! f {
                            ($field:ident, $ty:ident, $id:ident) => {
                                let want = format!("{:?}", gimli::$ty::from(dwpm.vec(SectionId::$id)));
                                let got = format!("{:?}", ps.$field);
                                if want != got {
                                    ceq(ctx, &format!("DwarfPackageSections::load.{}", stringify!($field)), &want, &got, &input);
                                }
                            };
                        }
                        f!(cu_index, DebugCuIndex, DebugCuIndex);
                        f!(tu_index, DebugTuIndex, DebugTuIndex);
                        f!(debug_abbrev, DebugAbbrev, DebugAbbrev);
                        f!(debug_info, DebugInfo, DebugInfo);
                        f!(debug_line, DebugLine, DebugLine);
                        f!(debug_macinfo, DebugMacinfo, DebugMacinfo);
                        f!(debug_macro, DebugMacro, DebugMacro);
                        f!(debug_str, DebugStr, DebugStr);
                        f!(debug_str_offsets, DebugStrOffsets, DebugStrOffsets);
                        f!(debug_loc, DebugLoc, DebugLoc);
                        f!(debug_loclists, DebugLocLists, DebugLocLists);
                        f!(debug_rnglists, DebugRngLists, DebugRngLists);
                        f!(debug_types, DebugTypes, DebugTypes);
                        // borrow: contents only (the borrowed slices point into `ps`)
                        match ps.borrow(|v| EndianSlice::new(&v[..], endian(le)), empty) {
                            Ok(p) => {
                                let fields: Vec<(&str, SectionId, Vec<u8>)> = vec![
                                    ("debug_abbrev", SectionId::DebugAbbrev, p.debug_abbrev.reader().slice().to_vec()),
                                    ("debug_info", SectionId::DebugInfo, p.debug_info.reader().slice().to_vec()),
                                    ("debug_line", SectionId::DebugLine, p.debug_line.reader().slice().to_vec()),
                                    ("debug_macinfo", SectionId::DebugMacinfo, p.debug_macinfo.reader().slice().to_vec()),
                                    ("debug_macro", SectionId::DebugMacro, p.debug_macro.reader().slice().to_vec()),
                                    ("debug_str", SectionId::DebugStr, p.debug_str.reader().slice().to_vec()),
                                    ("debug_str_offsets", SectionId::DebugStrOffsets, p.debug_str_offsets.reader().slice().to_vec()),
                                    ("debug_loc", SectionId::DebugLoc, p.debug_loc.reader().slice().to_vec()),
                                    ("debug_loclists", SectionId::DebugLocLists, p.debug_loclists.reader().slice().to_vec()),
                                    ("debug_rnglists", SectionId::DebugRngLists, p.debug_rnglists.reader().slice().to_vec()),
                                    ("debug_types", SectionId::DebugTypes, p.debug_types.reader().slice().to_vec()),
                                ];
                                for (name, id, got) in fields {
                                    let w = dwpm.vec(id);
                                    if w != got {
                                        ceq(ctx, &format!("DwarfPackageSections::borrow.{name}"), &String::from_utf8_lossy(&w).to_string(), &String::from_utf8_lossy(&got).to_string(), &input);
                                    }
                                }
                                ceq(ctx, "DwarfPackageSections::borrow.cu_index", &(Some(1), None), &(p.cu_index.find(cu_id), p.cu_index.find(tu_id)), &input);
                                ceq(ctx, "DwarfPackageSections::borrow.tu_index", &(Some(1), None), &(p.tu_index.find(tu_id), p.tu_index.find(cu_id)), &input);
                                // unit sections of the borrowed package: contents of the windows
                                if let Ok(Some(u)) = p.find_cu(gimli::DwoId(cu_id), &d) {
                                    for (k, o, s) in cu_m.contributions(1).unwrap_or_default() {
                                        let sid = section_kind_id(k);
                                        let want = dwpm.get(sid)[o as usize..(o + s) as usize].to_vec();
                                        let got = dwarf_fields(&u).into_iter().find(|f| f.1 == sid).map(|f| f.2);
                                        if let Some(got) = got {
                                            if want != got {
                                                ceq(ctx, &format!("DwarfPackageSections::borrow.find_cu.{}", sid.name()), &String::from_utf8_lossy(&want).to_string(), &String::from_utf8_lossy(&got).to_string(), &input);
                                            }
                                        }
                                    }
                                } else {
                                    cfail(ctx, "DwarfPackageSections::borrow.find_cu", "marker unit not found", &input);
                                }
                            }
                            Err(e) => cfail(ctx, "DwarfPackageSections::borrow.err", &format!("{e:?}"), &input),
                        }
                    }
                    Err(e) => cfail(ctx, "DwarfPackageSections::load.err", &format!("{e:?}"), &input),
                }
            }
            // ---------------- Section::load of every section type asks for its own id
            macro_rules! own_id {
                ($ty:ident, $id:ident) => {
                    let mut asked = vec![];
                    let r: Result<gimli::$ty<Rd>, gimli::Error> = gimli::Section::load(|id| {
                        asked.push(id);
                        Ok(EndianSlice::new(main.get(id), endian(le)))
                    });
                    ceq(ctx, &format!("Section::load.{}.id", stringify!($ty)), &vec![SectionId::$id], &asked, &input);
                    if let Ok(s) = r {
                        ceq(ctx, &format!("Section::load.{}.data", stringify!($ty)), &main.vec(SectionId::$id), &s.reader().slice().to_vec(), &input);
                    }
                    ceq(ctx, &format!("Section::id.{}", stringify!($ty)), &SectionId::$id, &<gimli::$ty<Rd> as Section<Rd>>::id(), &input);
                    ceq(ctx, &format!("Section::section_name.{}", stringify!($ty)), &SectionId::$id.name(), &<gimli::$ty<Rd> as Section<Rd>>::section_name(), &input);
                };
            }
            own_id!(DebugAbbrev, DebugAbbrev);
            own_id!(DebugAddr, DebugAddr);
            own_id!(DebugAranges, DebugAranges);
            own_id!(DebugCuIndex, DebugCuIndex);
            own_id!(DebugTuIndex, DebugTuIndex);
            own_id!(DebugFrame, DebugFrame);
            own_id!(EhFrame, EhFrame);
            own_id!(EhFrameHdr, EhFrameHdr);
            own_id!(DebugInfo, DebugInfo);
            own_id!(DebugTypes, DebugTypes);
            own_id!(DebugLine, DebugLine);
            own_id!(DebugLineStr, DebugLineStr);
            own_id!(DebugLoc, DebugLoc);
            own_id!(DebugLocLists, DebugLocLists);
            own_id!(DebugMacinfo, DebugMacinfo);
            own_id!(DebugMacro, DebugMacro);
            own_id!(DebugNames, DebugNames);
            own_id!(DebugPubNames, DebugPubNames);
            own_id!(DebugPubTypes, DebugPubTypes);
            own_id!(DebugRanges, DebugRanges);
            own_id!(DebugRngLists, DebugRngLists);
            own_id!(DebugStr, DebugStr);
            own_id!(DebugStrOffsets, DebugStrOffsets);
        });
        ctx.counted_distinct += 1;
        if i == 0 {
            ctx.sample("plumb", || json!({"loader": "id -> \"<role>:<id.name()>;\" repeated", "example": String::from_utf8_lossy(&marker("main", SectionId::DebugLineStr, 2)).to_string()}));
        }
    }
}

//! C08 corpus complement: range lists and location lists of compiler-built objects
//! (gcc / clang, DWARF 2-5 at -O2 and -O0, DWARF64, split DWARF) as gimli resolves them
//! through `Dwarf::attr_ranges`, `Dwarf::attr_locations` and `Dwarf::die_ranges`, compared
//! with llvm-dwarfdump (the external tool is the oracle).
//!
//! * linked executables: the resolved `[begin, end)` lines llvm-dwarfdump prints under
//!   `DW_AT_ranges` and under every location-list attribute;
//! * `.dwo` objects (read through `Dwarf::make_dwo` + `Unit::copy_relocated_attributes`):
//!   llvm-dwarfdump cannot resolve indexed addresses there, so the *raw* entries it prints
//!   (`DW_LLE_*` lines of the verbose entry dump, `-v --debug-rnglists` for `.debug_rnglists.dwo`,
//!   `--debug-ranges` of the executable for DWARF 4 `DW_AT_GNU_ranges_base` lists) are resolved
//!   by a small model against the executable's `.debug_addr` (table base and unit base address
//!   as llvm-dwarfdump prints them for the skeleton unit with the same DWO id);
//! * `die_ranges`: `DW_AT_ranges` list, else `[low_pc, high_pc)` computed from the two
//!   attribute values llvm-dwarfdump prints.
//!
//! Tool failures are *inconclusive*, never violations.

use crate::rt::Ctx;
use serde_json::json;
use std::collections::HashMap;

#[path = "corpus_b.rs"]
mod cb;
use cb::{Built, Cfg, DAttr, DDie, DUnit, SkelFacts, Slice};

pub fn configs(quick: bool) -> Vec<Cfg> {
    let mut v = vec![Cfg::new("gcc", 5, "-O2", &[]), Cfg::new("clang", 5, "-O2", &[]), Cfg::new("gcc", 3, "-O2", &[]), Cfg::split("clang", 4, "-O2", &[])];
    if !quick {
        for c in cb::matrix().into_iter().chain(cb::specials()).chain(cb::splits()) {
            if !v.contains(&c) {
                v.push(c);
            }
        }
    }
    v
}

type Ranges = Vec<(u64, u64)>;
/// (begin, end, first opcode of the expression or None when empty)
type Locs = Vec<(u64, u64, Option<u8>)>;

#[derive(Clone, Debug, Default)]
struct GDie {
    off: u64,
    ranges: Option<Result<Ranges, String>>,
    /// (attribute code, list)
    locs: Vec<(u16, Result<Locs, String>)>,
    die_ranges: Option<Result<Ranges, String>>,
}

struct GUnit {
    types_section: bool,
    offset: u64,
    dies: Vec<GDie>,
    unit_ranges: Result<Ranges, String>,
}

fn collect_ranges<'a>(it: gimli::Result<Option<gimli::RngListIter<Slice<'a>>>>) -> Option<Result<Ranges, String>> {
    match it {
        Err(e) => Some(Err(format!("{e:?}"))),
        Ok(None) => None,
        Ok(Some(mut it)) => {
            let mut v = vec![];
            loop {
                match it.next() {
                    Ok(Some(r)) => v.push((r.begin, r.end)),
                    Ok(None) => break,
                    Err(e) => return Some(Err(format!("after {} ranges: {e:?}", v.len()))),
                }
                if v.len() > 100_000 {
                    return Some(Err("runaway".into()));
                }
            }
            Some(Ok(v))
        }
    }
}

fn collect_range_iter<'a>(it: gimli::Result<gimli::RangeIter<Slice<'a>>>) -> Result<Ranges, String> {
    let mut it = it.map_err(|e| format!("{e:?}"))?;
    let mut v = vec![];
    loop {
        match it.next() {
            Ok(Some(r)) => v.push((r.begin, r.end)),
            Ok(None) => break,
            Err(e) => return Err(format!("after {} ranges: {e:?}", v.len())),
        }
        if v.len() > 100_000 {
            return Err("runaway".into());
        }
    }
    Ok(v)
}

fn gimli_units<'a>(dwarf: &gimli::Dwarf<Slice<'a>>, parent: Option<&gimli::Dwarf<Slice<'a>>>) -> Result<Vec<GUnit>, String> {
    let mut out = vec![];
    for h in cb::headers(dwarf)? {
        let (types_section, offset) = cb::header_offset(&h);
        let mut unit = dwarf.unit(h).map_err(|e| format!("Dwarf::unit at 0x{offset:x}: {e:?}"))?;
        if let (Some(p), Some(id)) = (parent, unit.dwo_id) {
            if let Some(sk) = cb::skeleton_for(p, id.0) {
                unit.copy_relocated_attributes(&sk);
            }
        }
        let mut dies = vec![];
        let mut c = unit.entries();
        while c.next_entry().map_err(|e| format!("next_entry in unit 0x{offset:x}: {e:?}"))? {
            let Some(e) = c.current() else { continue };
            let mut d = GDie { off: e.offset().to_unit_section_offset(&unit.header).0 as u64, ..Default::default() };
            let mut wants_die_ranges = false;
            for a in e.attrs() {
                match a.name() {
                    gimli::DW_AT_ranges => {
                        d.ranges = collect_ranges(dwarf.attr_ranges(&unit, a.value()));
                        wants_die_ranges = true;
                    }
                    gimli::DW_AT_low_pc | gimli::DW_AT_high_pc => wants_die_ranges = true,
                    _ => {}
                }
                match dwarf.attr_locations(&unit, a.value()) {
                    Ok(None) => {}
                    Err(e) => d.locs.push((a.name().0, Err(format!("{e:?}")))),
                    Ok(Some(mut it)) => {
                        let mut v: Locs = vec![];
                        let mut err = None;
                        loop {
                            match it.next() {
                                Ok(Some(l)) => v.push((l.range.begin, l.range.end, l.data.0.slice().first().copied())),
                                Ok(None) => break,
                                Err(e) => {
                                    err = Some(format!("after {} entries: {e:?}", v.len()));
                                    break;
                                }
                            }
                            if v.len() > 100_000 {
                                err = Some("runaway".into());
                                break;
                            }
                        }
                        d.locs.push((a.name().0, match err {
                            Some(e) => Err(e),
                            None => Ok(v),
                        }));
                    }
                }
            }
            if wants_die_ranges {
                d.die_ranges = Some(collect_range_iter(dwarf.die_ranges(&unit, e)));
            }
            dies.push(d);
        }
        let unit_ranges = collect_range_iter(dwarf.unit_ranges(&unit));
        out.push(GUnit { types_section, offset, dies, unit_ranges });
    }
    Ok(out)
}

// ---------------------------------------------------------------- oracle side

/// Raw list tables of a split object, from llvm-dwarfdump.
#[derive(Default)]
struct RawLists {
    /// `.debug_rnglists.dwo`: list offset -> raw entries (kind, operands)
    rnglists: HashMap<u64, Vec<(String, Vec<u64>)>>,
    /// executable's `.debug_ranges`: list offset -> raw pairs
    ranges: HashMap<u64, Vec<(u64, u64)>>,
}

/// `-v --debug-rnglists`: `0x0000001e: [DW_RLE_offset_pair  ]:  0x..., 0x... => [...)`
fn parse_rnglists(text: &str) -> HashMap<u64, Vec<(String, Vec<u64>)>> {
    let mut m: HashMap<u64, Vec<(String, Vec<u64>)>> = HashMap::new();
    let mut cur: Option<u64> = None;
    for line in text.lines() {
        let Some(off) = cb::lead_hex(line) else { continue };
        let Some(a) = line.find("[DW_RLE_") else { continue };
        let Some(b) = line[a..].find(']') else { continue };
        let kind = line[a + 1..a + b].trim().to_string();
        let rest = &line[a + b + 1..];
        let rest = rest.trim_start_matches(':').trim();
        let rest = rest.split("=>").next().unwrap_or("");
        let ops: Vec<u64> = rest.split(',').filter_map(|p| cb::lead_hex(p.trim())).collect();
        let start = *cur.get_or_insert(off);
        m.entry(start).or_default();
        if kind == "DW_RLE_end_of_list" {
            cur = None;
        } else {
            m.get_mut(&start).unwrap().push((kind, ops));
        }
    }
    m
}

/// `--debug-ranges`: `00000000 0000000000001140 0000000000001216` / `00000000 <End of list>`
fn parse_debug_ranges(text: &str) -> HashMap<u64, Vec<(u64, u64)>> {
    let mut m: HashMap<u64, Vec<(u64, u64)>> = HashMap::new();
    for line in text.lines() {
        let mut p = line.split_whitespace();
        let Some(off) = p.next().and_then(|t| if t.len() >= 8 { u64::from_str_radix(t, 16).ok() } else { None }) else { continue };
        let Some(a) = p.next() else { continue };
        let e = m.entry(off).or_default();
        if a.starts_with('<') {
            continue;
        }
        let (Ok(a), Some(Ok(b))) = (u64::from_str_radix(a, 16), p.next().map(|t| u64::from_str_radix(t, 16))) else { continue };
        e.push((a, b));
    }
    m
}

struct Resolver<'a> {
    debug_addr: &'a [u8],
    facts: Option<&'a SkelFacts>,
    addr_size: u64,
}

impl Resolver<'_> {
    fn addr(&self, idx: u64) -> Option<u64> {
        cb::addr_slot(self.debug_addr, self.facts?.addr_base, idx, self.addr_size)
    }
    fn unit_base(&self) -> u64 {
        self.facts.and_then(|f| f.low_pc).unwrap_or(0)
    }
    /// One raw DW_RLE_* / DW_LLE_* entry -> resolved range; updates the running base.
    fn entry(&self, kind: &str, ops: &[u64], base: &mut u64) -> Result<Option<(u64, u64)>, String> {
        let k = kind.trim_start_matches("DW_RLE_").trim_start_matches("DW_LLE_");
        let op = |i: usize| ops.get(i).copied().ok_or_else(|| format!("{kind}: operand {i} missing"));
        let ad = |i: u64| self.addr(i).ok_or_else(|| format!("{kind}: address index {i} not in .debug_addr"));
        Ok(match k {
            "base_addressx" => {
                *base = ad(op(0)?)?;
                None
            }
            "base_address" => {
                *base = op(0)?;
                None
            }
            "offset_pair" => Some((base.wrapping_add(op(0)?), base.wrapping_add(op(1)?))),
            "startx_endx" => Some((ad(op(0)?)?, ad(op(1)?)?)),
            "startx_length" => {
                let b = ad(op(0)?)?;
                Some((b, b.wrapping_add(op(1)?)))
            }
            "start_end" => Some((op(0)?, op(1)?)),
            "start_length" => Some((op(0)?, op(0)?.wrapping_add(op(1)?))),
            "end_of_list" => None,
            other => return Err(format!("unknown raw entry kind {other}")),
        })
    }
}

/// llvm prints empty ranges; gimli (documented) and the standard's consumers skip them.
fn keep(b: u64, e: u64) -> bool {
    b < e && b < u64::MAX - 1
}

/// Expected ranges of a `DW_AT_ranges` attribute.  `Err` = the dump gives no usable oracle.
fn expect_ranges(a: &DAttr, u: &DUnit, dwo: bool, raw: &RawLists, res: &Resolver<'_>) -> Result<Ranges, String> {
    if !dwo {
        let mut v = vec![];
        for l in &a.cont {
            let Some((b, e, _)) = cb::bracket_range(l) else { return Err(format!("unrecognised line under DW_AT_ranges: {l}")) };
            if keep(b, e) {
                v.push((b, e));
            }
        }
        return Ok(v);
    }
    // split object: raw entries + model
    let off = if a.form == "DW_FORM_rnglistx" { cb::hex_after(&a.text, "rangelist = ") } else { cb::lead_hex(&a.text) };
    let Some(off) = off else { return Err("no list offset in the dump".into()) };
    let mut v = vec![];
    let mut base = res.unit_base();
    if u.version >= 5 {
        let Some(list) = raw.rnglists.get(&off) else { return Err(format!("no list at 0x{off:x} in the --debug-rnglists dump")) };
        for (k, ops) in list {
            if let Some((b, e)) = res.entry(k, ops, &mut base)? {
                if keep(b, e) {
                    v.push((b, e));
                }
            }
        }
    } else {
        let rb = res.facts.map(|f| f.ranges_base).unwrap_or(0);
        let Some(list) = raw.ranges.get(&off.wrapping_add(rb)) else { return Err(format!("no list at 0x{:x} in the --debug-ranges dump of the executable", off.wrapping_add(rb))) };
        for &(s, e) in list {
            if s == u64::MAX {
                base = e;
                continue;
            }
            let (b, e) = (base.wrapping_add(s), base.wrapping_add(e));
            if keep(b, e) {
                v.push((b, e));
            }
        }
    }
    Ok(v)
}

/// Expected (begin, end, first operation name) of a location-list attribute.
fn expect_locs(a: &DAttr, res: &Resolver<'_>) -> Result<Vec<(u64, u64, Option<String>)>, String> {
    let mut v = vec![];
    let mut base = res.unit_base();
    for l in &a.cont {
        let (range, rest) = if l.starts_with('[') {
            let Some((b, e, rest)) = cb::bracket_range(l) else { return Err(format!("unrecognised line: {l}")) };
            (Some((b, e)), rest)
        } else if l.starts_with("DW_LLE_") {
            let kind = l.split_whitespace().next().unwrap_or("");
            let Some((ops, rest)) = cb::paren_operands(l) else { return Err(format!("unrecognised line: {l}")) };
            (res.entry(kind, &ops, &mut base)?, rest)
        } else {
            return Err(format!("unrecognised line: {l}"));
        };
        let Some((b, e)) = range else { continue };
        if !keep(b, e) {
            continue;
        }
        let expr = rest.trim_start_matches(':').trim();
        let op = if expr.starts_with("DW_OP_") {
            let end = expr.find(|c: char| c == ' ' || c == '(' || c == ',').unwrap_or(expr.len());
            Some(expr[..end].to_string())
        } else {
            None
        };
        v.push((b, e, op));
    }
    Ok(v)
}

fn is_loclist(a: &DAttr) -> bool {
    matches!(a.form.as_str(), "DW_FORM_sec_offset" | "DW_FORM_data4" | "DW_FORM_data8" | "DW_FORM_loclistx") && a.text.trim_end().ends_with(':')
}

/// Address of a `DW_AT_low_pc` / address-class `DW_AT_high_pc` as llvm prints it.
fn text_addr(a: &DAttr, res: &Resolver<'_>) -> Option<u64> {
    if a.form == "DW_FORM_addr" {
        return cb::lead_hex(&a.text);
    }
    if let Some(i) = a.text.find("address = 0x") {
        return cb::lead_hex(&a.text[i + 10..]);
    }
    let idx = a.text.find('(').and_then(|i| cb::lead_barehex(&a.text[i + 1..]))?;
    res.addr(idx)
}

fn expect_die_ranges(d: &DDie, ranges: Option<&Result<Ranges, String>>, res: &Resolver<'_>) -> Option<Ranges> {
    if d.attr("DW_AT_ranges").is_some() {
        return ranges.and_then(|r| r.as_ref().ok()).cloned();
    }
    let low = d.attr("DW_AT_low_pc")?;
    let lo = text_addr(low, res)?;
    let Some(high) = d.attr("DW_AT_high_pc") else { return Some(vec![]) };
    let is_addr = high.form == "DW_FORM_addr" || high.form.starts_with("DW_FORM_addrx") || high.form == "DW_FORM_GNU_addr_index";
    let hi = if is_addr { text_addr(high, res)? } else { lo.checked_add(u64::try_from(cb::lead_num(&high.text)?).ok()?)? };
    Some(vec![(lo, hi)])
}

fn check_file(ctx: &mut Ctx, names: &cb::Names, b: &Built, file: &str, dwo: bool) {
    let label = format!("{} :: {}", b.cfg.label(), file);
    macro_rules! tool {
        ($e:expr) => {
            match $e {
                Ok(x) => x,
                Err(e) => return ctx.inconclusive(&format!("corpus: {label}: {e}")),
            }
        };
    }
    let expect = tool!(cb::info_dump(b, file));
    let obj = tool!(b.load(file));
    let mut raw = RawLists::default();
    let (pobj, skel_facts) = if dwo {
        let p = tool!(b.load("prog"));
        let facts = cb::skeleton_facts(&tool!(cb::info_dump(b, "prog")), p.sec(".debug_addr"));
        raw.rnglists = parse_rnglists(&tool!(b.dump(&["-v", "--debug-rnglists"], file)));
        raw.ranges = parse_debug_ranges(&tool!(b.dump(&["--debug-ranges"], "prog")));
        (Some(p), facts)
    } else {
        (None, Default::default())
    };
    let dir = b.dir.display().to_string();
    let input = || json!({"corpus": label, "build_dir": dir, "oracle": "llvm-dwarfdump -v --debug-info --debug-types (+ --debug-rnglists / --debug-ranges for split objects)"});
    ctx.evals(expect.len() as u64);
    let got = ctx.guard("corpus.lists", &input, || {
        let parent = pobj.as_ref().map(|p| p.dwarf());
        let dwarf = match &parent {
            Some(p) => obj.dwarf_dwo(p),
            None => obj.dwarf(),
        };
        gimli_units(&dwarf, parent.as_ref())
    });
    let Some(got) = got else { return };
    let got = match got {
        Ok(g) => g,
        Err(e) => return ctx.fail("corpus.err", &format!("{label}: gimli rejected compiler output: {e}"), &input),
    };
    ctx.obs("corpus.object");
    if dwo {
        ctx.obs("corpus.object.dwo");
    }
    if expect.len() != got.len() {
        ctx.check_eq("corpus.unit_count", &expect.len(), &got.len(), &input);
        return;
    }
    let debug_addr: &[u8] = pobj.as_ref().map(|p| p.sec(".debug_addr")).unwrap_or(&[]);
    let mut lists = 0u64;
    for (eu, gu) in expect.iter().zip(got.iter()) {
        if (eu.types_section, eu.offset) != (gu.types_section, gu.offset) {
            ctx.check_eq("corpus.unit_offset", &(eu.types_section, eu.offset), &(gu.types_section, gu.offset), &input);
            continue;
        }
        let res = Resolver { debug_addr, facts: eu.any_dwo_id().and_then(|id| skel_facts.get(&id)), addr_size: eu.addr_size };
        let edies: Vec<&DDie> = eu.dies.iter().filter(|d| d.tag != "NULL").collect();
        if edies.len() != gu.dies.len() {
            ctx.check_eq("corpus.entry_count", &edies.len(), &gu.dies.len(), &input);
            continue;
        }
        let kind = format!("v{}{}", eu.version.min(5), if dwo { ".dwo" } else { "" });
        for (k, (ed, gd)) in edies.iter().zip(gu.dies.iter()).enumerate() {
            if ed.off != gd.off {
                ctx.check_eq("corpus.entry_offset", &ed.off, &gd.off, &input);
                break;
            }
            let at = |what: &str| format!("{label}: unit 0x{:x} entry 0x{:x} ({}): {what}", eu.offset, ed.off, ed.tag);
            // ---- DW_AT_ranges
            let mut eranges: Option<Result<Ranges, String>> = None;
            if let Some(a) = ed.attr("DW_AT_ranges") {
                let er = expect_ranges(a, eu, dwo, &raw, &res);
                match (&er, &gd.ranges) {
                    (Err(e), _) => {
                        ctx.obs("corpus.unjudged.ranges");
                        if ctx.verbose {
                            eprintln!("{}", at(&format!("ranges unjudged: {e}")));
                        }
                    }
                    (Ok(e), Some(Ok(g))) if e == g => {
                        lists += 1;
                        ctx.obs("corpus.ranges.compared");
                        ctx.obs(&format!("corpus.ranges.{kind}"));
                        ctx.obs_n("corpus.ranges.entries", e.len() as u64);
                        if a.form == "DW_FORM_rnglistx" {
                            ctx.obs("corpus.ranges.rnglistx");
                        }
                    }
                    (Ok(e), g) => {
                        ctx.fail("corpus.attr_ranges", &at(&format!("DW_AT_ranges [{}] ({}): llvm-dwarfdump gives {:x?}, Dwarf::attr_ranges gives {:x?}", a.form, a.text, e, g)), &input);
                    }
                }
                eranges = Some(er);
            } else if gd.ranges.is_some() {
                ctx.fail("corpus.attr_ranges.spurious", &at("gimli reports DW_AT_ranges, llvm-dwarfdump does not"), &input);
            }
            // ---- location lists
            let elocs: Vec<&DAttr> = ed.attrs.iter().filter(|a| is_loclist(a)).collect();
            if elocs.len() != gd.locs.len() {
                ctx.fail(
                    "corpus.attr_locations.count",
                    &at(&format!("llvm-dwarfdump prints {} location-list attributes {:?}, Dwarf::attr_locations yields a list for {} attributes {:x?}", elocs.len(), elocs.iter().map(|a| &a.name).collect::<Vec<_>>(), gd.locs.len(), gd.locs.iter().map(|l| l.0).collect::<Vec<_>>())),
                    &input,
                );
            } else {
                for (a, (gname, gl)) in elocs.iter().zip(gd.locs.iter()) {
                    if names.at_code(&a.name) != Some(*gname) {
                        ctx.obs("corpus.unjudged.loc_attr_name");
                        continue;
                    }
                    let el = match expect_locs(a, &res) {
                        Ok(l) => l,
                        Err(e) => {
                            ctx.obs("corpus.unjudged.locs");
                            if ctx.verbose {
                                eprintln!("{}", at(&format!("{} unjudged: {e}", a.name)));
                            }
                            continue;
                        }
                    };
                    let eranges_only: Ranges = el.iter().map(|x| (x.0, x.1)).collect();
                    let ok = match gl {
                        Ok(g) => g.iter().map(|x| (x.0, x.1)).collect::<Ranges>() == eranges_only,
                        Err(_) => false,
                    };
                    if !ok {
                        ctx.fail("corpus.attr_locations", &at(&format!("{} [{}] ({}): llvm-dwarfdump gives {:x?}, Dwarf::attr_locations gives {:x?}", a.name, a.form, a.text, eranges_only, gl)), &input);
                        continue;
                    }
                    lists += 1;
                    ctx.obs("corpus.locs.compared");
                    ctx.obs(&format!("corpus.locs.{kind}"));
                    ctx.obs_n("corpus.locs.entries", el.len() as u64);
                    if a.form == "DW_FORM_loclistx" {
                        ctx.obs("corpus.locs.loclistx");
                    }
                    // first operation of every expression
                    if let Ok(g) = gl {
                        for ((_, _, eop), (gb, ge, gop)) in el.iter().zip(g.iter()) {
                            let Some(eop) = eop else {
                                ctx.obs("corpus.unjudged.expr_text");
                                continue;
                            };
                            match gop.map(|b| gimli::DwOp(b).static_string()) {
                                Some(Some(n)) if n == eop => ctx.obs("corpus.locs.first_op"),
                                Some(None) => ctx.obs("corpus.unjudged.expr_op_name"),
                                o => ctx.fail("corpus.attr_locations.expr", &at(&format!("{}: entry [{gb:#x}, {ge:#x}): llvm-dwarfdump's expression starts with {eop}, gimli's with {o:?}", a.name)), &input),
                            }
                        }
                    }
                }
            }
            // ---- die_ranges / unit_ranges
            if let Some(gdr) = &gd.die_ranges {
                match expect_die_ranges(ed, eranges.as_ref(), &res) {
                    None => ctx.obs("corpus.unjudged.die_ranges"),
                    Some(e) => {
                        match gdr {
                            Ok(g) if *g == e => {
                                ctx.obs("corpus.die_ranges.compared");
                                if ed.attr("DW_AT_ranges").is_none() && !e.is_empty() {
                                    ctx.obs("corpus.die_ranges.low_high");
                                }
                            }
                            g => ctx.fail("corpus.die_ranges", &at(&format!("llvm-dwarfdump's attribute values give {:x?}, Dwarf::die_ranges gives {:x?}", e, g)), &input),
                        }
                        if k == 0 {
                            match &gu.unit_ranges {
                                Ok(g) if *g == e => ctx.obs("corpus.unit_ranges.compared"),
                                g => ctx.fail("corpus.unit_ranges", &at(&format!("llvm-dwarfdump's attribute values give {:x?}, Dwarf::unit_ranges gives {:x?}", e, g)), &input),
                            }
                        }
                    }
                }
            }
        }
    }
    if lists > 0 {
        ctx.nontrivial(obj.digest());
    }
    ctx.sample("corpus", || json!({"config": label, "units": expect.len(), "lists_compared": lists}));
}

pub fn run(ctx: &mut Ctx) {
    if ctx.slow() {
        return;
    }
    let cfgs = configs(ctx.quick());
    let mut names: Option<cb::Names> = None;
    for (i, cfg) in cfgs.iter().enumerate() {
        if !ctx.want("corpus", i as u64) {
            continue;
        }
        let b = match cb::build(ctx, cfg) {
            Ok(b) => b,
            Err(e) => {
                ctx.inconclusive(&format!("corpus: {e}"));
                continue;
            }
        };
        let names = names.get_or_insert_with(cb::Names::new);
        check_file(ctx, names, &b, "prog", false);
        for d in b.dwos() {
            check_file(ctx, names, &b, d, true);
        }
    }
}

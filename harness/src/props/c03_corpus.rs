//! C03 corpus complement: every attribute of every entry of compiler-built objects
//! (gcc / clang, DWARF 2-5, DWARF64, type units, split DWARF) as gimli decodes it, compared
//! with `llvm-dwarfdump -v --debug-info --debug-types` (the external tool is the oracle).
//!
//! Per attribute: name code, form code, and the value for the classes whose rendering is
//! unambiguous: constants (data1/2/4/8, udata, sdata, implicit_const), flags, strings
//! (inline, strp, line_strp, strx*, GNU_str_index: pool offset / index and the resolved
//! text), addresses (addr, addrx*, GNU_addr_index: index and resolved address), references
//! (unit-relative value and absolute section offset; ref_addr; ref_sig8), section offsets,
//! rnglistx / loclistx (index and resolved list offset), non-expression blocks (bytes), the
//! name llvm prints for enumerated constants (DW_LANG_*, DW_ATE_*, ...) against the typed
//! constant `Attribute::value()` yields, and the file-name text of DW_AT_decl_file /
//! DW_AT_call_file against the path name of the line-table file entry the index selects.
//! For expressions only the name of the first operation is compared.
//! Tool failures are *inconclusive*, never violations.

use crate::rt::Ctx;
use gimli::AttributeValue as AV;
use serde_json::json;

#[path = "corpus_b.rs"]
mod cb;
use cb::{Built, Cfg, DAttr, DUnit, Names, Slice};

pub fn configs(quick: bool) -> Vec<Cfg> {
    let mut v = vec![
        Cfg::new("gcc", 5, "-O2", &[]),
        Cfg::new("clang", 5, "-O2", &[]),
        Cfg::new("gcc", 2, "-O2", &[]),
        Cfg::split("clang", 4, "-O1", &["-fdebug-types-section"]),
    ];
    if !quick {
        for c in cb::matrix().into_iter().chain(cb::specials()).chain(cb::splits()) {
            if !v.contains(&c) {
                v.push(c);
            }
        }
    }
    v
}

#[derive(Clone, Debug)]
enum GVal {
    Num(i128),
    Flag(bool),
    /// (pool offset | index | none for inline, resolved bytes)
    Str(Option<u64>, Result<Vec<u8>, String>),
    /// (index, resolved address)
    Addr(Option<u64>, Result<Option<u64>, String>),
    /// (unit-relative, absolute)
    Ref(Option<u64>, Option<u64>),
    Sig(u64),
    Bytes(Vec<u8>),
    Expr(Vec<u8>),
    /// rnglistx / loclistx: (index, resolved list offset)
    ListIdx(u64, Result<Option<u64>, String>),
    Other(String),
}

#[derive(Clone, Debug)]
struct GAttr {
    name: u16,
    form: u16,
    raw: GVal,
    /// numeric payload of `value()`
    vnum: Option<i128>,
    /// `value()` is a typed constant: its name
    typed: Option<Option<&'static str>>,
    /// file-index attributes: path name of the selected file entry
    file: Option<Result<Vec<u8>, String>>,
}

#[derive(Clone, Debug)]
struct GDie {
    off: u64,
    tag: Option<&'static str>,
    attrs: Vec<GAttr>,
}

#[derive(Clone, Debug)]
struct GUnit {
    types_section: bool,
    offset: u64,
    dies: Vec<GDie>,
}

fn value_num(v: &AV<Slice<'_>>) -> (Option<i128>, Option<Option<&'static str>>) {
    let mut typed = None;
    let n = match v {
        AV::Data1(x) => Some(*x as i128),
        AV::Data2(x) => Some(*x as i128),
        AV::Data4(x) => Some(*x as i128),
        AV::Data8(x) => Some(*x as i128),
        AV::Udata(x) => Some(*x as i128),
        AV::Sdata(x) => Some(*x as i128),
        AV::SecOffset(x) => Some(*x as i128),
        AV::DebugAddrBase(x) => Some(x.0 as i128),
        AV::DebugLineRef(x) => Some(x.0 as i128),
        AV::LocationListsRef(x) => Some(x.0 as i128),
        AV::DebugLocListsBase(x) => Some(x.0 as i128),
        AV::DebugMacinfoRef(x) => Some(x.0 as i128),
        AV::DebugMacroRef(x) => Some(x.0 as i128),
        AV::RangeListsRef(x) => Some(x.0 as i128),
        AV::DebugRngListsBase(x) => Some(x.0 as i128),
        AV::DebugStrOffsetsBase(x) => Some(x.0 as i128),
        AV::FileIndex(x) => Some(*x as i128),
        AV::DwoId(x) => Some(x.0 as i128),
        AV::Encoding(x) => {
            typed = Some(x.static_string());
            Some(x.0 as i128)
        }
        AV::DecimalSign(x) => {
            typed = Some(x.static_string());
            Some(x.0 as i128)
        }
        AV::Endianity(x) => {
            typed = Some(x.static_string());
            Some(x.0 as i128)
        }
        AV::Accessibility(x) => {
            typed = Some(x.static_string());
            Some(x.0 as i128)
        }
        AV::Visibility(x) => {
            typed = Some(x.static_string());
            Some(x.0 as i128)
        }
        AV::Virtuality(x) => {
            typed = Some(x.static_string());
            Some(x.0 as i128)
        }
        AV::Language(x) => {
            typed = Some(x.static_string());
            Some(x.0 as i128)
        }
        AV::AddressClass(x) => Some(x.0 as i128),
        AV::IdentifierCase(x) => {
            typed = Some(x.static_string());
            Some(x.0 as i128)
        }
        AV::CallingConvention(x) => {
            typed = Some(x.static_string());
            Some(x.0 as i128)
        }
        AV::Inline(x) => {
            typed = Some(x.static_string());
            Some(x.0 as i128)
        }
        AV::Ordering(x) => {
            typed = Some(x.static_string());
            Some(x.0 as i128)
        }
        _ => None,
    };
    (n, typed)
}

fn file_name<'a>(dwarf: &gimli::Dwarf<Slice<'a>>, unit: &gimli::Unit<Slice<'a>>, idx: u64) -> Result<Vec<u8>, String> {
    let Some(lp) = unit.line_program.as_ref() else { return Err("no line program".into()) };
    let Some(f) = lp.header().file(idx) else { return Err(format!("no file entry {idx}")) };
    dwarf.attr_string(unit, f.path_name()).map(|s| s.slice().to_vec()).map_err(|e| format!("{e:?}"))
}

fn gimli_attr<'a>(dwarf: &gimli::Dwarf<Slice<'a>>, unit: &gimli::Unit<Slice<'a>>, a: &gimli::Attribute<Slice<'a>>) -> GAttr {
    let raw = a.raw_value();
    let es = |r: gimli::Result<Slice<'a>>| r.map(|s| s.slice().to_vec()).map_err(|e| format!("{e:?}"));
    let g = match &raw {
        AV::Data1(x) => GVal::Num(*x as i128),
        AV::Data2(x) => GVal::Num(*x as i128),
        AV::Data4(x) => GVal::Num(*x as i128),
        AV::Data8(x) => GVal::Num(*x as i128),
        AV::Udata(x) => GVal::Num(*x as i128),
        AV::Sdata(x) => GVal::Num(*x as i128),
        AV::SecOffset(x) => GVal::Num(*x as i128),
        AV::Flag(b) => GVal::Flag(*b),
        AV::String(s) => GVal::Str(None, Ok(s.slice().to_vec())),
        AV::DebugStrRef(o) => GVal::Str(Some(o.0 as u64), es(dwarf.attr_string(unit, raw.clone()))),
        AV::DebugLineStrRef(o) => GVal::Str(Some(o.0 as u64), es(dwarf.attr_string(unit, raw.clone()))),
        AV::DebugStrOffsetsIndex(i) => GVal::Str(Some(i.0 as u64), es(dwarf.attr_string(unit, raw.clone()))),
        AV::Addr(x) => GVal::Addr(None, dwarf.attr_address(unit, raw.clone()).map_err(|e| format!("{e:?}")).map(|v| v.or(Some(*x)))),
        AV::DebugAddrIndex(i) => GVal::Addr(Some(i.0 as u64), dwarf.attr_address(unit, raw.clone()).map_err(|e| format!("{e:?}"))),
        AV::UnitRef(o) => {
            let abs = o.to_unit_section_offset(&unit.header).0 as u64;
            GVal::Ref(Some(o.0 as u64), Some(abs))
        }
        AV::DebugInfoRef(o) => GVal::Ref(None, Some(o.0 as u64)),
        AV::DebugTypesRef(sig) => GVal::Sig(sig.0),
        AV::Block(b) => GVal::Bytes(b.slice().to_vec()),
        // the corpus is little-endian: the 16 bytes as they are in the section
        AV::Data16(x) => GVal::Bytes(x.to_le_bytes().to_vec()),
        AV::Exprloc(e) => GVal::Expr(e.0.slice().to_vec()),
        AV::DebugRngListsIndex(i) => GVal::ListIdx(i.0 as u64, dwarf.attr_ranges_offset(unit, raw.clone()).map(|o| o.map(|o| o.0 as u64)).map_err(|e| format!("{e:?}"))),
        AV::DebugLocListsIndex(i) => GVal::ListIdx(i.0 as u64, dwarf.attr_locations_offset(unit, raw.clone()).map(|o| o.map(|o| o.0 as u64)).map_err(|e| format!("{e:?}"))),
        other => GVal::Other(format!("{other:?}").chars().take(60).collect()),
    };
    let value = a.value();
    let (vnum, typed) = value_num(&value);
    let file = match value {
        AV::FileIndex(i) => Some(file_name(dwarf, unit, i)),
        _ => None,
    };
    GAttr { name: a.name().0, form: a.form().0, raw: g, vnum, typed, file }
}

fn gimli_units<'a>(dwarf: &gimli::Dwarf<Slice<'a>>, parent: Option<&gimli::Dwarf<Slice<'a>>>) -> Result<Vec<GUnit>, String> {
    let mut out = vec![];
    for h in cb::headers(dwarf)? {
        let (types_section, offset) = cb::header_offset(&h);
        let mut unit = dwarf.unit(h).map_err(|e| format!("Dwarf::unit at 0x{offset:x}: {e:?}"))?;
        if let (Some(p), Some(id)) = (parent, unit.dwo_id) {
            if let Some(sk) = cb::skeleton_for(p, id.0) {
                unit.copy_relocated_attributes(&sk);
            }
        }
        let mut dies = vec![];
        let mut c = unit.entries();
        while c.next_entry().map_err(|e| format!("next_entry in unit 0x{offset:x}: {e:?}"))? {
            let Some(e) = c.current() else { continue };
            let off = e.offset().to_unit_section_offset(&unit.header).0 as u64;
            dies.push(GDie { off, tag: e.tag().static_string(), attrs: e.attrs().iter().map(|a| gimli_attr(dwarf, &unit, a)).collect() });
        }
        out.push(GUnit { types_section, offset, dies });
    }
    Ok(out)
}

struct Mis {
    sig: &'static str,
    expected: String,
    observed: String,
}

fn mis<T>(sig: &'static str, expected: impl std::fmt::Debug, observed: impl std::fmt::Debug) -> Result<T, Mis> {
    Err(Mis { sig, expected: format!("{expected:?}"), observed: format!("{observed:?}") })
}

fn first_op(text: &str) -> Option<&str> {
    let t = text.trim();
    let end = t.find(|c: char| c == ' ' || c == '(' || c == ',').unwrap_or(t.len());
    let tok = &t[..end];
    if tok.starts_with("DW_OP_") {
        Some(tok)
    } else {
        None
    }
}

/// Judge one attribute.  `Ok(class)` names the class that was compared (an observation key),
/// `Ok("unjudged...")` that the rendering is not one of the unambiguous ones.
fn judge(a: &DAttr, g: &GAttr, u: &DUnit, skel: Option<&cb::SkelFacts>, debug_addr: &[u8]) -> Result<&'static str, Mis> {
    let t = a.text.as_str();
    let form = a.form.as_str();
    // the payload of value() equals the raw payload
    if let (GVal::Num(r), Some(v)) = (&g.raw, g.vnum) {
        if *r != v {
            return mis("corpus.attr.value_payload", r, v);
        }
    }
    match form {
        "DW_FORM_addr" => {
            let Some(x) = cb::lead_hex(t) else { return Ok("unjudged.addr_text") };
            match &g.raw {
                GVal::Addr(None, Ok(Some(v))) if *v == x => Ok("addr"),
                o => mis("corpus.attr.addr", x, o),
            }
        }
        "DW_FORM_addrx" | "DW_FORM_addrx1" | "DW_FORM_addrx2" | "DW_FORM_addrx3" | "DW_FORM_addrx4" | "DW_FORM_GNU_addr_index" => {
            let Some(idx) = t.find('(').and_then(|i| cb::lead_barehex(&t[i + 1..])) else { return Ok("unjudged.addrx_text") };
            let GVal::Addr(Some(gi), gv) = &g.raw else { return mis("corpus.attr.addrx", ("index", idx), &g.raw) };
            if *gi != idx {
                return mis("corpus.attr.addrx.index", idx, gi);
            }
            let exp = match t.find("address = 0x") {
                Some(i) => cb::lead_hex(&t[i + 10..]),
                None => skel.and_then(|f| cb::addr_slot(debug_addr, f.addr_base, idx, u.addr_size)),
            };
            let Some(exp) = exp else { return Ok("unjudged.addrx_unresolved") };
            match gv {
                Ok(Some(v)) if *v == exp => Ok(if t.contains("address = 0x") { "addrx" } else { "addrx.dwo" }),
                o => mis("corpus.attr.addrx.address", exp, o),
            }
        }
        "DW_FORM_data1" | "DW_FORM_data2" | "DW_FORM_data4" | "DW_FORM_data8" | "DW_FORM_udata" | "DW_FORM_sdata" | "DW_FORM_implicit_const" | "DW_FORM_sec_offset" => {
            let GVal::Num(gn) = &g.raw else { return mis("corpus.attr.const", t, &g.raw) };
            if t.starts_with('"') {
                // DW_AT_decl_file / DW_AT_call_file rendered as the file name
                let Some(name) = cb::quoted(t) else { return Ok("unjudged.file_text") };
                return match &g.file {
                    Some(Ok(p)) if name.ends_with(p) && !p.is_empty() => Ok("file_name"),
                    Some(o) => mis("corpus.attr.file_name", String::from_utf8_lossy(&name), o.as_ref().map(|p| String::from_utf8_lossy(p).to_string())),
                    None => mis("corpus.attr.file_name", String::from_utf8_lossy(&name), "value() is not a FileIndex"),
                };
            }
            if t.starts_with("DW_") {
                // enumerated constant rendered by name
                let name = t.split_whitespace().next().unwrap_or("");
                return match g.typed {
                    Some(Some(n)) if n == name => Ok("named_constant"),
                    Some(Some(n)) => mis("corpus.attr.named_constant", name, n),
                    _ => Ok("unjudged.named_constant"),
                };
            }
            let Some(x) = cb::lead_num(t) else { return Ok("unjudged.const_text") };
            // llvm prints data forms as unsigned, sdata / implicit_const as signed
            if *gn == x {
                Ok(match form {
                    "DW_FORM_sec_offset" => "sec_offset",
                    "DW_FORM_sdata" => "sdata",
                    "DW_FORM_udata" => "udata",
                    "DW_FORM_implicit_const" => "implicit_const",
                    "DW_FORM_data1" => "data1",
                    "DW_FORM_data2" => "data2",
                    "DW_FORM_data4" => "data4",
                    _ => "data8",
                })
            } else {
                mis(if form == "DW_FORM_sec_offset" { "corpus.attr.sec_offset" } else { "corpus.attr.const" }, x, gn)
            }
        }
        "DW_FORM_flag" | "DW_FORM_flag_present" => {
            let exp = if form == "DW_FORM_flag_present" {
                if t != "true" {
                    return Ok("unjudged.flag_text");
                }
                true
            } else {
                let Some(x) = cb::lead_hex(t) else { return Ok("unjudged.flag_text") };
                x != 0
            };
            match &g.raw {
                GVal::Flag(b) if *b == exp => Ok("flag"),
                o => mis("corpus.attr.flag", exp, o),
            }
        }
        "DW_FORM_string" | "DW_FORM_strp" | "DW_FORM_line_strp" | "DW_FORM_strx" | "DW_FORM_strx1" | "DW_FORM_strx2" | "DW_FORM_strx3" | "DW_FORM_strx4" | "DW_FORM_GNU_str_index" => {
            let Some(text) = cb::quoted(t) else { return Ok("unjudged.string_text") };
            let loc = match form {
                "DW_FORM_string" => None,
                "DW_FORM_strp" => cb::hex_after(t, ".debug_str["),
                "DW_FORM_line_strp" => cb::hex_after(t, ".debug_line_str["),
                _ => t.find('(').and_then(|i| cb::lead_barehex(&t[i + 1..])),
            };
            if form != "DW_FORM_string" && loc.is_none() {
                return Ok("unjudged.string_text");
            }
            let GVal::Str(gl, gt) = &g.raw else { return mis("corpus.attr.string", String::from_utf8_lossy(&text), &g.raw) };
            if *gl != loc {
                return mis("corpus.attr.string.offset", loc, gl);
            }
            match gt {
                Ok(b) if *b == text => Ok(match form {
                    "DW_FORM_string" => "string",
                    "DW_FORM_strp" => "strp",
                    "DW_FORM_line_strp" => "line_strp",
                    "DW_FORM_GNU_str_index" => "GNU_str_index",
                    _ => "strx",
                }),
                o => mis("corpus.attr.string", String::from_utf8_lossy(&text), o.as_ref().map(|b| String::from_utf8_lossy(b).to_string())),
            }
        }
        "DW_FORM_ref1" | "DW_FORM_ref2" | "DW_FORM_ref4" | "DW_FORM_ref8" | "DW_FORM_ref_udata" => {
            let (Some(rel), Some(abs)) = (cb::hex_after(t, "cu + "), cb::hex_after(t, "=> {")) else { return Ok("unjudged.ref_text") };
            match &g.raw {
                GVal::Ref(Some(r), Some(a)) if *r == rel && *a == abs => Ok("ref"),
                o => mis("corpus.attr.ref", (rel, abs), o),
            }
        }
        "DW_FORM_ref_addr" => {
            let Some(abs) = cb::lead_hex(t) else { return Ok("unjudged.ref_text") };
            match &g.raw {
                GVal::Ref(None, Some(a)) if *a == abs => Ok("ref_addr"),
                o => mis("corpus.attr.ref_addr", abs, o),
            }
        }
        "DW_FORM_ref_sig8" => {
            let Some(sig) = cb::lead_hex(t) else { return Ok("unjudged.ref_text") };
            match &g.raw {
                GVal::Sig(s) if *s == sig => Ok("ref_sig8"),
                o => mis("corpus.attr.ref_sig8", sig, o),
            }
        }
        "DW_FORM_rnglistx" | "DW_FORM_loclistx" => {
            let key = if form == "DW_FORM_rnglistx" { "rangelist = " } else { "loclist = " };
            let (Some(idx), Some(off)) = (cb::hex_after(t, "indexed ("), cb::hex_after(t, key)) else { return Ok("unjudged.listx_text") };
            match &g.raw {
                GVal::ListIdx(i, Ok(Some(o))) if *i == idx && *o == off => Ok(if form == "DW_FORM_rnglistx" { "rnglistx" } else { "loclistx" }),
                o => mis("corpus.attr.listx", (idx, off), o),
            }
        }
        "DW_FORM_exprloc" | "DW_FORM_block" | "DW_FORM_block1" | "DW_FORM_block2" | "DW_FORM_block4" => {
            let bytes = match &g.raw {
                GVal::Bytes(b) | GVal::Expr(b) => b,
                o => return mis("corpus.attr.block", t, o),
            };
            if let Some(r) = t.strip_prefix('<') {
                // <0x04> 01 02 03 04
                let Some(n) = cb::lead_hex(r) else { return Ok("unjudged.block_text") };
                let Some(close) = r.find('>') else { return Ok("unjudged.block_text") };
                let mut exp = vec![];
                for p in r[close + 1..].split_whitespace() {
                    let Ok(b) = u8::from_str_radix(p, 16) else { return Ok("unjudged.block_text") };
                    exp.push(b);
                }
                if exp.len() as u64 != n {
                    return Ok("unjudged.block_text");
                }
                return if *bytes == exp { Ok("block") } else { mis("corpus.attr.block", exp, bytes) };
            }
            let Some(op) = first_op(t) else { return Ok("unjudged.expr_text") };
            let Some(b0) = bytes.first() else { return mis("corpus.attr.expr.first_op", op, "empty expression") };
            match gimli::DwOp(*b0).static_string() {
                Some(n) if n == op => Ok("expr.first_op"),
                Some(n) => mis("corpus.attr.expr.first_op", op, n),
                None => Ok("unjudged.expr_op_name"),
            }
        }
        "DW_FORM_data16" => {
            // 32 hexadecimal digits, bytes in section order
            let h: String = t.chars().filter(|c| !c.is_whitespace()).collect();
            if h.len() != 32 || !h.chars().all(|c| c.is_ascii_hexdigit()) {
                return Ok("unjudged.data16_text");
            }
            let exp: Vec<u8> = (0..16).map(|i| u8::from_str_radix(&h[2 * i..2 * i + 2], 16).unwrap_or(0)).collect();
            match &g.raw {
                GVal::Bytes(b) if *b == exp => Ok("data16"),
                o => mis("corpus.attr.data16", exp, o),
            }
        }
        _ => Ok("unjudged.form"),
    }
}

fn check_file(ctx: &mut Ctx, names: &Names, b: &Built, file: &str, dwo: bool) {
    let label = format!("{} :: {}", b.cfg.label(), file);
    let expect = match cb::info_dump(b, file) {
        Ok(u) => u,
        Err(e) => return ctx.inconclusive(&format!("corpus: {label}: {e}")),
    };
    let obj = match b.load(file) {
        Ok(o) => o,
        Err(e) => return ctx.inconclusive(&format!("corpus: {label}: {e}")),
    };
    // split objects: the skeleton file supplies .debug_addr; what llvm says about the
    // skeleton units (address table base) is the oracle for indexed addresses
    let (pobj, skel_facts) = if dwo {
        let p = match b.load("prog") {
            Ok(o) => o,
            Err(e) => return ctx.inconclusive(&format!("corpus: {label}: {e}")),
        };
        let facts = match cb::info_dump(b, "prog") {
            Ok(u) => cb::skeleton_facts(&u, p.sec(".debug_addr")),
            Err(e) => return ctx.inconclusive(&format!("corpus: {label}: skeleton dump: {e}")),
        };
        (Some(p), facts)
    } else {
        (None, Default::default())
    };
    let dir = b.dir.display().to_string();
    let input = || json!({"corpus": label, "build_dir": dir, "oracle": "llvm-dwarfdump -v --debug-info --debug-types"});
    ctx.evals(expect.len() as u64);
    let got = ctx.guard("corpus.attrs", &input, || {
        let parent = pobj.as_ref().map(|p| p.dwarf());
        let dwarf = match &parent {
            Some(p) => obj.dwarf_dwo(p),
            None => obj.dwarf(),
        };
        gimli_units(&dwarf, parent.as_ref())
    });
    let Some(got) = got else { return };
    let got = match got {
        Ok(g) => g,
        Err(e) => return ctx.fail("corpus.err", &format!("{label}: gimli rejected compiler output: {e}"), &input),
    };
    ctx.obs("corpus.object");
    if dwo {
        ctx.obs("corpus.object.dwo");
    }
    if expect.len() != got.len() {
        ctx.check_eq("corpus.unit_count", &expect.len(), &got.len(), &input);
        return;
    }
    let debug_addr: &[u8] = pobj.as_ref().map(|p| p.sec(".debug_addr")).unwrap_or(&[]);
    let mut sampled = false;
    for (eu, gu) in expect.iter().zip(got.iter()) {
        if (eu.types_section, eu.offset) != (gu.types_section, gu.offset) {
            ctx.check_eq("corpus.unit_offset", &(eu.types_section, eu.offset), &(gu.types_section, gu.offset), &input);
            continue;
        }
        ctx.obs(&format!("corpus.unit.v{}", eu.version));
        if eu.fmt64 {
            ctx.obs("corpus.unit.dwarf64");
        }
        if eu.type_signature.is_some() {
            ctx.obs("corpus.unit.type");
        }
        let skel = eu.any_dwo_id().and_then(|id| skel_facts.get(&id));
        let edies: Vec<&cb::DDie> = eu.dies.iter().filter(|d| d.tag != "NULL").collect();
        if edies.len() != gu.dies.len() {
            ctx.check_eq("corpus.entry_count", &edies.len(), &gu.dies.len(), &input);
            continue;
        }
        for (ed, gd) in edies.iter().zip(gu.dies.iter()) {
            if ed.off != gd.off || ed.attrs.len() != gd.attrs.len() {
                ctx.check_eq("corpus.entry", &(ed.off, ed.attrs.len()), &(gd.off, gd.attrs.len()), &input);
                continue;
            }
            for (ea, ga) in ed.attrs.iter().zip(gd.attrs.iter()) {
                let at = |what: &str| format!("{label}: unit 0x{:x} entry 0x{:x} ({}) {} [{}]: {what}", eu.offset, ed.off, ed.tag, ea.name, ea.form);
                match names.at_code(&ea.name) {
                    Some(c) if c == ga.name => {}
                    Some(c) => {
                        ctx.fail("corpus.attr.name", &at(&format!("llvm-dwarfdump names attribute 0x{c:x}, gimli reports 0x{:x}", ga.name)), &input);
                        continue;
                    }
                    None => ctx.obs("corpus.unjudged.attr_name"),
                }
                match names.form_code(&ea.form) {
                    Some(c) if c == ga.form => {}
                    Some(c) => {
                        ctx.fail("corpus.attr.form", &at(&format!("llvm-dwarfdump names form 0x{c:x}, gimli reports 0x{:x}", ga.form)), &input);
                        continue;
                    }
                    None => ctx.obs("corpus.unjudged.form_name"),
                }
                match judge(ea, ga, eu, skel, debug_addr) {
                    Ok(class) => {
                        ctx.obs(&format!("corpus.{class}"));
                        if !class.starts_with("unjudged") {
                            ctx.obs("corpus.attr.compared");
                        }
                    }
                    Err(m) => {
                        ctx.fail(m.sig, &at(&format!("llvm-dwarfdump prints `{}`: expected {} observed {}", ea.text.chars().take(120).collect::<String>(), m.expected, m.observed)), &input);
                    }
                }
            }
            if !sampled && ed.attrs.len() >= 3 && ed.depth > 0 {
                sampled = true;
                ctx.sample("corpus", || {
                    json!({"config": label, "entry": format!("0x{:x} {}", ed.off, ed.tag),
                           "llvm": ed.attrs.iter().map(|a| format!("{} [{}] ({})", a.name, a.form, a.text)).collect::<Vec<_>>(),
                           "gimli": gd.attrs.iter().map(|a| format!("{:?}", a.raw)).collect::<Vec<_>>()})
                });
            }
        }
    }
    ctx.nontrivial(obj.digest());
}

pub fn run(ctx: &mut Ctx) {
    if ctx.slow() {
        return;
    }
    let cfgs = configs(ctx.quick());
    let mut names: Option<Names> = None;
    for (i, cfg) in cfgs.iter().enumerate() {
        if !ctx.want("corpus", i as u64) {
            continue;
        }
        let b = match cb::build(ctx, cfg) {
            Ok(b) => b,
            Err(e) => {
                ctx.inconclusive(&format!("corpus: {e}"));
                continue;
            }
        };
        let names = names.get_or_insert_with(Names::new);
        check_file(ctx, names, &b, "prog", false);
        for d in b.dwos() {
            check_file(ctx, names, &b, d, true);
        }
    }
}

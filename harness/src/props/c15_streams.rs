//! C15 workloads.

use super::*;

fn enc_with(le: bool, k: u64) -> Enc {
    let mut e = Enc::nth(k);
    e.le = le;
    e
}

fn has_program(p: &Plan) -> bool {
    p.units.iter().any(|u| {
        u.entries.iter().any(|e| {
            e.attrs.iter().any(|a| match a {
                AttrPlan::Expr(b) => !b.is_empty(),
                AttrPlan::LocList(l) => l.iter().any(|b| !b.is_empty()),
                AttrPlan::RawBytes(b) => !b.is_empty(),
            })
        })
    })
}

fn cfi_plan_for(prog: &[B], enc: Enc, eh: bool) -> CfiPlan {
    CfiPlan {
        le: enc.le,
        eh,
        enc,
        cie: vec![CfiI::CfaExpr(prog.to_vec()), CfiI::Sentinel(1, 2)],
        fde: vec![(0, CfiI::Expr(7, prog.to_vec())), (0, CfiI::Sentinel(3, 4)), (4, CfiI::ValExpr(40, prog.to_vec())), (4, CfiI::Sentinel(5, 6))],
    }
}

// ---------------------------------------------------------------- single

fn single(ctx: &mut Ctx) {
    let atoms_le = atoms(true);
    let atoms_be = atoms(false);
    let na = atoms_le.len() as u64;
    let total = na * 4 * 64;
    let thin = if ctx.dbg() && ctx.quick() { 3 } else { 1 };
    for i in 0..total {
        if !ctx.want("single", i) {
            continue;
        }
        let enc = Enc::nth(i % 64);
        let w = (i / 64) % 4;
        let ai = (i / 256) as usize;
        if thin > 1 && (ai as u64 + w + i % 64) % thin != ctx.seed % thin {
            continue;
        }
        let (name, atom) = if enc.le { &atoms_le[ai] } else { &atoms_be[ai] };
        let prog = wrap(atom, w);
        ctx.eval();
        ctx.counted_distinct += 1;
        ctx.obs(&format!("builder.{name}"));
        let enc1 = enc_with(enc.le, (i % 64) * 7 + 13 + ai as u64);
        let mut f = Facts::default();
        facts(&prog, enc.addr_mask(), &mut f, 0);
        let fwd = f.uleb_refs.iter().any(|r| matches!(r.entry, 3 | 5 | 6));
        let tag = "single";
        let mut die_block: Option<Vec<u8>> = None;
        // every other case hosts the expression in the second unit of the section (non-zero
        // unit offset): the two units and all references are exchanged
        let swapped = (ai as u64 + w + i % 64) % 2 == 1;
        let hu = if swapped { 1 } else { 0 };
        let hosted = if swapped { swap_units(&prog) } else { prog.clone() };
        let layout = || {
            let mut l = single_layout(enc, enc1);
            if swapped {
                l.units.swap(0, 1);
            }
            l
        };
        if fwd {
            let mut a = layout();
            a.units[hu].entries[SINGLE_HOST].attrs = vec![AttrPlan::Expr(hosted.clone())];
            verify_plan(ctx, &a, &Opts { tag, expect: Expect::Auto, eval: false, twin: false });
            let mut b = layout();
            b.units[hu].entries[SINGLE_HOST].attrs = vec![AttrPlan::LocList(vec![hosted.clone()])];
            verify_plan(ctx, &b, &Opts { tag, expect: Expect::Auto, eval: false, twin: false });
        } else {
            let mut a = layout();
            a.units[hu].entries[SINGLE_HOST].attrs = vec![AttrPlan::Expr(hosted.clone()), AttrPlan::LocList(vec![hosted.clone(), hosted.clone()])];
            let blocks = verify_plan(ctx, &a, &Opts { tag, expect: Expect::Auto, eval: false, twin: i % 3 == 0 });
            if let Some(bl) = blocks {
                let d = bl.get(&(hu, SINGLE_HOST, 0, usize::MAX));
                let l0 = bl.get(&(hu, SINGLE_HOST, 1, 0));
                let l1 = bl.get(&(hu, SINGLE_HOST, 1, 1));
                if let (Some(d), Some(l0), Some(l1)) = (d, l0, l1) {
                    if d == l0 && d == l1 {
                        ctx.obs("crosshost.bytes_equal");
                    } else {
                        ctx.fail("single.crosshost.attr_vs_loclist", &format!("the same expression is {} in the attribute and {} / {} in the location list", hex(d), hex(l0), hex(l1)), &|| plan_json(&a));
                    }
                    die_block = Some(d.clone());
                }
            }
            if i % 997 == 0 {
                let a2 = a.clone();
                let d2 = die_block.clone();
                ctx.sample("single", || json!({"plan": plan_json(&a2), "block": d2.map(|d| hex(&d))}));
            }
        }
        // CFI host
        let eh = ai % 3 == 0;
        let cp = cfi_plan_for(&prog, enc, eh);
        if has_refs(&f) {
            let layout = single_layout(enc, enc1);
            let (_dwarf, ids) = make_ids(&layout);
            verify_cfi(ctx, &cp, Some(&ids), true, tag);
        } else if let Some(bl) = verify_cfi(ctx, &cp, None, false, tag) {
            if let Some(d) = &die_block {
                if enc.version < 5 {
                    if bl.iter().all(|b| b == d) {
                        ctx.obs("crosshost.bytes_equal");
                    } else {
                        ctx.fail("single.crosshost.attr_vs_cfi", &format!("the same reference-free expression is {} in the attribute and {:?} in the CFI instructions", hex(d), bl.iter().map(|b| hex(b)).collect::<Vec<_>>()), &|| cfi_json(&cp));
                    }
                }
            }
        }
    }
}

// ---------------------------------------------------------------- rand

const TAGS: &[gimli::DwTag] = &[dw::DW_TAG_variable, dw::DW_TAG_subprogram, dw::DW_TAG_formal_parameter, dw::DW_TAG_lexical_block, dw::DW_TAG_structure_type, dw::DW_TAG_GNU_call_site];

fn gen_plan(r: &mut Rng) -> Plan {
    let le = r.bool();
    let nunits = match r.below(6) {
        0 | 1 => 2,
        2 => 3,
        _ => 1,
    };
    let mut units = vec![];
    for _ in 0..nunits {
        let enc = enc_with(le, r.next());
        let n = 2 + r.usize(8);
        let mut entries = vec![EntryPlan { parent: 0, tag: dw::DW_TAG_compile_unit.0, sibling: r.chance(1, 4), attrs: vec![] }];
        for i in 1..n {
            let parent = if r.chance(1, 2) { 0 } else { r.usize(i) };
            let tag = if r.chance(1, 3) { dw::DW_TAG_base_type } else { *r.pick(TAGS) };
            entries.push(EntryPlan { parent, tag: tag.0, sibling: r.chance(1, 4), attrs: vec![] });
        }
        units.push(UnitPlan { enc, entries });
    }
    let n_entries: Vec<usize> = units.iter().map(|u| u.entries.len()).collect();
    let forward = r.chance(1, 10);
    for ui in 0..nunits {
        let order = written_order(&units[ui]);
        let mut pos = vec![0usize; order.len()];
        for (k, &e) in order.iter().enumerate() {
            pos[e] = k;
        }
        let enc = units[ui].enc;
        for ei in 0..n_entries[ui] {
            let na = match r.below(5) {
                0 | 1 => 0,
                2 | 3 => 1,
                _ => 1 + r.usize(3),
            };
            for _ in 0..na {
                let safe: Vec<usize> = (0..n_entries[ui]).filter(|&e| pos[e] <= pos[ei]).collect();
                let loclist = r.chance(3, 10);
                let g = GenCtx { le, addr_mask: enc.addr_mask(), host_unit: ui, safe, n_host: n_entries[ui], n_entries: n_entries.clone(), allow_refs: true, any_uleb: loclist || forward };
                let a = if loclist {
                    let items = 1 + r.usize(3);
                    AttrPlan::LocList((0..items).map(|_| { let n = r.usize(9); gen_ops(r, &g, n, 0) }).collect())
                } else {
                    let n = match r.below(4) {
                        0 => r.usize(3),
                        3 => r.usize(13),
                        _ => r.usize(7),
                    };
                    AttrPlan::Expr(gen_ops(r, &g, n, 0))
                };
                units[ui].entries[ei].attrs.push(a);
            }
        }
    }
    Plan { le, units }
}

fn rand(ctx: &mut Ctx) {
    let n = ctx.size(12_000, 60_000, 6);
    for i in 0..n {
        if !ctx.want("rand", i) {
            continue;
        }
        let mut r = ctx.rng("rand", i);
        let plan = gen_plan(&mut r);
        ctx.eval();
        verify_plan(ctx, &plan, &Opts { tag: "rand", expect: Expect::Auto, eval: false, twin: i % 4 == 0 });
        if has_program(&plan) {
            ctx.nontrivial(fnv_add(fnv(b"rand"), format!("{plan:?}").as_bytes()));
        }
        if i == 5 {
            ctx.sample("rand", || plan_json(&plan));
        }
    }
}

// ---------------------------------------------------------------- eval

fn eval(ctx: &mut Ctx) {
    let n = ctx.size(12_000, 60_000, 6);
    for i in 0..n {
        if !ctx.want("eval", i) {
            continue;
        }
        let mut r = ctx.rng("eval", i);
        let enc = Enc::nth(i);
        let p1 = gen_eval(&mut r, enc.le, enc.addr, 0);
        let p2 = gen_eval(&mut r, enc.le, enc.addr, 0);
        let e = |parent: usize, tag: gimli::DwTag, attrs: Vec<AttrPlan>| EntryPlan { parent, tag: tag.0, sibling: false, attrs };
        let plan = Plan {
            le: enc.le,
            units: vec![UnitPlan {
                enc,
                entries: vec![e(0, dw::DW_TAG_compile_unit, vec![]), e(0, dw::DW_TAG_variable, vec![AttrPlan::Expr(p1.clone()), AttrPlan::Expr(p2.clone()), AttrPlan::LocList(vec![p1.clone()])])],
            }],
        };
        ctx.eval();
        verify_plan(ctx, &plan, &Opts { tag: "eval", expect: Expect::Auto, eval: true, twin: false });
        if i % 4 == 0 {
            let cp = cfi_plan_for(&p2, enc, i % 8 == 0);
            verify_cfi(ctx, &cp, None, false, "eval");
        }
        ctx.nontrivial(fnv_add(fnv(b"eval"), format!("{plan:?}").as_bytes()));
        if i == 3 {
            let mut steps = 0;
            let m = model_eval(&expect(&p1, enc.addr), enc.addr, &mut steps, 0);
            ctx.sample("eval", || json!({"enc": enc.label(), "program": b_json(&p1), "model_result": format!("{m:?}"), "steps": steps}));
        }
    }
}

// ---------------------------------------------------------------- cfi

fn cfi(ctx: &mut Ctx) {
    let n = ctx.size(8_000, 40_000, 6);
    for i in 0..n {
        if !ctx.want("cfi", i) {
            continue;
        }
        let mut r = ctx.rng("cfi", i);
        let enc = Enc::nth(i);
        let with_refs = i % 5 == 4;
        let layout = single_layout(enc, enc);
        let g = GenCtx { le: enc.le, addr_mask: enc.addr_mask(), host_unit: 0, safe: vec![0, 1, 2, 4], n_host: 7, n_entries: vec![7, 3], allow_refs: false, any_uleb: true };
        let mut progs: Vec<Vec<B>> = (0..3).map(|_| { let n = r.usize(10); gen_ops(&mut r, &g, n, 0) }).collect();
        let mut must_err = false;
        if with_refs {
            // exactly one operation with an entry reference, possibly nested
            let t = ERef { unit: 0, entry: r.usize(7) };
            let x = ERef { unit: r.usize(2), entry: r.usize(3) };
            let op = match r.below(11) {
                0 => B::ConstType(t, vec![1, 2]),
                1 => B::RegvalType(3, t),
                2 => B::DerefType(4, t),
                3 => B::XderefType(4, t),
                4 => B::Convert(Some(t)),
                5 => B::Reinterpret(Some(t)),
                6 => B::Call(t),
                7 => B::ParameterRef(t),
                8 => B::CallRef(x),
                9 => B::VariableValue(x),
                _ => B::ImplicitPointer(x, -3),
            };
            let op = if r.chance(1, 3) { B::EntryValue(vec![B::Reg(1), op]) } else { op };
            let which = r.usize(3);
            progs[which].push(op);
            must_err = true;
        }
        let eh = r.chance(1, 3);
        let cp = CfiPlan {
            le: enc.le,
            eh,
            enc,
            cie: vec![CfiI::CfaExpr(progs[0].clone()), CfiI::Sentinel(9, 10)],
            fde: vec![(0, CfiI::Sentinel(11, 12)), (2, CfiI::Expr(r.below(200) as u16, progs[1].clone())), (2, CfiI::ValExpr(r.below(200) as u16, progs[2].clone())), (9, CfiI::Sentinel(13, 14))],
        };
        ctx.eval();
        for p in &progs {
            obs_program(ctx, p, 0, 0);
        }
        if must_err {
            let (_d, ids) = make_ids(&layout);
            verify_cfi(ctx, &cp, Some(&ids), true, "cfi");
        } else {
            verify_cfi(ctx, &cp, None, false, "cfi");
        }
        if progs.iter().any(|p| !p.is_empty()) {
            ctx.nontrivial(fnv_add(fnv(b"cfi"), format!("{cp:?}").as_bytes()));
        }
        if i == 2 {
            ctx.sample("cfi", || cfi_json(&cp));
        }
    }
}

// ---------------------------------------------------------------- edge

fn filler(n: usize) -> B {
    B::ImplicitValue((0..n).map(|i| (i * 7) as u8).collect())
}

fn edge(ctx: &mut Ctx) {
    // (name, program, representable in an attribute?, representable in a v<=4 location list?)
    // implicit_value of n bytes occupies 1 + uleb_len(n) + n bytes; for 16384 <= n < 2^21 that is n + 4.
    let kinds: Vec<(&str, Vec<B>, bool)> = vec![
        ("skip.fwd.32767", vec![B::Skip(2), filler(32763), B::Simple(dw::DW_OP_nop.0)], true),
        ("skip.fwd.32768", vec![B::Skip(2), filler(32764), B::Simple(dw::DW_OP_nop.0)], false),
        ("bra.end.32767", vec![B::Bra(2), filler(32763)], true),
        ("bra.end.32768", vec![B::Bra(2), filler(32764)], false),
        ("skip.bwd.-32768", vec![filler(32761), B::Skip(0)], true),
        ("skip.bwd.-32769", vec![filler(32762), B::Skip(0)], false),
        ("bra.bwd.-32768", vec![B::Simple(dw::DW_OP_nop.0), filler(32761), B::Bra(1), B::Pick(2)], true),
        ("bra.bwd.-32769", vec![B::Simple(dw::DW_OP_nop.0), filler(32762), B::Bra(1), B::Pick(2)], false),
        ("nested.fwd.32767", vec![B::EntryValue(vec![B::Skip(2), filler(32763), B::Constu(32)]), B::Skip(2)], true),
        ("nested.fwd.32768", vec![B::EntryValue(vec![B::Skip(2), filler(32764), B::Constu(32)]), B::Skip(2)], false),
        ("two.blocks.fwd.32767", vec![B::Bra(3), filler(16380), filler(16381), B::Pick(1)], true),
        ("two.blocks.fwd.32768", vec![B::Bra(3), filler(16380), filler(16382), B::Pick(1)], false),
    ];
    let nk = kinds.len() as u64;
    let thin = if ctx.dbg() && ctx.quick() { 4 } else { 1 };
    for i in 0..nk * 64 {
        if !ctx.want("edge", i) {
            continue;
        }
        if thin > 1 && (i / 64 + i % 64) % thin != ctx.seed % thin {
            continue;
        }
        let enc = Enc::nth(i % 64);
        let (_name, prog, ok) = &kinds[(i / 64) as usize];
        ctx.eval();
        ctx.counted_distinct += 1;
        let e = |parent: usize, tag: gimli::DwTag, attrs: Vec<AttrPlan>| EntryPlan { parent, tag: tag.0, sibling: false, attrs };
        let plan = Plan { le: enc.le, units: vec![UnitPlan { enc, entries: vec![e(0, dw::DW_TAG_compile_unit, vec![]), e(0, dw::DW_TAG_variable, vec![AttrPlan::Expr(prog.clone())])] }] };
        verify_plan(ctx, &plan, &Opts { tag: "edge", expect: if *ok { Expect::MustOk } else { Expect::MustErr }, eval: false, twin: false });
        if *ok && i % 2 == 0 {
            let cp = cfi_plan_for(prog, enc, false);
            verify_cfi(ctx, &cp, None, false, "edge");
        }
    }
    // location list expression length: u16 before version 5
    for i in 0..128u64 {
        if !ctx.want("edge.loclist", i) {
            continue;
        }
        if thin > 1 && i % thin != ctx.seed % thin {
            continue;
        }
        let enc = Enc::nth(i % 64);
        let big = i >= 64;
        // 1 + 3 + n bytes
        let prog = vec![filler(if big { 65532 } else { 65531 })];
        ctx.eval();
        ctx.counted_distinct += 1;
        let e = |parent: usize, tag: gimli::DwTag, attrs: Vec<AttrPlan>| EntryPlan { parent, tag: tag.0, sibling: false, attrs };
        let plan = Plan {
            le: enc.le,
            units: vec![UnitPlan { enc, entries: vec![e(0, dw::DW_TAG_compile_unit, vec![]), e(0, dw::DW_TAG_variable, vec![AttrPlan::LocList(vec![prog.clone(), vec![B::Reg(3)]])])] }],
        };
        let ok = !big || enc.version >= 5;
        verify_plan(ctx, &plan, &Opts { tag: "edge.loclist", expect: if ok { Expect::MustOk } else { Expect::MustErr }, eval: false, twin: false });
    }
}

pub fn run_all(ctx: &mut Ctx) {
    single(ctx);
    rand(ctx);
    eval(ctx);
    cfi(ctx);
    edge(ctx);
}

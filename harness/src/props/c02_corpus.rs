//! C02 corpus complement: small C programs are compiled at check time with gcc / clang
//! (DWARF 2-5, type units, DWARF64), and the forest gimli reports for every unit of the
//! linked executable is compared with `llvm-dwarfdump --debug-info --debug-types`:
//! unit header fields, and per entry the section offset, depth, tag name and attribute
//! names (nulls included).  The external tool is the oracle here.  Anything that goes
//! wrong with the tools themselves (compiler missing, link failure, unparsable dump) is
//! `inconclusive`, never a violation.

use crate::rt::Ctx;
use gimli::{EndianSlice, RunTimeEndian};
use object::{Object, ObjectSection};
use serde_json::json;
use std::process::Command;

const A_C: &str = r#"
struct point { int x, y; };
struct node { struct node *next; struct point p; union { int i; float f; } u; };
enum color { RED, GREEN };
typedef int (*fn_t)(struct node *, enum color);
extern int other(struct point *p);
static inline int helper(int a) { int r = 0; { int k = a * 2; r += k; { int m = k + 1; r += m; } } return r; }
int walk(struct node *n, enum color c) { int s = 0; for (; n; n = n->next) { int t = n->p.x + helper(n->p.y); if (c == RED) { int q = t * 2; s += q; } else s += t; } return s; }
int arr[10];
int main(int argc, char **argv) { struct node a = {0, {1,2}, {3}}; fn_t f = walk; return f(&a, argc > 1 ? RED : GREEN) + arr[argc] + other(&a.p); }
"#;

const B_C: &str = r#"
struct point { int x, y; };
struct box { struct point lo, hi; const char *name; long tags[4]; };
struct empty_user { struct { int a; struct { short b, c; } in; } nest; void (*cb)(void); };
static int area(const struct box *b) { int w = b->hi.x - b->lo.x; int h = b->hi.y - b->lo.y; { int a = w * h; if (a < 0) { int n = -a; return n; } return a; } }
int other(struct point *p) { struct box b = { *p, { p->x + 3, p->y + 4 }, "b", {0} }; struct empty_user e = {{1,{2,3}},0}; return area(&b) + e.nest.in.b; }
"#;

/// (compiler, flags)
fn configs(quick: bool) -> Vec<(&'static str, Vec<&'static str>)> {
    let mut v: Vec<(&'static str, Vec<&'static str>)> = vec![
        ("gcc", vec!["-gdwarf-4", "-O1", "-fdebug-types-section"]),
        ("gcc", vec!["-gdwarf-5", "-O2"]),
        ("clang", vec!["-gdwarf-2", "-O0"]),
    ];
    if !quick {
        for cc in ["gcc", "clang"] {
            for ver in ["-gdwarf-2", "-gdwarf-3", "-gdwarf-4", "-gdwarf-5"] {
                for opt in ["-O0", "-O2"] {
                    v.push((cc, vec![ver, opt]));
                }
            }
        }
        v.push(("clang", vec!["-gdwarf-4", "-O1", "-fdebug-types-section"]));
        v.push(("clang", vec!["-gdwarf-5", "-O1", "-fdebug-types-section"]));
        v.push(("gcc", vec!["-gdwarf-5", "-O1", "-fdebug-types-section"]));
        v.push(("gcc", vec!["-gdwarf-4", "-gdwarf64", "-O1"]));
        v.push(("gcc", vec!["-gdwarf-5", "-gdwarf64", "-O2"]));
    }
    v
}

#[derive(Debug, Clone, PartialEq, Eq)]
struct CDie {
    sec_off: u64,
    depth: i64,
    /// "NULL" for null entries
    tag: String,
    attrs: Vec<String>,
}

#[derive(Debug, Clone, PartialEq, Eq)]
struct CUnit {
    types_section: bool,
    offset: u64,
    length: u64,
    version: u64,
    fmt64: bool,
    abbr_offset: u64,
    addr_size: u64,
    type_signature: Option<u64>,
    type_offset: Option<u64>,
    dies: Vec<CDie>,
}

fn hex_after(line: &str, key: &str) -> Option<u64> {
    let i = line.find(key)? + key.len();
    let rest = &line[i..];
    let rest = rest.strip_prefix("0x")?;
    let end = rest.find(|c: char| !c.is_ascii_hexdigit()).unwrap_or(rest.len());
    u64::from_str_radix(&rest[..end], 16).ok()
}

/// Parse `llvm-dwarfdump --debug-info --debug-types` text.
fn parse_dump(text: &str) -> Result<Vec<CUnit>, String> {
    let mut units: Vec<CUnit> = vec![];
    let mut in_types = false;
    for line in text.lines() {
        if line.starts_with(".debug_info contents:") {
            in_types = false;
            continue;
        }
        if line.starts_with(".debug_types contents:") {
            in_types = true;
            continue;
        }
        if line.starts_with("0x") {
            let Some(colon) = line.find(':') else { continue };
            let off = u64::from_str_radix(&line[2..colon], 16).map_err(|e| format!("offset: {e}"))?;
            let rest = &line[colon + 1..];
            if rest.contains(" Unit: length = ") {
                units.push(CUnit {
                    types_section: in_types,
                    offset: off,
                    length: hex_after(rest, "length = ").ok_or("length")?,
                    version: hex_after(rest, "version = ").ok_or("version")?,
                    fmt64: rest.contains("format = DWARF64"),
                    abbr_offset: hex_after(rest, "abbr_offset = ").ok_or("abbr_offset")?,
                    addr_size: hex_after(rest, "addr_size = ").ok_or("addr_size")?,
                    type_signature: hex_after(rest, "type_signature = "),
                    type_offset: hex_after(rest, "type_offset = "),
                    dies: vec![],
                });
                continue;
            }
            let spaces = rest.len() - rest.trim_start_matches(' ').len();
            let word = rest.trim();
            let tag = word.split_whitespace().next().unwrap_or("");
            if !(tag.starts_with("DW_TAG_") || tag == "NULL") {
                return Err(format!("unrecognised entry line: {line}"));
            }
            let Some(u) = units.last_mut() else { return Err("entry before any unit".into()) };
            if spaces == 0 {
                return Err(format!("no indentation: {line}"));
            }
            u.dies.push(CDie { sec_off: off, depth: ((spaces - 1) / 2) as i64, tag: tag.to_string(), attrs: vec![] });
            continue;
        }
        let t = line.trim_start();
        if t.starts_with("DW_AT_") {
            let name = t.split(|c: char| c.is_whitespace()).next().unwrap_or("");
            if let Some(d) = units.last_mut().and_then(|u| u.dies.last_mut()) {
                d.attrs.push(name.to_string());
            }
        }
    }
    Ok(units)
}

type Rd<'a> = EndianSlice<'a, RunTimeEndian>;

fn gimli_units(info: &[u8], types: &[u8], abbrev: &[u8]) -> Result<Vec<CUnit>, String> {
    let e = RunTimeEndian::Little;
    let da = gimli::DebugAbbrev::new(abbrev, e);
    let mut out = vec![];
    let mut hs: Vec<(bool, gimli::UnitHeader<Rd<'_>>)> = vec![];
    let mut it = gimli::DebugInfo::new(info, e).units();
    while let Some(h) = it.next().map_err(|e| format!("{e:?}"))? {
        hs.push((false, h));
    }
    let mut it = gimli::DebugTypes::new(types, e).units();
    while let Some(h) = it.next().map_err(|e| format!("{e:?}"))? {
        hs.push((true, h));
    }
    for (in_types, h) in hs {
        let ab = h.abbreviations(&da).map_err(|e| format!("{e:?}"))?;
        let (sig, toff) = match h.type_() {
            gimli::UnitType::Type { type_signature, type_offset } | gimli::UnitType::SplitType { type_signature, type_offset } => {
                (Some(type_signature.0), Some(type_offset.0 as u64))
            }
            _ => (None, None),
        };
        let base = h.offset().0 as u64;
        let mut dies = vec![];
        let mut c = h.entries(&ab);
        while c.next_entry().map_err(|e| format!("{e:?}"))? {
            let off = c.offset().0 as u64;
            let depth = c.depth() as i64;
            match c.current() {
                None => dies.push(CDie { sec_off: base + off, depth, tag: "NULL".into(), attrs: vec![] }),
                Some(en) => dies.push(CDie {
                    sec_off: base + off,
                    depth,
                    tag: en.tag().static_string().map(|s| s.to_string()).unwrap_or_else(|| format!("DW_TAG_unknown_{:04x}", en.tag().0)),
                    attrs: en.attrs().iter().map(|a| a.name().static_string().map(|s| s.to_string()).unwrap_or_else(|| format!("DW_AT_unknown_{:04x}", a.name().0))).collect(),
                }),
            }
        }
        out.push(CUnit {
            types_section: in_types,
            offset: base,
            length: h.unit_length() as u64,
            version: h.version() as u64,
            fmt64: h.format() == gimli::Format::Dwarf64,
            abbr_offset: h.debug_abbrev_offset().0 as u64,
            addr_size: h.address_size() as u64,
            type_signature: sig,
            type_offset: toff,
            dies,
        });
    }
    Ok(out)
}

pub fn run(ctx: &mut Ctx) {
    if ctx.slow() {
        return;
    }
    let cfgs = configs(ctx.quick());
    for (i, (cc, flags)) in cfgs.iter().enumerate() {
        if !ctx.want("corpus", i as u64) {
            continue;
        }
        let dir = ctx.work.join(format!("c02corpus-{}-{}-{}-{}", ctx.profile.name(), ctx.seed, std::process::id(), i));
        let _ = std::fs::create_dir_all(&dir);
        let label = format!("{cc} {}", flags.join(" "));
        let res = (|| -> Result<(Vec<u8>, Vec<u8>, Vec<u8>, String), String> {
            std::fs::write(dir.join("a.c"), A_C).map_err(|e| e.to_string())?;
            std::fs::write(dir.join("b.c"), B_C).map_err(|e| e.to_string())?;
            let out = Command::new(cc).current_dir(&dir).arg("-g").args(flags.iter()).args(["a.c", "b.c", "-o", "prog"]).output().map_err(|e| format!("{cc}: {e}"))?;
            if !out.status.success() {
                return Err(format!("{label}: compile failed: {}", String::from_utf8_lossy(&out.stderr).chars().take(200).collect::<String>()));
            }
            let dump = Command::new("llvm-dwarfdump").current_dir(&dir).args(["--debug-info", "--debug-types", "prog"]).output().map_err(|e| format!("llvm-dwarfdump: {e}"))?;
            if !dump.status.success() {
                return Err("llvm-dwarfdump failed".into());
            }
            let data = std::fs::read(dir.join("prog")).map_err(|e| e.to_string())?;
            let file = object::File::parse(&*data).map_err(|e| e.to_string())?;
            let sec = |name: &str| -> Result<Vec<u8>, String> {
                match file.section_by_name(name) {
                    Some(s) => s.data().map(|d| d.to_vec()).map_err(|e| e.to_string()),
                    None => Ok(vec![]),
                }
            };
            Ok((sec(".debug_info")?, sec(".debug_types")?, sec(".debug_abbrev")?, String::from_utf8_lossy(&dump.stdout).to_string()))
        })();
        let _ = std::fs::remove_dir_all(&dir);
        let (info, types, abbrev, text) = match res {
            Ok(x) => x,
            Err(e) => {
                ctx.inconclusive(&format!("corpus: {e}"));
                continue;
            }
        };
        let expect = match parse_dump(&text) {
            Ok(u) if !u.is_empty() => u,
            Ok(_) => {
                ctx.inconclusive(&format!("corpus: {label}: llvm-dwarfdump printed no units"));
                continue;
            }
            Err(e) => {
                ctx.inconclusive(&format!("corpus: {label}: cannot parse llvm-dwarfdump output: {e}"));
                continue;
            }
        };
        ctx.eval();
        let input = || json!({"corpus": label, "debug_info_len": info.len(), "debug_types_len": types.len(), "debug_abbrev_len": abbrev.len()});
        let Some(got) = ctx.guard("corpus", &input, || gimli_units(&info, &types, &abbrev)) else { continue };
        let got = match got {
            Ok(g) => g,
            Err(e) => {
                ctx.fail("corpus.err", &format!("{label}: gimli rejected compiler output: {e}"), &input);
                continue;
            }
        };
        ctx.obs("corpus.object");
        ctx.obs_n("corpus.unit", expect.len() as u64);
        ctx.obs_n("corpus.entry", expect.iter().map(|u| u.dies.len() as u64).sum());
        if expect.iter().any(|u| u.types_section || u.type_signature.is_some()) {
            ctx.obs("corpus.type_unit");
        }
        if expect.len() != got.len() {
            ctx.check_eq("corpus.unit_count", &expect.len(), &got.len(), &input);
            continue;
        }
        for (e, g) in expect.iter().zip(got.iter()) {
            let mut eh = e.clone();
            let mut gh = g.clone();
            eh.dies.clear();
            gh.dies.clear();
            ctx.check_eq("corpus.unit_header", &eh, &gh, &input);
            if e.dies != g.dies {
                let k = e.dies.iter().zip(g.dies.iter()).position(|(a, b)| a != b).unwrap_or(e.dies.len().min(g.dies.len()));
                ctx.check_eq("corpus.entries", &(e.dies.len(), e.dies.get(k)), &(g.dies.len(), g.dies.get(k)), &input);
            }
        }
        let mut bytes = info.clone();
        bytes.extend_from_slice(&types);
        ctx.nontrivial_bytes("c02.corpus", &bytes);
        if i == 0 {
            ctx.sample("corpus", || json!({"config": label, "units": expect.len(), "entries": expect.iter().map(|u| u.dies.len()).sum::<usize>(), "first_unit": format!("{:?}", expect[0].dies.iter().take(4).collect::<Vec<_>>())}));
        }
    }
}

//! C09 — primitive codecs: LEB128, sized integers and lengths are exact.
//!
//! Oracle: u128/i128 mathematics written here (independent of gimli).  Every decode is
//! compared on (value, bytes consumed) when the model accepts, on the error class when the
//! model rejects.

use crate::asm::{get_uint, sleb_bytes, uleb_bytes, uleb_padded};
use crate::props::PropInfo;
use crate::rt::{hex, Ctx, Rng, EXTREMES};
use gimli::read::Reader;
use gimli::write::Writer;
use gimli::{BigEndian, EndianSlice, Endianity, Format, LittleEndian, RunTimeEndian};
use serde_json::json;

pub fn info() -> PropInfo {
    PropInfo {
        id: "C09",
        level: "exploration",
        rule: "exhaustive enumerations (every byte string of length <=3 through the u16, u64, i64, u32 and skip LEB readers; 0x80^k.b and 0xff^k.b for k=8..10 and every b; all 2^16 values for 16-bit write/read; every size argument 0..255 for sized reads and writes; all 2^16 initial-length words 0xffff0000..0xffffffff) plus seeded random/boundary 64/128-bit values for every fixed-width read/write under LittleEndian, BigEndian and RunTimeEndian. A case is non-trivial when at least one byte is decoded or produced; enumerated cases are distinct by construction (index <-> input bijection) and are counted as they are evaluated, random cases are de-duplicated by (codec, input) digest. The dbg profile enumerates length <=2 fully and a 1/64 slice of length 3.",
        assumptions: &[
            "over-long (padded) LEB128 encodings beyond the canonical maximum length may be rejected or accepted; only value and length are fixed when accepted",
            "usize is 64 bits on this host, so 64-bit offsets always fit Reader::Offset",
            "model arithmetic is u128/i128 written in the harness",
        ],
        exhaustive_subspaces: &[
            "read_uleb128_u16 over all byte strings of length <= 3 (rel)",
            "read_uleb128 / read_sleb128 / read_uleb128_u32 / skip_leb128 over all byte strings of length <= 3 (rel)",
            "0x80^k.b and 0xff^k.b, k in 8..=10, every b, 64-bit readers",
            "16-bit LEB write/read over all 2^16 values",
            "read_address / read_sized_offset / write_udata / write_sdata over every size 0..=255",
            "read_initial_length over 0xffff0000..=0xffffffff",
        ],
        must_observe: &[
            "uleb16.ok", "uleb16.err", "uleb64.ok", "uleb64.err.bad", "uleb64.err.eof", "sleb64.ok", "sleb64.err.bad", "uleb32.ok", "uleb32.err.bad",
            "skip.ok", "skip.err", "roundtrip.uleb", "roundtrip.sleb", "uint.n1", "uint.n8", "fixed.u128", "fixed.f64",
            "address.ok", "address.err", "sized_offset.ok", "sized_offset.err", "initial_length.32", "initial_length.64", "initial_length.reserved",
            "udata.ok", "udata.too_large", "udata.bad_size", "sdata.ok", "sdata.too_large", "word.32", "word.64",
        ],
        run,
    }
}

// ---------------------------------------------------------------- models

#[derive(Debug, PartialEq, Clone)]
pub enum Dec {
    /// value (as i128 so that both signednesses fit) and bytes consumed
    Ok(i128, usize),
    /// ran out of input before a terminator
    Eof,
    /// value does not fit / over-long
    Bad,
    /// over-long encoding whose acceptance is not fixed by the property: either error, or Ok
    /// with this value and length
    Either(i128, usize),
    /// any error is fine (input has no terminator and is also over-long)
    AnyErr,
}

/// Mathematical decode of an unsigned LEB128 prefix of `b`: (value, length) if terminated.
fn math_uleb(b: &[u8]) -> Option<(u128, usize, bool)> {
    // returns (value saturated to 2^127, len, overflowed_u128)
    let mut v: u128 = 0;
    let mut over = false;
    for (i, &x) in b.iter().enumerate() {
        let low = (x & 0x7f) as u128;
        if i * 7 >= 128 {
            if low != 0 {
                over = true;
            }
        } else {
            let sh = (i * 7) as u32;
            if sh + 7 > 128 && (low >> (128 - sh)) != 0 {
                over = true;
            }
            v |= low << sh;
        }
        if x & 0x80 == 0 {
            return Some((v, i + 1, over));
        }
    }
    None
}

/// Model of the 64-bit unsigned reader (also the base for u32).
pub fn model_uleb(b: &[u8], bits: u32) -> Dec {
    match math_uleb(b) {
        None => {
            if b.len() >= 10 {
                // no terminator within the canonical maximum: over-long, may be Bad (gimli
                // decides at the 10th byte) or Eof
                Dec::AnyErr
            } else {
                Dec::Eof
            }
        }
        Some((v, len, over)) => {
            let fits = !over && (bits >= 128 || v < (1u128 << bits));
            if len <= 10 {
                if fits {
                    Dec::Ok(v as i128, len)
                } else {
                    Dec::Bad
                }
            } else if fits {
                // over-long padded encoding of a fitting value
                Dec::Either(v as i128, len)
            } else {
                Dec::Bad
            }
        }
    }
}

/// Model of the u16 reader: canonical maximum is 3 bytes.
pub fn model_uleb16(b: &[u8]) -> Dec {
    match math_uleb(b) {
        None => {
            if b.len() >= 3 {
                Dec::AnyErr
            } else {
                Dec::Eof
            }
        }
        Some((v, len, over)) => {
            let fits = !over && v < 65536;
            if len <= 3 {
                if fits {
                    Dec::Ok(v as i128, len)
                } else {
                    Dec::Bad
                }
            } else if fits {
                Dec::Either(v as i128, len)
            } else {
                Dec::Bad
            }
        }
    }
}

pub fn model_sleb(b: &[u8]) -> Dec {
    // find terminator
    let Some(k) = b.iter().position(|x| x & 0x80 == 0) else {
        return if b.len() >= 10 { Dec::AnyErr } else { Dec::Eof };
    };
    let len = k + 1;
    // mathematical value: sign-extend from bit 7*len - 1.  Use i128 for len <= 18, beyond
    // that check the high groups for pure sign padding.
    let mut v: i128 = 0;
    let mut fits = true;
    let sign_neg = b[k] & 0x40 != 0;
    for i in 0..len {
        let low = (b[i] & 0x7f) as i128;
        if i * 7 + 7 <= 126 {
            v |= low << (i * 7);
        } else {
            // groups above bit 126 must be pure sign bits
            let want = if sign_neg { 0x7f } else { 0 };
            if low != want {
                fits = false;
            }
        }
    }
    let topbit = (len * 7).min(126);
    if sign_neg {
        v |= -1i128 << topbit;
    }
    let fits = fits && v >= i64::MIN as i128 && v <= i64::MAX as i128;
    if len <= 10 {
        if fits {
            Dec::Ok(v, len)
        } else {
            Dec::Bad
        }
    } else if fits {
        Dec::Either(v, len)
    } else {
        Dec::Bad
    }
}

pub fn model_skip(b: &[u8]) -> Option<usize> {
    b.iter().position(|x| x & 0x80 == 0).map(|k| k + 1)
}

#[derive(Debug, PartialEq, Clone)]
enum Got {
    Ok(i128, usize),
    Eof,
    Bad,
    Other(String),
}

fn classify<T: Into<i128>>(r: gimli::Result<T>, consumed: usize) -> Got {
    match r {
        Ok(v) => Got::Ok(v.into(), consumed),
        Err(gimli::Error::UnexpectedEof(_)) => Got::Eof,
        Err(gimli::Error::BadUnsignedLeb128) | Err(gimli::Error::BadSignedLeb128) => Got::Bad,
        Err(e) => Got::Other(format!("{e:?}")),
    }
}

fn agrees(model: &Dec, got: &Got) -> bool {
    match (model, got) {
        (Dec::Ok(v, n), Got::Ok(w, m)) => v == w && n == m,
        (Dec::Eof, Got::Eof) => true,
        (Dec::Bad, Got::Bad) => true,
        (Dec::Either(v, n), Got::Ok(w, m)) => v == w && n == m,
        (Dec::Either(..), Got::Bad) | (Dec::Either(..), Got::Eof) => true,
        (Dec::AnyErr, Got::Bad) | (Dec::AnyErr, Got::Eof) => true,
        _ => false,
    }
}

#[derive(Clone, Copy, PartialEq, Debug)]
enum Codec {
    U16,
    U64,
    U32,
    S64,
    Skip,
}

/// Decode `b` with gimli's reader for `codec`; return classified result.
fn gimli_decode(codec: Codec, b: &[u8], le: bool) -> Got {
    // endianness is irrelevant for LEB128 but is varied anyway
    let mut r = EndianSlice::new(b, if le { RunTimeEndian::Little } else { RunTimeEndian::Big });
    let before = r.len();
    match codec {
        Codec::U16 => {
            let x = r.read_uleb128_u16();
            classify(x.map(|v| v as i128), before - r.len())
        }
        Codec::U64 => {
            let x = r.read_uleb128();
            classify(x.map(|v| v as i128), before - r.len())
        }
        Codec::U32 => {
            let x = r.read_uleb128_u32();
            classify(x.map(|v| v as i128), before - r.len())
        }
        Codec::S64 => {
            let x = r.read_sleb128();
            classify(x.map(|v| v as i128), before - r.len())
        }
        Codec::Skip => {
            let x = r.skip_leb128();
            classify(x.map(|_| 0i128), before - r.len())
        }
    }
}

fn model_decode(codec: Codec, b: &[u8]) -> Dec {
    match codec {
        Codec::U16 => model_uleb16(b),
        Codec::U64 => model_uleb(b, 64),
        Codec::U32 => {
            // gimli: 64-bit decode, then the value must fit u32
            match model_uleb(b, 64) {
                Dec::Ok(v, n) => {
                    if v < (1i128 << 32) {
                        Dec::Ok(v, n)
                    } else {
                        Dec::Bad
                    }
                }
                Dec::Either(v, n) => {
                    if v < (1i128 << 32) {
                        Dec::Either(v, n)
                    } else {
                        Dec::Bad
                    }
                }
                d => d,
            }
        }
        Codec::S64 => model_sleb(b),
        Codec::Skip => match model_skip(b) {
            Some(n) => Dec::Ok(0, n),
            None => Dec::Eof,
        },
    }
}

fn check_decode(ctx: &mut Ctx, codec: Codec, b: &[u8], le: bool, tag: &str) {
    let model = model_decode(codec, b);
    let got = gimli_decode(codec, b, le);
    ctx.eval();
    let key = match (&got, codec) {
        (Got::Ok(..), Codec::U16) => "uleb16.ok",
        (_, Codec::U16) => "uleb16.err",
        (Got::Ok(..), Codec::U64) => "uleb64.ok",
        (Got::Bad, Codec::U64) => "uleb64.err.bad",
        (_, Codec::U64) => "uleb64.err.eof",
        (Got::Ok(..), Codec::U32) => "uleb32.ok",
        (Got::Bad, Codec::U32) => "uleb32.err.bad",
        (_, Codec::U32) => "uleb32.err.eof",
        (Got::Ok(..), Codec::S64) => "sleb64.ok",
        (Got::Bad, Codec::S64) => "sleb64.err.bad",
        (_, Codec::S64) => "sleb64.err.eof",
        (Got::Ok(..), Codec::Skip) => "skip.ok",
        (_, Codec::Skip) => "skip.err",
    };
    ctx.obs(key);
    if !agrees(&model, &got) {
        let b2 = b.to_vec();
        ctx.check_eq(
            &format!("{tag}.{codec:?}"),
            &format!("{model:?}"),
            &format!("{got:?}"),
            &|| json!({"codec": format!("{codec:?}"), "bytes": hex(&b2)}),
        );
    }
}

// ---------------------------------------------------------------- workloads

fn leb_exhaustive_short(ctx: &mut Ctx) {
    // every byte string of length <= 3; stream index = first byte (len>=1), shards split on it
    let dbg = ctx.dbg() || ctx.slow();
    for first in 0..256u64 {
        if !ctx.want("leb.short", first) {
            continue;
        }
        let mut n_cases = 0u64;
        let f = first as u8;
        let mut go = |ctx: &mut Ctx, b: &[u8]| {
            for codec in [Codec::U16, Codec::U64, Codec::U32, Codec::S64, Codec::Skip] {
                check_decode(ctx, codec, b, true, "leb.short");
            }
        };
        let mut local = vec![];
        local.push(vec![f]);
        for s in 0..256u32 {
            local.push(vec![f, s as u8]);
        }
        for b in &local {
            n_cases += 1;
            guarded(ctx, "leb.short", b, &mut go);
        }
        // length 3: all (rel) or a 1/64 slice chosen by seed (dbg)
        let slice = ctx.seed % 64;
        for s in 0..256u32 {
            for t in 0..256u32 {
                if dbg && ((s * 256 + t) as u64 % 64 != slice) {
                    continue;
                }
                let b = [f, s as u8, t as u8];
                n_cases += 1;
                guarded(ctx, "leb.short", &b, &mut go);
            }
        }
        ctx.counted_distinct += n_cases;
        if first == 0x80 {
            ctx.sample("leb.short", || json!({"bytes": "80 80 03", "read_uleb128_u16": format!("{:?}", gimli_decode(Codec::U16, &[0x80,0x80,0x03], true)), "model": format!("{:?}", model_uleb16(&[0x80,0x80,0x03]))}));
        }
    }
    // the empty string
    if ctx.want("leb.empty", 0) {
        let mut go = |ctx: &mut Ctx, b: &[u8]| {
            for codec in [Codec::U16, Codec::U64, Codec::U32, Codec::S64, Codec::Skip] {
                check_decode(ctx, codec, b, false, "leb.empty");
            }
        };
        guarded(ctx, "leb.empty", &[], &mut go);
    }
}

fn guarded(ctx: &mut Ctx, entry: &str, b: &[u8], go: &mut dyn FnMut(&mut Ctx, &[u8])) {
    // panic capture around the gimli calls of one input
    let r = crate::rt::capture(|| go(ctx, b));
    if let Err(p) = r {
        let b2 = b.to_vec();
        ctx.report_panic(entry, &p, &|| json!({"bytes": hex(&b2)}));
    }
}

fn leb_long_boundary(ctx: &mut Ctx) {
    // 0x80^k.b and 0xff^k.b (and 0x81.., 0xfe..) for k = 8, 9, 10 and every b, optionally
    // followed by a terminator so that "continuation at the 10th byte" is also covered.
    let mut idx = 0u64;
    for fill in [0x80u8, 0xff, 0x81, 0xfe, 0xc0, 0xbf] {
        for k in [7usize, 8, 9, 10, 11] {
            for b in 0..256u32 {
                for tail in [None, Some(0x00u8), Some(0x7f)] {
                    idx += 1;
                    if !ctx.want("leb.long", idx) {
                        continue;
                    }
                    let mut s = vec![fill; k];
                    s.push(b as u8);
                    if let Some(t) = tail {
                        s.push(t);
                    }
                    let mut go = |ctx: &mut Ctx, b: &[u8]| {
                        for codec in [Codec::U64, Codec::U32, Codec::S64, Codec::Skip, Codec::U16] {
                            check_decode(ctx, codec, b, idx % 2 == 0, "leb.long");
                        }
                    };
                    guarded(ctx, "leb.long", &s, &mut go);
                    ctx.counted_distinct += 1;
                    if fill == 0x80 && k == 9 && b == 1 && tail.is_none() {
                        let s2 = s.clone();
                        ctx.sample("leb.long", || json!({"bytes": hex(&s2), "read_uleb128": format!("{:?}", gimli_decode(Codec::U64, &s2, true)), "model": format!("{:?}", model_uleb(&s2, 64))}));
                    }
                }
            }
        }
    }
}

fn leb_random(ctx: &mut Ctx) {
    let n = ctx.size(400_000, 4_000_000, 20);
    for i in 0..n {
        if !ctx.want("leb.random", i) {
            continue;
        }
        let mut r = ctx.rng("leb.random", i);
        let mut s: Vec<u8> = match r.below(6) {
            0 => uleb_bytes(r.boundary()),
            1 => sleb_bytes(r.boundary() as i64),
            2 => {
                let v = r.boundary();
                let n = uleb_bytes(v).len() + r.usize(4);
                uleb_padded(v, n.min(12))
            }
            3 => {
                let n = 1 + r.usize(12);
                let mut b: Vec<u8> = (0..n).map(|_| r.next() as u8 | 0x80).collect();
                let l = b.len() - 1;
                b[l] &= 0x7f;
                b
            }
            4 => {
                let n = r.usize(14);
                r.bytes(n)
            }
            _ => {
                // truncated canonical encoding
                let mut b = uleb_bytes(r.boundary());
                let cut = r.usize(b.len() + 1);
                b.truncate(cut);
                b
            }
        };
        if r.chance(1, 3) {
            let extra = r.usize(3);
            s.extend(r.bytes(extra));
        }
        let le = r.bool();
        let mut go = |ctx: &mut Ctx, b: &[u8]| {
            for codec in [Codec::U64, Codec::U32, Codec::S64, Codec::Skip, Codec::U16] {
                check_decode(ctx, codec, b, le, "leb.random");
            }
        };
        guarded(ctx, "leb.random", &s, &mut go);
        if !s.is_empty() {
            ctx.nontrivial_bytes("leb.random", &s);
        }
    }
}

fn vec_writer(le: bool) -> gimli::write::EndianVec<RunTimeEndian> {
    gimli::write::EndianVec::new(if le { RunTimeEndian::Little } else { RunTimeEndian::Big })
}

fn roundtrip_one_u(ctx: &mut Ctx, v: u64, le: bool, tag: &str) {
    ctx.eval();
    ctx.obs("roundtrip.uleb");
    let expect = uleb_bytes(v);
    let leb = gimli::leb128::write::Leb128::unsigned(v);
    let mut w = vec_writer(le);
    let wr = w.write_uleb128(v);
    let mut io = Vec::new();
    let n_io = gimli::leb128::write::unsigned(&mut io, v);
    let size = gimli::leb128::write::uleb128_size(v);
    let inp = || json!({"value": v, "expected_bytes": hex(&uleb_bytes(v))});
    ctx.check_eq(&format!("{tag}.Leb128::unsigned.bytes"), &expect, &leb.bytes().to_vec(), &inp);
    ctx.check_eq(&format!("{tag}.Leb128::len"), &expect.len(), &leb.len(), &inp);
    ctx.check_eq(&format!("{tag}.uleb128_size"), &expect.len(), &size, &inp);
    ctx.check_eq(&format!("{tag}.write_uleb128.ok"), &true, &wr.is_ok(), &inp);
    ctx.check_eq(&format!("{tag}.write_uleb128.bytes"), &expect, &w.slice().to_vec(), &inp);
    ctx.check_eq(&format!("{tag}.leb128::write::unsigned.bytes"), &expect, &io, &inp);
    ctx.check_eq(&format!("{tag}.leb128::write::unsigned.len"), &Some(expect.len()), &n_io.ok(), &inp);
    // read back what gimli wrote
    let out = w.slice().to_vec();
    let mut r = EndianSlice::new(&out, LittleEndian);
    let back = r.read_uleb128();
    ctx.check_eq(&format!("{tag}.uleb.readback"), &Some(v), &back.ok(), &inp);
    ctx.check_eq(&format!("{tag}.uleb.readback.consumed"), &0usize, &r.len(), &inp);
    if v < 65536 {
        let mut r = EndianSlice::new(&out, BigEndian);
        let back = r.read_uleb128_u16();
        ctx.check_eq(&format!("{tag}.uleb16.readback"), &Some(v as u16), &back.ok(), &inp);
        ctx.check_eq(&format!("{tag}.uleb16.readback.consumed"), &0usize, &r.len(), &inp);
    }
}

fn roundtrip_one_s(ctx: &mut Ctx, v: i64, le: bool, tag: &str) {
    ctx.eval();
    ctx.obs("roundtrip.sleb");
    let expect = sleb_bytes(v);
    let leb = gimli::leb128::write::Leb128::signed(v);
    let mut w = vec_writer(le);
    let wr = w.write_sleb128(v);
    let mut io = Vec::new();
    let n_io = gimli::leb128::write::signed(&mut io, v);
    let size = gimli::leb128::write::sleb128_size(v);
    let inp = || json!({"value": v, "expected_bytes": hex(&sleb_bytes(v))});
    ctx.check_eq(&format!("{tag}.Leb128::signed.bytes"), &expect, &leb.bytes().to_vec(), &inp);
    ctx.check_eq(&format!("{tag}.Leb128::len.s"), &expect.len(), &leb.len(), &inp);
    ctx.check_eq(&format!("{tag}.sleb128_size"), &expect.len(), &size, &inp);
    ctx.check_eq(&format!("{tag}.write_sleb128.ok"), &true, &wr.is_ok(), &inp);
    ctx.check_eq(&format!("{tag}.write_sleb128.bytes"), &expect, &w.slice().to_vec(), &inp);
    ctx.check_eq(&format!("{tag}.leb128::write::signed.bytes"), &expect, &io, &inp);
    ctx.check_eq(&format!("{tag}.leb128::write::signed.len"), &Some(expect.len()), &n_io.ok(), &inp);
    let out = w.slice().to_vec();
    let mut r = EndianSlice::new(&out, LittleEndian);
    let back = r.read_sleb128();
    ctx.check_eq(&format!("{tag}.sleb.readback"), &Some(v), &back.ok(), &inp);
    ctx.check_eq(&format!("{tag}.sleb.readback.consumed"), &0usize, &r.len(), &inp);
}

fn leb_roundtrip(ctx: &mut Ctx) {
    // all 2^16 values (unsigned) and all i16 values (signed), in blocks of 256
    for blk in 0..256u64 {
        if !ctx.want("rt16", blk) {
            continue;
        }
        let r = crate::rt::capture(|| {
            for lo in 0..256u64 {
                let v = blk * 256 + lo;
                roundtrip_one_u(ctx, v, lo % 2 == 0, "rt16");
                roundtrip_one_s(ctx, v as u16 as i16 as i64, lo % 2 == 1, "rt16");
            }
        });
        if let Err(p) = r {
            ctx.report_panic("rt16", &p, &|| json!({"block": blk}));
        }
        ctx.counted_distinct += 512;
    }
    // boundary and random 64-bit values
    let mut vals: Vec<u64> = vec![];
    for e in EXTREMES {
        vals.extend_from_slice(&[*e, e.wrapping_add(1), e.wrapping_sub(1), !*e]);
    }
    for k in 0..64 {
        vals.extend_from_slice(&[1u64 << k, (1u64 << k) - 1, (1u64 << k).wrapping_neg(), ((1u64 << k) - 1).wrapping_neg()]);
    }
    let nb = vals.len() as u64;
    let n = ctx.size(200_000, 2_000_000, 10);
    for i in 0..(nb + n) {
        if !ctx.want("rt64", i) {
            continue;
        }
        let v = if i < nb { vals[i as usize] } else { ctx.rng("rt64", i).boundary() };
        let r = crate::rt::capture(|| {
            roundtrip_one_u(ctx, v, i % 2 == 0, "rt64");
            roundtrip_one_s(ctx, v as i64, i % 2 == 1, "rt64");
        });
        if let Err(p) = r {
            ctx.report_panic("rt64", &p, &|| json!({"value": v}));
        }
        ctx.nontrivial(crate::rt::mix64(v ^ 0x5157));
        if i == 3 {
            ctx.sample("roundtrip", || json!({"value": v, "uleb": hex(&uleb_bytes(v)), "sleb": hex(&sleb_bytes(v as i64)), "gimli_uleb": hex(gimli::leb128::write::Leb128::unsigned(v).bytes())}));
        }
    }
}

/// Fixed-width reads against byte-order maths, for one endianity type.
fn fixed_reads<E: Endianity>(ctx: &mut Ctx, e: E, le: bool, bytes: &[u8], tag: &str) {
    let inp = || json!({"bytes": hex(bytes), "le": le, "endian_type": tag});
    let mk = || EndianSlice::new(bytes, e);
    // read_uint(n)
    for n in 1..=8usize {
        ctx.eval();
        let mut r = mk();
        let got = r.read_uint(n);
        if bytes.len() >= n {
            ctx.obs(if n == 1 { "uint.n1" } else if n == 8 { "uint.n8" } else { "uint.mid" });
            ctx.check_eq(&format!("read_uint({n}).{tag}"), &Some(get_uint(bytes, le, n)), &got.ok(), &inp);
            ctx.check_eq(&format!("read_uint({n}).consumed.{tag}"), &(bytes.len() - n), &r.len(), &inp);
        } else {
            ctx.check_eq(&format!("read_uint({n}).eof.{tag}"), &true, &matches!(got, Err(gimli::Error::UnexpectedEof(_))), &inp);
        }
    }
    macro_rules! fixed {
        ($name:literal, $m:ident, $n:expr, $conv:expr) => {{
            ctx.eval();
            let mut r = mk();
            let got = r.$m();
            if bytes.len() >= $n {
                let raw: u128 = if $n == 16 {
                    let hi = get_uint(if le { &bytes[8..] } else { bytes }, le, 8) as u128;
                    let lo = get_uint(if le { bytes } else { &bytes[8..] }, le, 8) as u128;
                    (hi << 64) | lo
                } else {
                    get_uint(bytes, le, $n) as u128
                };
                let want = $conv(raw);
                ctx.check_eq(&format!("{}.{}", $name, tag), &Some(want), &got.ok().map(|x| format!("{:?}", x)), &inp);
                ctx.check_eq(&format!("{}.consumed.{}", $name, tag), &(bytes.len() - $n), &r.len(), &inp);
            } else {
                ctx.check_eq(&format!("{}.eof.{}", $name, tag), &true, &matches!(got, Err(gimli::Error::UnexpectedEof(_))), &inp);
                // a failed read must not consume
                ctx.check_eq(&format!("{}.eof.len.{}", $name, tag), &bytes.len(), &r.len(), &inp);
            }
        }};
    }
    fixed!("read_u8", read_u8, 1, |x: u128| format!("{:?}", x as u8));
    fixed!("read_i8", read_i8, 1, |x: u128| format!("{:?}", x as u8 as i8));
    fixed!("read_u16", read_u16, 2, |x: u128| format!("{:?}", x as u16));
    fixed!("read_i16", read_i16, 2, |x: u128| format!("{:?}", x as u16 as i16));
    fixed!("read_u32", read_u32, 4, |x: u128| format!("{:?}", x as u32));
    fixed!("read_i32", read_i32, 4, |x: u128| format!("{:?}", x as u32 as i32));
    fixed!("read_u64", read_u64, 8, |x: u128| format!("{:?}", x as u64));
    fixed!("read_i64", read_i64, 8, |x: u128| format!("{:?}", x as u64 as i64));
    fixed!("read_u128", read_u128, 16, |x: u128| format!("{:?}", x));
    fixed!("read_f32", read_f32, 4, |x: u128| format!("{:?}", f32::from_bits(x as u32)));
    fixed!("read_f64", read_f64, 8, |x: u128| format!("{:?}", f64::from_bits(x as u64)));
    if bytes.len() >= 16 {
        ctx.obs("fixed.u128");
        ctx.obs("fixed.f64");
    }
    // Endianity trait methods directly
    if bytes.len() >= 16 {
        ctx.eval();
        ctx.check_eq(&format!("Endianity::read_u16.{tag}"), &(get_uint(bytes, le, 2) as u16), &e.read_u16(&bytes[..2]), &inp);
        ctx.check_eq(&format!("Endianity::read_u32.{tag}"), &(get_uint(bytes, le, 4) as u32), &e.read_u32(&bytes[..4]), &inp);
        ctx.check_eq(&format!("Endianity::read_u64.{tag}"), &get_uint(bytes, le, 8), &e.read_u64(&bytes[..8]), &inp);
        ctx.check_eq(&format!("Endianity::read_i16.{tag}"), &(get_uint(bytes, le, 2) as u16 as i16), &e.read_i16(&bytes[..2]), &inp);
        ctx.check_eq(&format!("Endianity::read_i32.{tag}"), &(get_uint(bytes, le, 4) as u32 as i32), &e.read_i32(&bytes[..4]), &inp);
        ctx.check_eq(&format!("Endianity::read_i64.{tag}"), &(get_uint(bytes, le, 8) as i64), &e.read_i64(&bytes[..8]), &inp);
        for n in 1..=8usize {
            let mut e2 = e;
            ctx.check_eq(&format!("Endianity::read_uint({n}).{tag}"), &get_uint(bytes, le, n), &e2.read_uint(&bytes[..n]), &inp);
        }
        ctx.check_eq(&format!("Endianity::is_little_endian.{tag}"), &le, &e.is_little_endian(), &inp);
        ctx.check_eq(&format!("Endianity::is_big_endian.{tag}"), &!le, &e.is_big_endian(), &inp);
        // write then compare with byte-order maths
        let v16 = get_uint(bytes, le, 2) as u16;
        let v32 = get_uint(bytes, le, 4) as u32;
        let v64 = get_uint(bytes, le, 8);
        let mut b = [0u8; 16];
        e.write_u16(&mut b[..2], v16);
        ctx.check_eq(&format!("Endianity::write_u16.{tag}"), &bytes[..2].to_vec(), &b[..2].to_vec(), &inp);
        e.write_u32(&mut b[..4], v32);
        ctx.check_eq(&format!("Endianity::write_u32.{tag}"), &bytes[..4].to_vec(), &b[..4].to_vec(), &inp);
        e.write_u64(&mut b[..8], v64);
        ctx.check_eq(&format!("Endianity::write_u64.{tag}"), &bytes[..8].to_vec(), &b[..8].to_vec(), &inp);
        let v128 = e.read_u128(&bytes[..16]);
        e.write_u128(&mut b[..16], v128);
        ctx.check_eq(&format!("Endianity::write_u128.{tag}"), &bytes[..16].to_vec(), &b[..16].to_vec(), &inp);
    }
}

/// Fixed-width writes through `Writer`, compared with the assembler and read back.
fn fixed_writes(ctx: &mut Ctx, le: bool, r: &mut Rng) {
    let v128: u128 = ((r.boundary() as u128) << 64) | r.boundary() as u128;
    let v64 = r.boundary();
    let inp = || json!({"le": le, "v64": v64, "v128": v128.to_string()});
    ctx.eval();
    let mut w = vec_writer(le);
    let mut a = crate::asm::Asm::new(le);
    let _ = w.write_u8(v64 as u8);
    a.u8(v64 as u8);
    let _ = w.write_u16(v64 as u16);
    a.u16(v64 as u16);
    let _ = w.write_u32(v64 as u32);
    a.u32(v64 as u32);
    let _ = w.write_u64(v64);
    a.u64(v64);
    let _ = w.write_u128(v128);
    a.u128(v128);
    ctx.check_eq("Writer::write_uN.bytes", &a.buf, &w.slice().to_vec(), &inp);
    // *_at variants overwrite in place
    let mut w2 = vec_writer(le);
    let _ = w2.write(&vec![0xaa; a.buf.len()]);
    let _ = w2.write_u8_at(0, v64 as u8);
    let _ = w2.write_u16_at(1, v64 as u16);
    let _ = w2.write_u32_at(3, v64 as u32);
    let _ = w2.write_u64_at(7, v64);
    let _ = w2.write_u128_at(15, v128);
    ctx.check_eq("Writer::write_uN_at.bytes", &a.buf, &w2.slice().to_vec(), &inp);
    ctx.check_eq("Writer::len", &a.buf.len(), &w2.len(), &inp);
    // out-of-range *_at must fail, not grow or panic
    let bad = w2.write_u32_at(a.buf.len() - 3, 1);
    ctx.check_eq("Writer::write_u32_at.out_of_range", &true, &bad.is_err(), &inp);
    // read back
    let out = w.slice().to_vec();
    let mut rd = EndianSlice::new(&out, if le { RunTimeEndian::Little } else { RunTimeEndian::Big });
    ctx.check_eq("rt.u8", &Some(v64 as u8), &rd.read_u8().ok(), &inp);
    ctx.check_eq("rt.u16", &Some(v64 as u16), &rd.read_u16().ok(), &inp);
    ctx.check_eq("rt.u32", &Some(v64 as u32), &rd.read_u32().ok(), &inp);
    ctx.check_eq("rt.u64", &Some(v64), &rd.read_u64().ok(), &inp);
    ctx.check_eq("rt.u128", &Some(v128), &rd.read_u128().ok(), &inp);
}

fn fixed_width(ctx: &mut Ctx) {
    let n = ctx.size(60_000, 600_000, 10);
    for i in 0..n {
        if !ctx.want("fixed", i) {
            continue;
        }
        let mut r = ctx.rng("fixed", i);
        let len = match r.below(8) {
            0 => r.usize(16),
            _ => 16 + r.usize(4),
        };
        let mut bytes = r.bytes(len);
        if r.chance(1, 3) {
            // boundary patterns
            let v = r.boundary().to_le_bytes();
            for (k, b) in bytes.iter_mut().enumerate() {
                *b = v[k % 8];
            }
        }
        let res = crate::rt::capture(|| {
            fixed_reads(ctx, LittleEndian, true, &bytes, "LittleEndian");
            fixed_reads(ctx, BigEndian, false, &bytes, "BigEndian");
            fixed_reads(ctx, RunTimeEndian::Little, true, &bytes, "RunTime(Little)");
            fixed_reads(ctx, RunTimeEndian::Big, false, &bytes, "RunTime(Big)");
            let le = r.bool();
            fixed_writes(ctx, le, &mut r);
        });
        if let Err(p) = res {
            let b2 = bytes.clone();
            ctx.report_panic("fixed", &p, &|| json!({"bytes": hex(&b2)}));
        }
        if !bytes.is_empty() {
            ctx.nontrivial_bytes("fixed", &bytes);
        }
        if i == 1 {
            let b2 = bytes.clone();
            ctx.sample("fixed", || json!({"bytes": hex(&b2), "read_u32_le": format!("{:?}", EndianSlice::new(&b2, LittleEndian).read_u32()), "read_u32_be": format!("{:?}", EndianSlice::new(&b2, BigEndian).read_u32())}));
        }
    }
}

fn sized(ctx: &mut Ctx) {
    // every size argument 0..=255 x both byte orders x a few buffers
    for size in 0..256u64 {
        if !ctx.want("sized", size) {
            continue;
        }
        let sz = size as u8;
        let mut r = ctx.rng("sized", size);
        let res = crate::rt::capture(|| {
            for rep in 0..24 {
                let le = rep % 2 == 0;
                let len = if rep < 20 { 8 + r.usize(4) } else { r.usize(8) };
                let mut bytes = r.bytes(len);
                if rep % 5 == 0 {
                    for b in bytes.iter_mut() {
                        *b = 0xff;
                    }
                }
                let endian = if le { RunTimeEndian::Little } else { RunTimeEndian::Big };
                let inp = || json!({"size": sz, "le": le, "bytes": hex(&bytes)});
                let valid = matches!(sz, 1 | 2 | 4 | 8);
                // read_address
                ctx.eval();
                let mut rd = EndianSlice::new(&bytes, endian);
                let got = rd.read_address(sz);
                if valid && bytes.len() >= sz as usize {
                    ctx.obs("address.ok");
                    ctx.check_eq("read_address.value", &Some(get_uint(&bytes, le, sz as usize)), &got.ok(), &inp);
                    ctx.check_eq("read_address.consumed", &(bytes.len() - sz as usize), &rd.len(), &inp);
                } else if valid {
                    ctx.check_eq("read_address.eof", &true, &matches!(got, Err(gimli::Error::UnexpectedEof(_))), &inp);
                } else {
                    ctx.obs("address.err");
                    ctx.check_eq("read_address.bad_size", &true, &matches!(got, Err(gimli::Error::UnsupportedAddressSize(s)) if s == sz), &inp);
                }
                // read_sized_offset
                ctx.eval();
                let mut rd = EndianSlice::new(&bytes, endian);
                let got = rd.read_sized_offset(sz);
                if valid && bytes.len() >= sz as usize {
                    ctx.obs("sized_offset.ok");
                    ctx.check_eq("read_sized_offset.value", &Some(get_uint(&bytes, le, sz as usize) as usize), &got.ok(), &inp);
                    ctx.check_eq("read_sized_offset.consumed", &(bytes.len() - sz as usize), &rd.len(), &inp);
                } else if valid {
                    ctx.check_eq("read_sized_offset.eof", &true, &matches!(got, Err(gimli::Error::UnexpectedEof(_))), &inp);
                } else {
                    ctx.obs("sized_offset.err");
                    ctx.check_eq("read_sized_offset.bad_size", &true, &matches!(got, Err(gimli::Error::UnsupportedOffsetSize(s)) if s == sz), &inp);
                }
                // read_address_size: the byte itself
                ctx.eval();
                let one = [sz];
                let mut rd = EndianSlice::new(&one[..], endian);
                let got = rd.read_address_size();
                if valid {
                    ctx.check_eq("read_address_size.ok", &Some(sz), &got.ok(), &inp);
                } else {
                    ctx.check_eq("read_address_size.err", &true, &matches!(got, Err(gimli::Error::UnsupportedAddressSize(s)) if s == sz), &inp);
                }
                // write_udata / write_sdata / write_udata_at / write_address / write_offset
                let v = r.boundary();
                let inp = || json!({"size": sz, "le": le, "value": v});
                let bits = sz as u32 * 8;
                for (name, which) in [("write_udata", 0), ("write_address", 1), ("write_offset", 2), ("write_udata_at", 3), ("write_offset_at", 4)] {
                    ctx.eval();
                    let mut w = vec_writer(le);
                    let res = match which {
                        0 => w.write_udata(v, sz),
                        1 => w.write_address(gimli::write::Address::Constant(v), sz),
                        2 => w.write_offset(v as usize, gimli::SectionId::DebugInfo, sz),
                        3 => {
                            let _ = w.write(&[0u8; 8]);
                            w.write_udata_at(0, v, sz)
                        }
                        _ => {
                            let _ = w.write(&[0u8; 8]);
                            w.write_offset_at(0, v as usize, gimli::SectionId::DebugStr, sz)
                        }
                    };
                    if !valid {
                        ctx.obs("udata.bad_size");
                        ctx.check_eq(&format!("{name}.bad_size"), &true, &matches!(res, Err(gimli::write::Error::UnsupportedWordSize(s)) if s == sz), &inp);
                    } else if bits < 64 && v >> bits != 0 {
                        ctx.obs("udata.too_large");
                        ctx.check_eq(&format!("{name}.too_large"), &true, &matches!(res, Err(gimli::write::Error::ValueTooLarge)), &inp);
                    } else {
                        ctx.obs("udata.ok");
                        let mut a = crate::asm::Asm::new(le);
                        a.uint(sz as usize, v);
                        ctx.check_eq(&format!("{name}.ok"), &true, &res.is_ok(), &inp);
                        ctx.check_eq(&format!("{name}.bytes"), &a.buf, &w.slice()[..sz as usize].to_vec(), &inp);
                        // read back
                        let out = w.slice().to_vec();
                        let mut rd = EndianSlice::new(&out, endian);
                        ctx.check_eq(&format!("{name}.readback"), &Some(v), &rd.read_address(sz).ok(), &inp);
                    }
                }
                let sv = v as i64;
                ctx.eval();
                let mut w = vec_writer(le);
                let res = w.write_sdata(sv, sz);
                if !valid {
                    ctx.check_eq("write_sdata.bad_size", &true, &matches!(res, Err(gimli::write::Error::UnsupportedWordSize(s)) if s == sz), &inp);
                } else {
                    let fits = bits >= 64 || (sv >= -(1i64 << (bits - 1)) && sv < (1i64 << (bits - 1)));
                    if fits {
                        ctx.obs("sdata.ok");
                        let mut a = crate::asm::Asm::new(le);
                        a.uint(sz as usize, sv as u64);
                        ctx.check_eq("write_sdata.ok", &true, &res.is_ok(), &inp);
                        ctx.check_eq("write_sdata.bytes", &a.buf, &w.slice().to_vec(), &inp);
                    } else {
                        ctx.obs("sdata.too_large");
                        ctx.check_eq("write_sdata.too_large", &true, &matches!(res, Err(gimli::write::Error::ValueTooLarge)), &inp);
                    }
                }
            }
        });
        if let Err(p) = res {
            ctx.report_panic("sized", &p, &|| json!({"size": size}));
        }
        ctx.counted_distinct += 1;
    }
}

fn words_and_lengths(ctx: &mut Ctx) {
    // read_initial_length: all 2^16 u32 values 0xffff0000..=0xffffffff, in blocks of 256
    for blk in 0..256u64 {
        if !ctx.want("initlen", blk) {
            continue;
        }
        let mut r = ctx.rng("initlen", blk);
        let res = crate::rt::capture(|| {
            for lo in 0..256u64 {
                let v = (0xffff_0000u64 + blk * 256 + lo) as u32;
                for le in [true, false] {
                    let tail = r.boundary();
                    let mut a = crate::asm::Asm::new(le);
                    a.u32(v);
                    a.u64(tail);
                    let endian = if le { RunTimeEndian::Little } else { RunTimeEndian::Big };
                    let inp = || json!({"word": format!("{v:#x}"), "le": le, "next8": format!("{tail:#x}")});
                    ctx.eval();
                    let mut rd = EndianSlice::new(&a.buf, endian);
                    let got = rd.read_initial_length();
                    if v < 0xffff_fff0 {
                        ctx.obs("initial_length.32");
                        ctx.check_eq("read_initial_length.32", &Some((v as usize, Format::Dwarf32)), &got.ok(), &inp);
                        ctx.check_eq("read_initial_length.32.consumed", &8usize, &rd.len(), &inp);
                    } else if v == 0xffff_ffff {
                        ctx.obs("initial_length.64");
                        ctx.check_eq("read_initial_length.64", &Some((tail as usize, Format::Dwarf64)), &got.ok(), &inp);
                        ctx.check_eq("read_initial_length.64.consumed", &0usize, &rd.len(), &inp);
                        // truncated 64-bit length
                        for cut in 4..12usize {
                            let mut rd = EndianSlice::new(&a.buf[..cut], endian);
                            let got = rd.read_initial_length();
                            ctx.check_eq("read_initial_length.64.truncated", &true, &matches!(got, Err(gimli::Error::UnexpectedEof(_))), &inp);
                        }
                    } else {
                        ctx.obs("initial_length.reserved");
                        ctx.check_eq("read_initial_length.reserved", &true, &matches!(got, Err(gimli::Error::UnknownReservedLength(x)) if x == v), &inp);
                    }
                }
            }
        });
        if let Err(p) = res {
            ctx.report_panic("initlen", &p, &|| json!({"block": blk}));
        }
        ctx.counted_distinct += 256;
    }
    // small/boundary 32-bit lengths and words in both formats
    let n = ctx.size(40_000, 400_000, 10);
    for i in 0..n {
        if !ctx.want("word", i) {
            continue;
        }
        let mut r = ctx.rng("word", i);
        let le = r.bool();
        let endian = if le { RunTimeEndian::Little } else { RunTimeEndian::Big };
        let v = r.boundary();
        let mut a = crate::asm::Asm::new(le);
        a.u64(v);
        a.u32(v as u32);
        let bytes = a.buf.clone();
        let res = crate::rt::capture(|| {
            let inp = || json!({"le": le, "bytes": hex(&bytes)});
            for (name, which) in [("read_word", 0), ("read_offset", 1), ("read_length", 2)] {
                for fmt in [Format::Dwarf32, Format::Dwarf64] {
                    ctx.eval();
                    let mut rd = EndianSlice::new(&bytes, endian);
                    let got = match which {
                        0 => rd.read_word(fmt),
                        1 => rd.read_offset(fmt),
                        _ => rd.read_length(fmt),
                    };
                    let n = if fmt == Format::Dwarf64 { 8 } else { 4 };
                    ctx.obs(if n == 8 { "word.64" } else { "word.32" });
                    ctx.check_eq(&format!("{name}.{n}"), &Some(get_uint(&bytes, le, n) as usize), &got.ok(), &inp);
                    ctx.check_eq(&format!("{name}.{n}.consumed"), &(bytes.len() - n), &rd.len(), &inp);
                    // truncated
                    let mut rd = EndianSlice::new(&bytes[..n - 1], endian);
                    let got = match which {
                        0 => rd.read_word(fmt),
                        1 => rd.read_offset(fmt),
                        _ => rd.read_length(fmt),
                    };
                    ctx.check_eq(&format!("{name}.{n}.eof"), &true, &matches!(got, Err(gimli::Error::UnexpectedEof(_))), &inp);
                }
            }
            // 32-bit initial length from the low word, via a fresh buffer
            let mut a2 = crate::asm::Asm::new(le);
            a2.u32(v as u32);
            let mut rd = EndianSlice::new(&a2.buf, endian);
            let got = rd.read_initial_length();
            let w = v as u32;
            ctx.eval();
            if w < 0xffff_fff0 {
                ctx.check_eq("read_initial_length.32b", &Some((w as usize, Format::Dwarf32)), &got.ok(), &inp);
            } else {
                ctx.check_eq("read_initial_length.32b.err", &true, &got.is_err(), &inp);
            }
            // write_initial_length + _at then read back
            for fmt in [Format::Dwarf32, Format::Dwarf64] {
                ctx.eval();
                let mut w = vec_writer(le);
                let off = w.write_initial_length(fmt);
                let Ok(off) = off else {
                    ctx.fail("write_initial_length.err", "write_initial_length failed", &inp);
                    continue;
                };
                let res = w.write_initial_length_at(off, v, fmt);
                let fits = fmt == Format::Dwarf64 || v <= 0xffff_ffff;
                ctx.check_eq("write_initial_length_at.ok", &fits, &res.is_ok(), &inp);
                if fits && (fmt == Format::Dwarf64 || v < 0xffff_fff0) {
                    let out = w.slice().to_vec();
                    let mut rd = EndianSlice::new(&out, endian);
                    ctx.check_eq("write_initial_length.readback", &Some((v as usize, fmt)), &rd.read_initial_length().ok(), &inp);
                    ctx.check_eq("write_initial_length.readback.consumed", &0usize, &rd.len(), &inp);
                }
            }
        });
        if let Err(p) = res {
            let b2 = bytes.clone();
            ctx.report_panic("word", &p, &|| json!({"bytes": hex(&b2)}));
        }
        ctx.nontrivial_bytes("word", &bytes);
    }
}

pub fn run(ctx: &mut Ctx) {
    leb_exhaustive_short(ctx);
    leb_long_boundary(ctx);
    leb_random(ctx);
    leb_roundtrip(ctx);
    fixed_width(ctx);
    sized(ctx);
    words_and_lengths(ctx);
}

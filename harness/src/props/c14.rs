//! C14 — written frame tables read back with the same CIEs, FDEs and unwind rows.
//!
//! Oracle (written here, nothing shared with `gimli::write`):
//!  * `XTable` — a plain description of what is handed to the writer;
//!  * `classify` — which tables are expressible (DWARF factoring rules, value ranges of
//!    the pointer formats, supported versions);
//!  * `c14_rows::model_rows` — the rows the supplied instructions mean;
//!  * `walk_entries` — an independent walk over the initial-length fields of the output.
//! The emitted bytes are read back with `gimli::read::{DebugFrame, EhFrame}`.

#[path = "c14_rows.rs"]
mod rows;
#[path = "c14_gen.rs"]
mod gen;

use crate::props::PropInfo;
use crate::rt::{fnv, hex, Ctx};
use gimli::read::{self as rd, UnwindSection};
use gimli::write as w;
use gimli::{EndianSlice, Register, RunTimeEndian};
use rows::{model_rows, MCfa, MRow, MRule, XExpr, XInsn, XOp};
use serde_json::json;
use std::collections::BTreeMap;

pub fn info() -> PropInfo {
    PropInfo {
        id: "C14",
        level: "exploration",
        rule: "Five streams of write::FrameTable descriptions, each built, written with write_debug_frame / write_eh_frame into an EndianVec and, when the writer returns Ok, read back with read::{DebugFrame,EhFrame} (BaseAddresses with eh_frame = 0, section address size = the table's, vendor AArch64 when NegateRaState is used) and compared with the harness model. `adv`: every code alignment factor 0..=255 x 16 factored advances around the advance_loc boundaries (0,1,0x3e..0x41,0xfe..0x101,0xfffe..0x10001,..) x aligned / +1 / -1 byte, configuration (section, version, format, address size, byte order) rotated by index. `data`: every data alignment factor -128..=127 x {Cfa, CfaOffset, Offset, ValOffset} x 19 factored-offset patterns (0, +-1, 0x3f/0x40, +-0x40/0x41, 0x7f/0x80, i32 extremes) x aligned / +1 / -1, registers rotated over 0,0x3f,0x40,0x7f,0x80,0x3fff,0x4000,0xffff, code factor chosen different from |data factor|. `enc`: all 256 pointer-encoding bytes x role (FDE address, LSDA, personality) x address size 1/2/4/8 x both sections x 10 address patterns. `rand`: seeded tables with 1-4 CIEs (exact duplicates, near-duplicates differing in exactly one field, unreferenced CIEs, mixed formats, v4 CIEs with their own address size), 0-6 FDEs with 0-40 instructions of every CallFrameInstruction variant kept well-formed by the model interpreter (remember/restore balanced, def_cfa_register/offset only on a register CFA, negate_ra_state only on a constant rule), code offsets advancing by boundary factored deltas, boundary registers and offsets, raw and operation-built expressions; 30% of the tables get exactly one unexpressible feature injected (misaligned / zero-factor data or code offset, decreasing code offset [release build only], v1 return register > 255, unsupported version, unsupported pointer encoding, value too large for the pointer format or address size, symbolic address). `regress`: hand-written witnesses of the earlier findings (zero factors, i32::MIN / -1, 64-bit padding, v1 .eh_frame return register >= 0x80). Compared: Ok/Err against the model's verdict; add_cie ids equal iff the CIE values are equal, cie_count/fde_count; the exact entry sequence (each distinct referenced CIE once, immediately before its first FDE); all CIE parameters; FDE CIE binding (by offset), address, length, LSDA, personality, signal flag; every unwind row (start, end, CFA, every register rule, args size); entries tile the section and every entry's total size is a multiple of its address size. A case is non-trivial when the table has at least one FDE; distinct cases are counted by a digest of the complete table description.",
        assumptions: &[
            "pointer values are judged as follows: Ok required when the value (pcrel: value minus every possible field offset) lies inside the pointer format's range; Err required when no representative modulo 2^(8*address_size) fits the format; in between (negative pc-relative delta in an unsigned/narrow format, high-bit address in a narrow signed format) either outcome is accepted, but an Ok must read back exactly",
            "addresses beyond the address size in a wider pointer format (e.g. udata8 with 4-byte addresses) are not judged (no panic required only)",
            "Offset/ValOffset/Cfa/CfaOffset with offset i32::MIN and data alignment factor -1 (factored value 2^31) may be rejected or written correctly",
            "which write::Error variant is returned is recorded (obs err.*), not judged",
            "decreasing code offsets are generated in the release profile only (debug_assert in add_instruction is a documented precondition); FDEs always carry an LSDA iff their CIE has an LSDA encoding (documented precondition)",
            "rows are compared only when address + max(length, largest code offset) stays inside the address size (otherwise the reader's AddressOverflow is legitimate)",
            "the CFA of a row is compared only once an instruction has defined it; remember_state/restore_state save and restore CFA, register rules and args size (DESIGN.md A.5)",
            "operation-built expressions are expected in the shortest standard encoding (breg<n> for n < 32, bregx otherwise)",
            "address sizes are 1, 2, 4, 8 only (the writer documents nothing for other sizes)",
        ],
        exhaustive_subspaces: &[
            "code alignment factor 0..=255 x 16 boundary factored advances x {aligned,+1,-1} (stream adv)",
            "data alignment factor -128..=127 x 4 offset-carrying instructions x 19 factored offsets x {aligned,+1,-1} (stream data)",
            "all 256 pointer encoding bytes x 3 roles x address sizes 1/2/4/8 x 2 sections x 10 address patterns (stream enc)",
        ],
        must_observe: &[
            "verdict.ok", "verdict.err", "verdict.either", "either.ok", "either.err",
            "cls.data_misaligned", "cls.data_zero_factor", "cls.data_min_neg1", "cls.code_misaligned", "cls.code_zero_factor",
            "cls.ra_v1", "cls.version", "cls.enc_application", "cls.enc_format", "cls.addr_too_large", "cls.len_too_large",
            "cls.ptr_too_large", "cls.ptr_modular", "cls.symbol",
            "err.InvalidFrameCodeOffset", "err.InvalidFrameDataOffset", "err.ValueTooLarge", "err.UnsupportedVersion", "err.UnsupportedPointerEncoding", "err.InvalidAddress",
            "sec.eh_frame", "sec.debug_frame", "ver.1", "ver.3", "ver.4", "fmt.32", "fmt.64", "asize.1", "asize.2", "asize.4", "asize.8", "endian.le", "endian.be",
            "aug.none", "aug.personality", "aug.lsda", "aug.fde_enc", "aug.signal", "enc.pcrel", "enc.indirect",
            "encfmt.0", "encfmt.1", "encfmt.2", "encfmt.3", "encfmt.4", "encfmt.9", "encfmt.a", "encfmt.b", "encfmt.c",
            "insn.Cfa", "insn.CfaRegister", "insn.CfaOffset", "insn.CfaExpression", "insn.Restore", "insn.Undefined", "insn.SameValue",
            "insn.Offset", "insn.ValOffset", "insn.Register", "insn.Expression", "insn.ValExpression", "insn.RememberState",
            "insn.RestoreState", "insn.ArgsSize", "insn.NegateRaState",
            "adv.same", "adv.inline", "adv.loc1", "adv.loc2", "adv.loc4", "adv.f0x3f", "adv.f0x40", "adv.f0xff", "adv.f0x100", "adv.f0xffff", "adv.f0x10000",
            "reg.0x3f", "reg.0x40", "reg.large", "off.neg", "off.pos", "caf.0", "daf.0", "daf.neg", "daf.pos",
            "cie.dup_exact", "cie.near_dup", "cie.unreferenced", "cie.shared_by_fdes", "cie.mixed_asize", "table.empty",
            "rows.compared", "readback.tables", "expr.raw", "expr.ops",
        ],
        run,
    }
}

// ================================================================ table description

#[derive(Clone, Debug, PartialEq, Eq, Hash)]
pub enum XAddr {
    Const(u64),
    Symbol(usize, i64),
}

#[derive(Clone, Debug, PartialEq, Eq, Hash)]
pub struct XCie {
    pub fmt64: bool,
    pub version: u16,
    pub asize: u8,
    pub caf: u8,
    pub daf: i8,
    pub ra: u16,
    pub personality: Option<(u8, XAddr)>,
    pub lsda_enc: Option<u8>,
    pub fde_enc: u8,
    pub signal: bool,
    pub insns: Vec<XInsn>,
}

impl XCie {
    pub fn has_aug(&self) -> bool {
        self.personality.is_some() || self.lsda_enc.is_some() || self.signal || self.fde_enc != 0
    }
}

#[derive(Clone, Debug, PartialEq, Eq, Hash)]
pub struct XFde {
    /// index into `XTable::cies` (the CIE as added, duplicates included)
    pub cie: usize,
    pub addr: XAddr,
    pub len: u32,
    pub lsda: Option<XAddr>,
    pub insns: Vec<(u32, XInsn)>,
}

#[derive(Clone, Debug, PartialEq, Eq, Hash)]
pub struct XTable {
    pub eh: bool,
    pub le: bool,
    pub sec_asize: u8,
    pub cies: Vec<XCie>,
    pub fdes: Vec<XFde>,
}

pub fn mask_of(asize: u8) -> u64 {
    match asize {
        1 => 0xff,
        2 => 0xffff,
        4 => 0xffff_ffff,
        _ => u64::MAX,
    }
}

pub const SUPPORTED_FORMATS: [u8; 9] = [0x0, 0x1, 0x2, 0x3, 0x4, 0x9, 0xa, 0xb, 0xc];

pub fn enc_supported(enc: u8) -> bool {
    matches!(enc & 0x70, 0x00 | 0x10) && SUPPORTED_FORMATS.contains(&(enc & 0x0f))
}

/// Inclusive value range of a pointer format.
pub fn format_range(fmt: u8, asize: u8) -> Option<(i128, i128)> {
    let u = |bits: u32| (0i128, (1i128 << bits) - 1);
    let s = |bits: u32| (-(1i128 << (bits - 1)), (1i128 << (bits - 1)) - 1);
    Some(match fmt {
        0x0 => u(asize as u32 * 8),
        0x1 => u(64),
        0x2 => u(16),
        0x3 => u(32),
        0x4 => u(64),
        0x9 => s(64),
        0xa => s(16),
        0xb => s(32),
        0xc => s(64),
        _ => return None,
    })
}

// ================================================================ classification

#[derive(Clone, Debug, Default)]
pub struct Verdict {
    pub must_err: Vec<&'static str>,
    pub either: Vec<&'static str>,
    /// the read-back comparison is not meaningful (address beyond the address size)
    pub no_readback: bool,
}

fn insn_bound(i: &XInsn) -> i128 {
    let e = match i {
        XInsn::CfaExpression(e) | XInsn::Expression(_, e) | XInsn::ValExpression(_, e) => e.bytes().len() as i128,
        _ => 0,
    };
    24 + e
}

/// A generous upper bound of the size of the emitted section.
pub fn size_bound(t: &XTable) -> i128 {
    let mut b = 0i128;
    for c in &t.cies {
        b += 72 + c.insns.iter().map(insn_bound).sum::<i128>();
    }
    for f in &t.fdes {
        b += 72 + f.insns.iter().map(|x| insn_bound(&x.1)).sum::<i128>();
    }
    b
}

fn classify_data_off(off: i32, daf: i8, v: &mut Verdict) {
    if daf == 0 {
        if off != 0 {
            v.must_err.push("data_zero_factor");
        }
    } else if off == i32::MIN && daf == -1 {
        v.either.push("data_min_neg1");
    } else if (off as i64) % (daf as i64) != 0 {
        v.must_err.push("data_misaligned");
    }
}

fn classify_insn(i: &XInsn, daf: i8, v: &mut Verdict) {
    match *i {
        XInsn::Cfa(_, off) | XInsn::CfaOffset(off) => {
            if off < 0 {
                classify_data_off(off, daf, v);
            }
        }
        XInsn::Offset(_, off) | XInsn::ValOffset(_, off) => classify_data_off(off, daf, v),
        _ => {}
    }
}

fn classify_ptr(enc: u8, addr: &XAddr, asize: u8, bound: i128, v: &mut Verdict) {
    let val = match addr {
        XAddr::Symbol(..) => {
            v.must_err.push("symbol");
            return;
        }
        XAddr::Const(x) => *x,
    };
    let app = enc & 0x70;
    let fmt = enc & 0x0f;
    if !matches!(app, 0x00 | 0x10) {
        v.must_err.push("enc_application");
        return;
    }
    let Some((lo, hi)) = format_range(fmt, asize) else {
        v.must_err.push("enc_format");
        return;
    };
    let mask = mask_of(asize);
    if val > mask {
        if app == 0 && fmt == 0 {
            v.must_err.push("addr_too_large");
        } else {
            v.either.push("addr_beyond_mask");
            v.no_readback = true;
        }
        return;
    }
    let (tlo, thi) = if app == 0 { (val as i128, val as i128) } else { (val as i128 - bound, val as i128) };
    if tlo >= lo && thi <= hi {
        return;
    }
    let m = 1i128 << (asize as u32 * 8);
    for k in -2i128..=2 {
        let (a, b) = (tlo + k * m, thi + k * m);
        if a <= hi && b >= lo {
            v.either.push("ptr_modular");
            return;
        }
    }
    v.must_err.push("ptr_too_large");
}

fn classify_cie(c: &XCie, eh: bool, bound: i128, v: &mut Verdict) {
    let ok_version = if eh { c.version == 1 } else { matches!(c.version, 1 | 3 | 4) };
    if !ok_version {
        v.must_err.push("version");
    }
    if c.version == 1 && c.ra > 0xff {
        v.must_err.push("ra_v1");
    }
    if let Some((enc, a)) = &c.personality {
        classify_ptr(*enc, a, c.asize, bound, v);
    }
    for i in &c.insns {
        classify_insn(i, c.daf, v);
    }
}

fn classify_fde(f: &XFde, c: &XCie, bound: i128, v: &mut Verdict) {
    let mask = mask_of(c.asize);
    if c.fde_enc == 0 {
        match &f.addr {
            XAddr::Symbol(..) => v.must_err.push("symbol"),
            XAddr::Const(a) => {
                if *a > mask {
                    v.must_err.push("addr_too_large");
                }
            }
        }
        if f.len as u64 > mask {
            v.must_err.push("len_too_large");
        }
    } else {
        classify_ptr(c.fde_enc, &f.addr, c.asize, bound, v);
        if let Some((lo, hi)) = format_range(c.fde_enc & 0x0f, c.asize) {
            let l = f.len as i128;
            if l < lo || l > hi {
                v.must_err.push("len_too_large");
            }
        }
    }
    if let (Some(enc), Some(l)) = (c.lsda_enc, &f.lsda) {
        classify_ptr(enc, l, c.asize, bound, v);
    }
    let mut prev = 0u32;
    for (off, insn) in &f.insns {
        if *off < prev {
            v.must_err.push("code_decreasing");
        } else {
            let delta = *off - prev;
            if delta != 0 {
                if c.caf == 0 {
                    v.must_err.push("code_zero_factor");
                } else if delta % c.caf as u32 != 0 {
                    v.must_err.push("code_misaligned");
                }
            }
        }
        prev = *off;
        classify_insn(insn, c.daf, v);
    }
}

pub fn classify(t: &XTable) -> Verdict {
    let bound = size_bound(t);
    let mut v = Verdict::default();
    let mut done = vec![false; t.cies.len()];
    for f in &t.fdes {
        let c = &t.cies[f.cie];
        if !done[f.cie] {
            done[f.cie] = true;
            classify_cie(c, t.eh, bound, &mut v);
        }
        classify_fde(f, c, bound, &mut v);
    }
    v
}

// ================================================================ building the gimli table

fn to_addr(a: &XAddr) -> w::Address {
    match *a {
        XAddr::Const(v) => w::Address::Constant(v),
        XAddr::Symbol(symbol, addend) => w::Address::Symbol { symbol, addend },
    }
}

fn to_expr(e: &XExpr) -> w::Expression {
    match e {
        XExpr::Raw(b) => w::Expression::raw(b.clone()),
        XExpr::Ops(ops) => {
            let mut x = w::Expression::new();
            for op in ops {
                match *op {
                    XOp::Breg(r, off) => x.op_breg(Register(r), off),
                    XOp::PlusUconst(v) => x.op_plus_uconst(v),
                    XOp::Deref => x.op_deref(),
                    XOp::Simple(b) => x.op(gimli::DwOp(b)),
                }
            }
            x
        }
    }
}

fn to_insn(i: &XInsn) -> w::CallFrameInstruction {
    use w::CallFrameInstruction as C;
    match i {
        XInsn::Cfa(r, o) => C::Cfa(Register(*r), *o),
        XInsn::CfaRegister(r) => C::CfaRegister(Register(*r)),
        XInsn::CfaOffset(o) => C::CfaOffset(*o),
        XInsn::CfaExpression(e) => C::CfaExpression(to_expr(e)),
        XInsn::Restore(r) => C::Restore(Register(*r)),
        XInsn::Undefined(r) => C::Undefined(Register(*r)),
        XInsn::SameValue(r) => C::SameValue(Register(*r)),
        XInsn::Offset(r, o) => C::Offset(Register(*r), *o),
        XInsn::ValOffset(r, o) => C::ValOffset(Register(*r), *o),
        XInsn::Register(r, s) => C::Register(Register(*r), Register(*s)),
        XInsn::Expression(r, e) => C::Expression(Register(*r), to_expr(e)),
        XInsn::ValExpression(r, e) => C::ValExpression(Register(*r), to_expr(e)),
        XInsn::RememberState => C::RememberState,
        XInsn::RestoreState => C::RestoreState,
        XInsn::ArgsSize(n) => C::ArgsSize(*n),
        XInsn::NegateRaState => C::NegateRaState,
    }
}

struct Written {
    ids: Vec<w::CieId>,
    cie_count: usize,
    fde_count: usize,
    result: Result<Vec<u8>, w::Error>,
}

fn build_and_write(t: &XTable) -> Written {
    let mut table = w::FrameTable::default();
    let mut ids = vec![];
    for c in &t.cies {
        let enc = gimli::Encoding {
            format: if c.fmt64 { gimli::Format::Dwarf64 } else { gimli::Format::Dwarf32 },
            version: c.version,
            address_size: c.asize,
        };
        let mut cie = w::CommonInformationEntry::new(enc, c.caf, c.daf, Register(c.ra));
        cie.personality = c.personality.as_ref().map(|(e, a)| (gimli::DwEhPe(*e), to_addr(a)));
        cie.lsda_encoding = c.lsda_enc.map(gimli::DwEhPe);
        cie.fde_address_encoding = gimli::DwEhPe(c.fde_enc);
        cie.signal_trampoline = c.signal;
        for i in &c.insns {
            cie.add_instruction(to_insn(i));
        }
        ids.push(table.add_cie(cie));
    }
    for f in &t.fdes {
        let mut fde = w::FrameDescriptionEntry::new(to_addr(&f.addr), f.len);
        fde.lsda = f.lsda.as_ref().map(to_addr);
        for (off, i) in &f.insns {
            fde.add_instruction(*off, to_insn(i));
        }
        table.add_fde(ids[f.cie], fde);
    }
    let endian = if t.le { RunTimeEndian::Little } else { RunTimeEndian::Big };
    let result = if t.eh {
        let mut s = w::EhFrame::from(w::EndianVec::new(endian));
        table.write_eh_frame(&mut s).map(|_| s.0.into_vec())
    } else {
        let mut s = w::DebugFrame::from(w::EndianVec::new(endian));
        table.write_debug_frame(&mut s).map(|_| s.0.into_vec())
    };
    Written { ids, cie_count: table.cie_count(), fde_count: table.fde_count(), result }
}

// ================================================================ reading back

struct VecStore;
impl<T: gimli::ReaderOffset> rd::UnwindContextStorage<T> for VecStore {
    type Rules = Vec<(Register, rd::RegisterRule<T>)>;
    type Stack = Vec<rd::UnwindTableRow<T, Self>>;
}

#[derive(Clone, Debug, PartialEq, Eq)]
struct RCie {
    fmt64: bool,
    version: u8,
    asize: u8,
    caf: u64,
    daf: i64,
    ra: u16,
    has_aug: bool,
    lsda_enc: Option<u8>,
    /// (encoding, indirect, address)
    personality: Option<(u8, bool, u64)>,
    fde_enc: Option<u8>,
    signal: bool,
}

#[derive(Clone, Debug, PartialEq, Eq)]
struct RFde {
    addr: u64,
    len: u64,
    /// (indirect, address)
    lsda: Option<(bool, u64)>,
    personality: Option<(bool, u64)>,
    signal: bool,
}

enum REntry {
    Cie { offset: usize, length: usize, cie: RCie },
    Fde { offset: usize, length: usize, cie_offset: usize, fde: RFde, rows: Result<Vec<MRow>, String> },
}

type Slice<'a> = EndianSlice<'a, RunTimeEndian>;

fn ptr(p: rd::Pointer) -> (bool, u64) {
    match p {
        rd::Pointer::Direct(a) => (false, a),
        rd::Pointer::Indirect(a) => (true, a),
    }
}

fn conv_cie(c: &rd::CommonInformationEntry<Slice<'_>>) -> RCie {
    RCie {
        fmt64: c.encoding().format == gimli::Format::Dwarf64,
        version: c.version(),
        asize: c.address_size(),
        caf: c.code_alignment_factor(),
        daf: c.data_alignment_factor(),
        ra: c.return_address_register().0,
        has_aug: c.augmentation().is_some(),
        lsda_enc: c.lsda_encoding().map(|e| e.0),
        personality: c.personality_with_encoding().map(|(e, p)| {
            let (i, a) = ptr(p);
            (e.0, i, a)
        }),
        fde_enc: c.fde_address_encoding().map(|e| e.0),
        signal: c.is_signal_trampoline(),
    }
}

fn expr_bytes<'a, S: UnwindSection<Slice<'a>>>(sec: &S, e: &rd::UnwindExpression<usize>) -> Result<Vec<u8>, String> {
    let x = e.get(sec).map_err(|e| format!("expression: {e:?}"))?;
    Ok(x.0.slice().to_vec())
}

fn conv_row<'a, S: UnwindSection<Slice<'a>>>(sec: &S, row: &rd::UnwindTableRow<usize, VecStore>) -> Result<MRow, String> {
    let cfa = match row.cfa() {
        rd::CfaRule::RegisterAndOffset { register, offset } => MCfa::RegOff(register.0, *offset),
        rd::CfaRule::Expression(e) => MCfa::Expr(expr_bytes(sec, e)?),
    };
    let mut rules = BTreeMap::new();
    for (reg, rule) in row.registers() {
        let r = match rule {
            rd::RegisterRule::Undefined => MRule::Undefined,
            rd::RegisterRule::SameValue => MRule::SameValue,
            rd::RegisterRule::Offset(o) => MRule::Offset(*o),
            rd::RegisterRule::ValOffset(o) => MRule::ValOffset(*o),
            rd::RegisterRule::Register(r) => MRule::Register(r.0),
            rd::RegisterRule::Expression(e) => MRule::Expression(expr_bytes(sec, e)?),
            rd::RegisterRule::ValExpression(e) => MRule::ValExpression(expr_bytes(sec, e)?),
            rd::RegisterRule::Constant(c) => MRule::Constant(*c),
            other => MRule::Other(format!("{other:?}")),
        };
        if rules.insert(reg.0, r).is_some() {
            return Err(format!("register {} listed twice in one row", reg.0));
        }
    }
    Ok(MRow { start: row.start_address(), end: row.end_address(), cfa: Some(cfa), rules, args: row.saved_args_size() })
}

fn read_back<'a, S>(sec: &S, bases: &rd::BaseAddresses) -> Result<Vec<REntry>, String>
where
    S: UnwindSection<Slice<'a>>,
    S::Offset: rd::UnwindOffset<usize>,
{
    let mut out = vec![];
    let mut entries = sec.entries(bases);
    loop {
        let e = match entries.next() {
            Ok(Some(e)) => e,
            Ok(None) => break,
            Err(e) => return Err(format!("entries.next: {e:?} after {} entries", out.len())),
        };
        match e {
            rd::CieOrFde::Cie(c) => out.push(REntry::Cie { offset: c.offset(), length: c.entry_len(), cie: conv_cie(&c) }),
            rd::CieOrFde::Fde(p) => {
                let fde = p.parse(S::cie_from_offset).map_err(|e| format!("FDE at {:#x}: parse: {e:?}", p.offset()))?;
                let r = RFde {
                    addr: fde.initial_address(),
                    len: fde.len(),
                    lsda: fde.lsda().map(ptr),
                    personality: fde.personality().map(ptr),
                    signal: fde.is_signal_trampoline(),
                };
                let mut ctx = rd::UnwindContext::<usize, VecStore>::new_in();
                let rows = (|| {
                    let mut table = fde.rows(sec, bases, &mut ctx).map_err(|e| format!("rows: {e:?}"))?;
                    let mut rows = vec![];
                    loop {
                        match table.next_row() {
                            Ok(Some(row)) => rows.push(conv_row(sec, row)?),
                            Ok(None) => break,
                            Err(e) => return Err(format!("next_row: {e:?} after {} rows", rows.len())),
                        }
                        if rows.len() > 100_000 {
                            return Err("more than 100000 rows".into());
                        }
                    }
                    Ok(rows)
                })();
                out.push(REntry::Fde { offset: fde.offset(), length: fde.entry_len(), cie_offset: fde.cie().offset(), fde: r, rows });
            }
        }
        if out.len() > 100_000 {
            return Err("more than 100000 entries".into());
        }
    }
    Ok(out)
}

/// Independent walk over the entries: (offset, total size incl. the length field, 64-bit?).
fn walk_entries(b: &[u8], le: bool) -> Result<Vec<(usize, usize, bool)>, String> {
    let mut out = vec![];
    let mut pos = 0usize;
    while pos < b.len() {
        if b.len() - pos < 4 {
            return Err(format!("{} stray bytes at {pos:#x}", b.len() - pos));
        }
        let w32 = crate::asm::get_uint(&b[pos..], le, 4);
        let (hdr, len, is64) = if w32 == 0xffff_ffff {
            if b.len() - pos < 12 {
                return Err(format!("truncated 64-bit length at {pos:#x}"));
            }
            (12usize, crate::asm::get_uint(&b[pos + 4..], le, 8), true)
        } else if w32 >= 0xffff_fff0 {
            return Err(format!("reserved initial length at {pos:#x}"));
        } else {
            (4usize, w32, false)
        };
        let total = (hdr as u64).checked_add(len).filter(|t| *t <= (b.len() - pos) as u64);
        let Some(total) = total else {
            return Err(format!("entry at {pos:#x} (length {len:#x}) runs past the end of the section"));
        };
        out.push((pos, total as usize, is64));
        pos += total as usize;
    }
    Ok(out)
}

// ================================================================ the check

fn table_has_negate(t: &XTable) -> bool {
    t.cies.iter().any(|c| c.insns.contains(&XInsn::NegateRaState)) || t.fdes.iter().any(|f| f.insns.iter().any(|(_, i)| *i == XInsn::NegateRaState))
}

fn err_name(e: &w::Error) -> String {
    let s = format!("{e:?}");
    s.split('(').next().unwrap_or("").to_string()
}

fn first_row_diff(exp: &[MRow], got: &[MRow]) -> Option<String> {
    if exp.len() != got.len() {
        return Some(format!("{} rows expected, {} read; expected starts {:x?}, read starts {:x?}", exp.len(), got.len(), exp.iter().map(|r| r.start).take(12).collect::<Vec<_>>(), got.iter().map(|r| r.start).take(12).collect::<Vec<_>>()));
    }
    for (k, (e, g)) in exp.iter().zip(got).enumerate() {
        let mut g = g.clone();
        if e.cfa.is_none() {
            g.cfa = None;
        }
        if *e != g {
            return Some(format!("row {k}: expected {e:x?} read {g:x?}"));
        }
    }
    None
}

fn observe_table(ctx: &mut Ctx, t: &XTable) {
    ctx.obs(if t.eh { "sec.eh_frame" } else { "sec.debug_frame" });
    ctx.obs(if t.le { "endian.le" } else { "endian.be" });
    if t.fdes.is_empty() {
        ctx.obs("table.empty");
    }
    let mut refd = vec![0usize; t.cies.len()];
    for f in &t.fdes {
        refd[f.cie] += 1;
    }
    let mut obs_enc = |ctx: &mut Ctx, e: u8| {
        if enc_supported(e) {
            ctx.obs(&format!("encfmt.{:x}", e & 0xf));
            if e & 0x70 == 0x10 {
                ctx.obs("enc.pcrel");
            }
            if e & 0x80 != 0 {
                ctx.obs("enc.indirect");
            }
        }
    };
    let obs_insn = |ctx: &mut Ctx, i: &XInsn| {
        ctx.obs(&format!("insn.{}", i.name()));
        let reg = match i {
            XInsn::Cfa(r, _) | XInsn::CfaRegister(r) | XInsn::Restore(r) | XInsn::Undefined(r) | XInsn::SameValue(r) | XInsn::Offset(r, _) | XInsn::ValOffset(r, _) | XInsn::Register(r, _) | XInsn::Expression(r, _) | XInsn::ValExpression(r, _) => Some(*r),
            _ => None,
        };
        match reg {
            Some(0x3f) => ctx.obs("reg.0x3f"),
            Some(0x40) => ctx.obs("reg.0x40"),
            Some(r) if r >= 0x80 => ctx.obs("reg.large"),
            _ => {}
        }
        match i {
            XInsn::Cfa(_, o) | XInsn::CfaOffset(o) | XInsn::Offset(_, o) | XInsn::ValOffset(_, o) => ctx.obs(if *o < 0 { "off.neg" } else { "off.pos" }),
            XInsn::CfaExpression(e) | XInsn::Expression(_, e) | XInsn::ValExpression(_, e) => ctx.obs(if matches!(e, XExpr::Raw(_)) { "expr.raw" } else { "expr.ops" }),
            _ => {}
        }
    };
    for (k, c) in t.cies.iter().enumerate() {
        if refd[k] == 0 {
            ctx.obs("cie.unreferenced");
            continue;
        }
        if refd[k] > 1 {
            ctx.obs("cie.shared_by_fdes");
        }
        ctx.obs(&format!("ver.{}", c.version));
        ctx.obs(if c.fmt64 { "fmt.64" } else { "fmt.32" });
        ctx.obs(&format!("asize.{}", c.asize));
        if c.asize != t.sec_asize {
            ctx.obs("cie.mixed_asize");
        }
        if c.caf == 0 {
            ctx.obs("caf.0");
        }
        ctx.obs(if c.daf == 0 { "daf.0" } else if c.daf < 0 { "daf.neg" } else { "daf.pos" });
        if !c.has_aug() {
            ctx.obs("aug.none");
        }
        if let Some((e, _)) = &c.personality {
            ctx.obs("aug.personality");
            obs_enc(ctx, *e);
        }
        if let Some(e) = c.lsda_enc {
            ctx.obs("aug.lsda");
            obs_enc(ctx, e);
        }
        if c.fde_enc != 0 {
            ctx.obs("aug.fde_enc");
            obs_enc(ctx, c.fde_enc);
        }
        if c.signal {
            ctx.obs("aug.signal");
        }
        for i in &c.insns {
            obs_insn(ctx, i);
        }
        if t.cies[..k].iter().any(|d| d == c) {
            ctx.obs("cie.dup_exact");
        }
    }
    for f in &t.fdes {
        let caf = t.cies[f.cie].caf as u32;
        let mut prev = 0u32;
        for (off, i) in &f.insns {
            obs_insn(ctx, i);
            if *off == prev {
                ctx.obs("adv.same");
            } else if *off > prev && caf != 0 && (*off - prev) % caf == 0 {
                let fd = (*off - prev) / caf;
                ctx.obs(if fd < 0x40 { "adv.inline" } else if fd < 0x100 { "adv.loc1" } else if fd < 0x10000 { "adv.loc2" } else { "adv.loc4" });
                if matches!(fd, 0x3f | 0x40 | 0xff | 0x100 | 0xffff | 0x10000) {
                    ctx.obs(&format!("adv.f{fd:#x}"));
                }
            }
            prev = *off;
        }
    }
}

/// Run one table through the writer and the reader and compare with the model.
pub fn check_table(ctx: &mut Ctx, t: &XTable, tag: &str) {
    ctx.eval();
    let verdict = classify(t);
    let desc = format!("{t:#?}");
    let input0 = || json!({"table": desc, "verdict": format!("{verdict:?}")});
    let Some(wr) = ctx.guard(&format!("{tag}.write"), &input0, || build_and_write(t)) else { return };

    observe_table(ctx, t);
    if !t.fdes.is_empty() {
        ctx.nontrivial(fnv(desc.as_bytes()));
    }
    for c in verdict.must_err.iter().chain(verdict.either.iter()) {
        ctx.obs(&format!("cls.{c}"));
    }

    // ---- ids and counts
    let mut distinct: Vec<usize> = vec![]; // index of the first occurrence of each distinct CIE value
    for (i, c) in t.cies.iter().enumerate() {
        if !t.cies[..i].iter().any(|d| d == c) {
            distinct.push(i);
        }
    }
    ctx.check_eq("add_cie.cie_count", &distinct.len(), &wr.cie_count, &input0);
    ctx.check_eq("add_fde.fde_count", &t.fdes.len(), &wr.fde_count, &input0);
    for i in 0..t.cies.len() {
        for j in 0..i {
            let same_model = t.cies[i] == t.cies[j];
            let same_id = wr.ids[i] == wr.ids[j];
            if same_model != same_id {
                ctx.check_eq("add_cie.id_sharing", &same_model, &same_id, &input0);
            }
        }
    }

    // ---- verdict
    let bytes = match (&wr.result, verdict.must_err.is_empty(), verdict.either.is_empty()) {
        (Ok(b), true, e) => {
            ctx.obs(if e { "verdict.ok" } else { "verdict.either" });
            if !e {
                ctx.obs("either.ok");
            }
            b.clone()
        }
        (Ok(b), false, _) => {
            ctx.obs("verdict.err");
            let b2 = b.clone();
            ctx.fail(
                &format!("write.ok_for_unexpressible.{}", verdict.must_err[0]),
                &format!("writer returned Ok for a table the model classifies as unexpressible ({:?})", verdict.must_err),
                &|| json!({"table": desc, "verdict": format!("{verdict:?}"), "bytes": hex(&b2)}),
            );
            return;
        }
        (Err(e), false, _) => {
            ctx.obs("verdict.err");
            ctx.obs(&format!("err.{}", err_name(e)));
            return;
        }
        (Err(e), true, false) => {
            ctx.obs("verdict.either");
            ctx.obs("either.err");
            ctx.obs(&format!("err.{}", err_name(e)));
            return;
        }
        (Err(e), true, true) => {
            ctx.obs("verdict.ok");
            ctx.fail("write.err_for_expressible", &format!("writer returned Err({e:?}) for an expressible table"), &input0);
            return;
        }
    };
    let input = || json!({"table": desc, "verdict": format!("{verdict:?}"), "bytes": hex(&bytes)});
    if bytes.len() as i128 > size_bound(t) {
        ctx.harness_error(&format!("C14: size bound {} < emitted {} bytes", size_bound(t), bytes.len()));
    }
    if verdict.no_readback {
        ctx.obs("readback.unjudged");
        // still must not panic
        let _ = ctx.guard(&format!("{tag}.read"), &input, || do_read(t, &bytes).map(|v| v.len()));
        return;
    }

    // ---- independent walk: tiling
    let walk = match walk_entries(&bytes, t.le) {
        Ok(w) => w,
        Err(e) => {
            ctx.fail("readback.tiling", &format!("entries do not tile the section: {e}"), &input);
            return;
        }
    };

    // ---- read back
    let Some(read) = ctx.guard(&format!("{tag}.read"), &input, || do_read(t, &bytes)) else { return };
    let entries = match read {
        Ok(e) => e,
        Err(e) => {
            ctx.fail("readback.error", &format!("reading the written section failed: {e}"), &input);
            return;
        }
    };
    ctx.obs("readback.tables");

    // ---- expected sequence
    #[derive(Debug, PartialEq, Clone, Copy)]
    enum Kind {
        Cie(usize),
        Fde(usize),
    }
    let first_of = |i: usize| t.cies.iter().position(|d| *d == t.cies[i]).unwrap_or(i);
    let mut exp_seq = vec![];
    let mut emitted: Vec<usize> = vec![];
    for (k, f) in t.fdes.iter().enumerate() {
        let c0 = first_of(f.cie);
        if !emitted.contains(&c0) {
            emitted.push(c0);
            exp_seq.push(Kind::Cie(c0));
        }
        exp_seq.push(Kind::Fde(k));
    }
    let got_kinds: Vec<&str> = entries.iter().map(|e| if matches!(e, REntry::Cie { .. }) { "CIE" } else { "FDE" }).collect();
    let exp_kinds: Vec<&str> = exp_seq.iter().map(|e| if matches!(e, Kind::Cie(_)) { "CIE" } else { "FDE" }).collect();
    if !ctx.check_eq("readback.sequence", &exp_kinds, &got_kinds, &input) {
        return;
    }
    let got_offsets: Vec<usize> = entries.iter().map(|e| match e { REntry::Cie { offset, .. } | REntry::Fde { offset, .. } => *offset }).collect();
    let walk_offsets: Vec<usize> = walk.iter().map(|w| w.0).collect();
    if !ctx.check_eq("readback.tiling.offsets", &walk_offsets, &got_offsets, &input) {
        return;
    }

    let mut cie_offset_of: BTreeMap<usize, usize> = BTreeMap::new();
    for ((exp, got), wk) in exp_seq.iter().zip(&entries).zip(&walk) {
        let (model_cie, length) = match (exp, got) {
            (Kind::Cie(ci), REntry::Cie { offset, length, cie }) => {
                let c = &t.cies[*ci];
                cie_offset_of.insert(*ci, *offset);
                let e = RCie {
                    fmt64: c.fmt64,
                    version: c.version as u8,
                    asize: c.asize,
                    caf: c.caf as u64,
                    daf: c.daf as i64,
                    ra: c.ra,
                    has_aug: c.has_aug(),
                    lsda_enc: c.lsda_enc,
                    personality: c.personality.as_ref().map(|(e, a)| (*e, e & 0x80 != 0, if let XAddr::Const(v) = a { *v } else { 0 })),
                    fde_enc: if c.fde_enc != 0 { Some(c.fde_enc) } else { None },
                    signal: c.signal,
                };
                ctx.check_eq("readback.cie", &e, cie, &input);
                (c, *length)
            }
            (Kind::Fde(fi), REntry::Fde { length, cie_offset, fde, rows, .. }) => {
                let f = &t.fdes[*fi];
                let c = &t.cies[f.cie];
                let exp_cie_off = cie_offset_of.get(&first_of(f.cie)).copied();
                ctx.check_eq("readback.fde.cie_binding", &exp_cie_off, &Some(*cie_offset), &input);
                let cv = |a: &XAddr| if let XAddr::Const(v) = a { *v } else { 0 };
                let addr = cv(&f.addr);
                let e = RFde {
                    addr,
                    len: f.len as u64,
                    lsda: match (c.lsda_enc, &f.lsda) {
                        (Some(enc), Some(a)) => Some((enc & 0x80 != 0, cv(a))),
                        _ => None,
                    },
                    personality: c.personality.as_ref().map(|(e, a)| (e & 0x80 != 0, cv(a))),
                    signal: c.signal,
                };
                ctx.check_eq("readback.fde", &e, fde, &input);
                // rows
                let mask = mask_of(c.asize);
                let span = f.insns.iter().map(|x| x.0).max().unwrap_or(0).max(f.len) as u64;
                if addr.checked_add(span).map(|x| x <= mask).unwrap_or(false) {
                    match model_rows(&c.insns, &f.insns, addr, f.len, mask) {
                        Err(e) => ctx.harness_error(&format!("C14: generator produced an ill-formed program: {e}")),
                        Ok(exp_rows) => match rows {
                            Err(e) => ctx.fail("readback.rows.error", &format!("FDE {fi}: evaluating the rows failed: {e}"), &input),
                            Ok(got_rows) => {
                                ctx.obs("rows.compared");
                                ctx.obs_n("rows.count", exp_rows.len() as u64);
                                if let Some(d) = first_row_diff(&exp_rows, got_rows) {
                                    ctx.fail("readback.rows", &format!("FDE {fi}: {d}"), &input);
                                }
                            }
                        },
                    }
                } else {
                    ctx.obs("rows.unjudged");
                }
                (c, *length)
            }
            _ => continue,
        };
        // entry size: length field + length, multiple of the address size
        let hdr = if wk.2 { 12 } else { 4 };
        ctx.check_eq("readback.entry_len", &wk.1.saturating_sub(hdr), &length, &input);
        ctx.check_eq("readback.entry_format", &model_cie.fmt64, &wk.2, &input);
        if wk.1 % model_cie.asize as usize != 0 {
            ctx.fail("readback.padding", &format!("entry at {:#x}: total size {} is not a multiple of the address size {}", wk.0, wk.1, model_cie.asize), &input);
        }
    }
    ctx.sample(tag, || json!({"table": desc.chars().take(1500).collect::<String>(), "bytes": hex(&bytes), "entries": got_kinds}));
}

fn do_read(t: &XTable, bytes: &[u8]) -> Result<Vec<REntry>, String> {
    let endian = if t.le { RunTimeEndian::Little } else { RunTimeEndian::Big };
    let bases = rd::BaseAddresses::default().set_eh_frame(0);
    let vendor = if table_has_negate(t) { gimli::Vendor::AArch64 } else { gimli::Vendor::Default };
    if t.eh {
        let mut s = rd::EhFrame::new(bytes, endian);
        s.set_address_size(t.sec_asize);
        s.set_vendor(vendor);
        read_back(&s, &bases)
    } else {
        let mut s = rd::DebugFrame::new(bytes, endian);
        s.set_address_size(t.sec_asize);
        s.set_vendor(vendor);
        read_back(&s, &bases)
    }
}

pub fn run(ctx: &mut Ctx) {
    gen::regress(ctx);
    gen::enum_adv(ctx);
    gen::enum_data(ctx);
    gen::enum_enc(ctx);
    gen::random(ctx);
}

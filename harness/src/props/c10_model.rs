//! C10 — operation alphabet, cursor model and history generation.
//!
//! The model of a reader is a cursor `(start, end)` into the section buffer.  A history is
//! generated *together with* the model run: every step carries the concrete operation, the
//! slot it applies to, the model's expected outcome and the cursor(s) afterwards.

use crate::rt::{fnv, fnv_add, Rng};

#[derive(Clone, Copy, Debug, PartialEq, Eq)]
pub enum Fmt {
    F32,
    F64,
}

/// Concrete reader operations (arguments already resolved against the model state).
#[derive(Clone, Debug, PartialEq)]
pub enum Op {
    ReadU8,
    ReadI8,
    ReadU16,
    ReadI16,
    ReadU32,
    ReadI32,
    ReadU64,
    ReadI64,
    ReadU128,
    ReadF32,
    ReadF64,
    ReadUint(usize),
    ReadSlice(usize),
    ReadArray3,
    Uleb,
    UlebU32,
    UlebU16,
    Sleb,
    SkipLeb,
    Address(u8),
    AddressSize,
    Offset(Fmt),
    SizedOffset(u8),
    Word(Fmt),
    Length(Fmt),
    InitialLength,
    NullTerm,
    Skip(usize),
    Split(usize),
    Truncate(usize),
    Empty,
    Find(u8),
    Len,
    IsEmpty,
    Clone,
    Drop,
    DropBase,
    /// offset_from(slot) — the other slot contains this one
    OffsetFrom(usize),
    /// offset_id, looked up through every live reader and the base
    OffsetId,
    ToSlice,
    ToString,
    ToStringLossy,
    // inherent (non-trait) surface of EndianSlice / EndianReader
    Range(usize, usize),
    RangeFrom(usize),
    RangeTo(usize),
    SplitAt(usize),
    XFind(u8),
    XOffsetFrom(usize),
    XToString,
    XToStringLossy,
    Index(usize),
    IndexFrom(usize),
    Eq(usize),
}

impl Op {
    pub fn name(&self) -> &'static str {
        match self {
            Op::ReadU8 => "read_u8",
            Op::ReadI8 => "read_i8",
            Op::ReadU16 => "read_u16",
            Op::ReadI16 => "read_i16",
            Op::ReadU32 => "read_u32",
            Op::ReadI32 => "read_i32",
            Op::ReadU64 => "read_u64",
            Op::ReadI64 => "read_i64",
            Op::ReadU128 => "read_u128",
            Op::ReadF32 => "read_f32",
            Op::ReadF64 => "read_f64",
            Op::ReadUint(_) => "read_uint",
            Op::ReadSlice(_) => "read_slice",
            Op::ReadArray3 => "read_u8_array",
            Op::Uleb => "read_uleb128",
            Op::UlebU32 => "read_uleb128_u32",
            Op::UlebU16 => "read_uleb128_u16",
            Op::Sleb => "read_sleb128",
            Op::SkipLeb => "skip_leb128",
            Op::Address(_) => "read_address",
            Op::AddressSize => "read_address_size",
            Op::Offset(_) => "read_offset",
            Op::SizedOffset(_) => "read_sized_offset",
            Op::Word(_) => "read_word",
            Op::Length(_) => "read_length",
            Op::InitialLength => "read_initial_length",
            Op::NullTerm => "read_null_terminated_slice",
            Op::Skip(_) => "skip",
            Op::Split(_) => "split",
            Op::Truncate(_) => "truncate",
            Op::Empty => "empty",
            Op::Find(_) => "find",
            Op::Len => "len",
            Op::IsEmpty => "is_empty",
            Op::Clone => "clone",
            Op::Drop => "drop",
            Op::DropBase => "drop_base",
            Op::OffsetFrom(_) => "offset_from",
            Op::OffsetId => "offset_id",
            Op::ToSlice => "to_slice",
            Op::ToString => "to_string",
            Op::ToStringLossy => "to_string_lossy",
            Op::Range(_, _) => "range",
            Op::RangeFrom(_) => "range_from",
            Op::RangeTo(_) => "range_to",
            Op::SplitAt(_) => "split_at",
            Op::XFind(_) => "x_find",
            Op::XOffsetFrom(_) => "x_offset_from",
            Op::XToString => "x_to_string",
            Op::XToStringLossy => "x_to_string_lossy",
            Op::Index(_) => "index",
            Op::IndexFrom(_) => "index_from",
            Op::Eq(_) => "eq",
        }
    }
}

pub const ALL_OP_NAMES: &[&str] = &[
    "read_u8", "read_i8", "read_u16", "read_i16", "read_u32", "read_i32", "read_u64", "read_i64", "read_u128", "read_f32", "read_f64",
    "read_uint", "read_slice", "read_u8_array", "read_uleb128", "read_uleb128_u32", "read_uleb128_u16", "read_sleb128", "skip_leb128",
    "read_address", "read_address_size", "read_offset", "read_sized_offset", "read_word", "read_length", "read_initial_length",
    "read_null_terminated_slice", "skip", "split", "truncate", "empty", "find", "len", "is_empty", "clone", "drop", "drop_base",
    "offset_from", "offset_id", "to_slice", "to_string", "to_string_lossy", "range", "range_from", "range_to", "split_at", "x_find",
    "x_offset_from", "x_to_string", "x_to_string_lossy", "index", "index_from", "eq",
];

#[derive(Clone, Debug, PartialEq)]
pub enum E {
    /// UnexpectedEof; the id maps back to this section offset
    Eof(usize),
    BadU,
    BadS,
    AddrSize(u8),
    OffSize(u8),
    Reserved(u32),
    Utf8,
    Other(String),
}

/// Outcome of one operation, comparable between the model and every reader kind.
#[derive(Clone, Debug, PartialEq)]
pub enum Out {
    Unit,
    U(u128),
    I(i128),
    Bool(bool),
    Opt(Option<usize>),
    LenFmt(usize, Fmt),
    /// a new reader: section offset and length
    Sub(usize, usize),
    Pair((usize, usize), (usize, usize)),
    /// digest and length of returned bytes / string
    Bytes(u64, usize),
    Str(u64, usize),
    /// `lookup_offset_id(offset_id())` through base and every live slot
    Lookups(Vec<Option<usize>>),
    Err(E),
}

pub fn digest(b: &[u8]) -> u64 {
    fnv_add(fnv(b"c10"), b)
}

#[derive(Clone, Debug)]
pub struct Step {
    pub slot: usize,
    pub op: Op,
    pub exp: Out,
    /// cursor of `slot` afterwards (None: dropped)
    pub after: Option<(usize, usize)>,
    /// cursors of the readers this step created (they get the next slot numbers)
    pub new: Vec<(usize, usize)>,
}

#[derive(Clone, Debug)]
pub struct History {
    pub buf: Vec<u8>,
    pub le: bool,
    pub steps: Vec<Step>,
    /// order in which the slots still alive at the end are dropped
    pub final_drops: Vec<usize>,
}

impl History {
    pub fn digest(&self) -> u64 {
        let mut h = digest(&self.buf);
        h = fnv_add(h, &[self.le as u8]);
        for s in &self.steps {
            h = fnv_add(h, format!("{}:{:?}", s.slot, s.op).as_bytes());
        }
        h
    }
    pub fn describe(&self) -> Vec<String> {
        self.steps.iter().map(|s| format!("#{} {:?} => {:?}", s.slot, s.op, s.exp)).collect()
    }
}

// ---------------------------------------------------------------- model

pub struct Model<'b> {
    pub buf: &'b [u8],
    pub le: bool,
    /// cursor per slot; None = dropped
    pub slots: Vec<Option<(usize, usize)>>,
    pub base_live: bool,
}

fn uint(b: &[u8], le: bool) -> u128 {
    let mut v: u128 = 0;
    if le {
        for &x in b.iter().rev() {
            v = (v << 8) | x as u128;
        }
    } else {
        for &x in b {
            v = (v << 8) | x as u128;
        }
    }
    v
}

fn sext(v: u128, bytes: usize) -> i128 {
    let bits = (bytes * 8) as u32;
    if bits >= 128 {
        return v as i128;
    }
    let sh = 128 - bits;
    ((v << sh) as i128) >> sh
}

/// LEB decode classes.  `Amb` = over-long / unterminated-at-canonical-maximum input whose
/// treatment C09 leaves open; histories never contain such a step.
pub enum Leb {
    Ok(i128, usize),
    /// ran out of bytes: everything consumed
    Eof,
    /// terminated within the canonical maximum but the value does not fit: consumed `usize`
    Bad(usize),
    Amb,
}

pub fn model_leb(b: &[u8], signed: bool, bits: u32, max_len: usize) -> Leb {
    let term = b.iter().position(|x| x & 0x80 == 0);
    match term {
        None => {
            if b.len() >= max_len {
                Leb::Amb
            } else {
                Leb::Eof
            }
        }
        Some(k) => {
            let len = k + 1;
            if len > max_len {
                return Leb::Amb;
            }
            // len <= 10: the value fits in 70 bits of i128
            let mut v: i128 = 0;
            for i in 0..len {
                v |= ((b[i] & 0x7f) as i128) << (7 * i);
            }
            if signed {
                if b[k] & 0x40 != 0 {
                    v |= -1i128 << (7 * len);
                }
                if v >= -(1i128 << (bits - 1)) && v < (1i128 << (bits - 1)) {
                    Leb::Ok(v, len)
                } else {
                    Leb::Bad(len)
                }
            } else if v < (1i128 << bits) {
                Leb::Ok(v, len)
            } else {
                Leb::Bad(len)
            }
        }
    }
}

impl<'b> Model<'b> {
    pub fn new(buf: &'b [u8], le: bool) -> Model<'b> {
        Model { buf, le, slots: vec![Some((0, buf.len()))], base_live: true }
    }

    pub fn live(&self) -> Vec<usize> {
        (0..self.slots.len()).filter(|&i| self.slots[i].is_some()).collect()
    }

    pub fn cur(&self, slot: usize) -> (usize, usize) {
        self.slots[slot].unwrap_or((0, 0))
    }

    fn fixed(&self, s: usize, e: usize, n: usize) -> Option<u128> {
        if e - s < n {
            None
        } else {
            Some(uint(&self.buf[s..s + n], self.le))
        }
    }

    /// Is this operation's outcome fixed by the model (false: ambiguous LEB input)?
    pub fn decidable(&self, slot: usize, op: &Op) -> bool {
        let (s, e) = self.cur(slot);
        let w = &self.buf[s..e];
        !match op {
            Op::Uleb => matches!(model_leb(w, false, 64, 10), Leb::Amb),
            Op::UlebU32 => matches!(model_leb(w, false, 32, 10), Leb::Amb),
            Op::UlebU16 => matches!(model_leb(w, false, 16, 3), Leb::Amb),
            Op::Sleb => matches!(model_leb(w, true, 64, 10), Leb::Amb),
            _ => false,
        }
    }

    /// Apply `op` to `slot`; returns the step (expected outcome, cursors afterwards).
    pub fn apply(&mut self, slot: usize, op: Op) -> Step {
        let (mut s, mut e) = self.cur(slot);
        let mut new: Vec<(usize, usize)> = vec![];
        let mut dropped = false;
        let eof = |at: usize| Out::Err(E::Eof(at));
        let exp = match &op {
            Op::ReadU8 | Op::ReadU16 | Op::ReadU32 | Op::ReadU64 | Op::ReadU128 | Op::ReadF32 | Op::ReadF64 | Op::ReadUint(_) => {
                let n = match &op {
                    Op::ReadU8 => 1,
                    Op::ReadU16 => 2,
                    Op::ReadU32 | Op::ReadF32 => 4,
                    Op::ReadU64 | Op::ReadF64 => 8,
                    Op::ReadU128 => 16,
                    Op::ReadUint(n) => *n,
                    _ => 0,
                };
                match self.fixed(s, e, n) {
                    Some(v) => {
                        s += n;
                        Out::U(v)
                    }
                    None => eof(s),
                }
            }
            Op::ReadI8 | Op::ReadI16 | Op::ReadI32 | Op::ReadI64 => {
                let n = match &op {
                    Op::ReadI8 => 1,
                    Op::ReadI16 => 2,
                    Op::ReadI32 => 4,
                    _ => 8,
                };
                match self.fixed(s, e, n) {
                    Some(v) => {
                        s += n;
                        Out::I(sext(v, n))
                    }
                    None => eof(s),
                }
            }
            Op::ReadSlice(n) => {
                if e - s < *n {
                    eof(s)
                } else {
                    let o = Out::Bytes(digest(&self.buf[s..s + n]), *n);
                    s += n;
                    o
                }
            }
            Op::ReadArray3 => {
                if e - s < 3 {
                    eof(s)
                } else {
                    let o = Out::Bytes(digest(&self.buf[s..s + 3]), 3);
                    s += 3;
                    o
                }
            }
            Op::Uleb | Op::UlebU32 | Op::UlebU16 | Op::Sleb => {
                let (signed, bits, max) = match &op {
                    Op::Uleb => (false, 64, 10),
                    Op::UlebU32 => (false, 32, 10),
                    Op::UlebU16 => (false, 16, 3),
                    _ => (true, 64, 10),
                };
                match model_leb(&self.buf[s..e], signed, bits, max) {
                    Leb::Ok(v, n) => {
                        s += n;
                        if signed {
                            Out::I(v)
                        } else {
                            Out::U(v as u128)
                        }
                    }
                    Leb::Eof => {
                        s = e;
                        eof(e)
                    }
                    Leb::Bad(n) => {
                        s += n;
                        Out::Err(if signed { E::BadS } else { E::BadU })
                    }
                    // never generated (see `decidable`)
                    Leb::Amb => Out::Err(E::Other("ambiguous".into())),
                }
            }
            Op::SkipLeb => match self.buf[s..e].iter().position(|x| x & 0x80 == 0) {
                Some(k) => {
                    s += k + 1;
                    Out::Unit
                }
                None => {
                    s = e;
                    eof(e)
                }
            },
            Op::Address(sz) => match sz {
                1 | 2 | 4 | 8 => match self.fixed(s, e, *sz as usize) {
                    Some(v) => {
                        s += *sz as usize;
                        Out::U(v)
                    }
                    None => eof(s),
                },
                o => Out::Err(E::AddrSize(*o)),
            },
            Op::AddressSize => match self.fixed(s, e, 1) {
                Some(v) => {
                    s += 1;
                    match v {
                        1 | 2 | 4 | 8 => Out::U(v),
                        o => Out::Err(E::AddrSize(o as u8)),
                    }
                }
                None => eof(s),
            },
            Op::Offset(f) | Op::Word(f) | Op::Length(f) => {
                let n = if *f == Fmt::F32 { 4 } else { 8 };
                match self.fixed(s, e, n) {
                    Some(v) => {
                        s += n;
                        Out::U(v)
                    }
                    None => eof(s),
                }
            }
            Op::SizedOffset(sz) => match sz {
                1 | 2 | 4 | 8 => match self.fixed(s, e, *sz as usize) {
                    Some(v) => {
                        s += *sz as usize;
                        Out::U(v)
                    }
                    None => eof(s),
                },
                o => Out::Err(E::OffSize(*o)),
            },
            Op::InitialLength => match self.fixed(s, e, 4) {
                None => eof(s),
                Some(v) => {
                    s += 4;
                    if v < 0xffff_fff0 {
                        Out::LenFmt(v as usize, Fmt::F32)
                    } else if v == 0xffff_ffff {
                        match self.fixed(s, e, 8) {
                            Some(v) => {
                                s += 8;
                                Out::LenFmt(v as usize, Fmt::F64)
                            }
                            None => eof(s),
                        }
                    } else {
                        Out::Err(E::Reserved(v as u32))
                    }
                }
            },
            Op::NullTerm => match self.buf[s..e].iter().position(|x| *x == 0) {
                Some(i) => {
                    new.push((s, s + i));
                    let o = Out::Sub(s, i);
                    s += i + 1;
                    o
                }
                None => eof(s),
            },
            Op::Skip(n) => {
                if *n > e - s {
                    eof(s)
                } else {
                    s += n;
                    Out::Unit
                }
            }
            Op::Split(n) => {
                if *n > e - s {
                    eof(s)
                } else {
                    new.push((s, s + n));
                    let o = Out::Sub(s, *n);
                    s += n;
                    o
                }
            }
            Op::Truncate(n) => {
                if *n > e - s {
                    eof(s)
                } else {
                    e = s + n;
                    Out::Unit
                }
            }
            Op::Empty => {
                e = s;
                Out::Unit
            }
            Op::Find(b) => match self.buf[s..e].iter().position(|x| x == b) {
                Some(i) => Out::U(i as u128),
                None => eof(s),
            },
            Op::XFind(b) => Out::Opt(self.buf[s..e].iter().position(|x| x == b)),
            Op::Len => Out::U((e - s) as u128),
            Op::IsEmpty => Out::Bool(e == s),
            Op::Clone => {
                new.push((s, e));
                Out::Sub(s, e - s)
            }
            Op::Drop => {
                dropped = true;
                Out::Unit
            }
            Op::DropBase => {
                self.base_live = false;
                Out::Unit
            }
            Op::OffsetFrom(o) | Op::XOffsetFrom(o) => {
                let (os, _) = self.cur(*o);
                Out::U((s - os) as u128)
            }
            Op::OffsetId => {
                let mut v = vec![];
                if self.base_live {
                    v.push(Some(s));
                }
                for i in 0..self.slots.len() {
                    if let Some((os, oe)) = self.slots[i] {
                        v.push(if os <= s && s <= oe { Some(s - os) } else { None });
                    }
                }
                Out::Lookups(v)
            }
            Op::ToSlice => Out::Bytes(digest(&self.buf[s..e]), e - s),
            Op::ToString | Op::XToString => match std::str::from_utf8(&self.buf[s..e]) {
                Ok(t) => Out::Str(digest(t.as_bytes()), t.len()),
                Err(_) => Out::Err(E::Utf8),
            },
            Op::ToStringLossy | Op::XToStringLossy => {
                let t = String::from_utf8_lossy(&self.buf[s..e]);
                Out::Str(digest(t.as_bytes()), t.len())
            }
            Op::Range(a, b) => {
                new.push((s + a, s + b));
                Out::Sub(s + a, b - a)
            }
            Op::RangeFrom(a) => {
                new.push((s + a, e));
                Out::Sub(s + a, e - s - a)
            }
            Op::RangeTo(b) => {
                new.push((s, s + b));
                Out::Sub(s, *b)
            }
            Op::SplitAt(i) => {
                new.push((s, s + i));
                new.push((s + i, e));
                Out::Pair((s, *i), (s + i, e - s - i))
            }
            Op::Index(i) => Out::U(self.buf[s + i] as u128),
            Op::IndexFrom(i) => Out::Bytes(digest(&self.buf[s + i..e]), e - s - i),
            Op::Eq(o) => {
                let (os, oe) = self.cur(*o);
                Out::Bool(self.buf[s..e] == self.buf[os..oe])
            }
        };
        let after = if dropped { None } else { Some((s, e)) };
        self.slots[slot] = after;
        for n in &new {
            self.slots.push(Some(*n));
        }
        Step { slot, op, exp, after, new }
    }
}

// ---------------------------------------------------------------- generation

/// A length argument: mostly in range, sometimes just out of range, sometimes far out.
fn len_arg(r: &mut Rng, rem: usize) -> usize {
    match r.below(16) {
        0 => rem,
        1 => rem.wrapping_add(1),
        2 => rem.wrapping_add(1 + r.usize(9)),
        3 => *r.pick(&[usize::MAX, usize::MAX - 1, usize::MAX / 2 + 1, 1 << 32, 1 << 31, 0xffff_ffff, 4096, 65]),
        4 => 0,
        5 | 6 => r.usize(4),
        _ => r.usize(rem + 1),
    }
}

fn in_range(r: &mut Rng, rem: usize) -> usize {
    match r.below(6) {
        0 => 0,
        1 => rem,
        _ => r.usize(rem + 1),
    }
}

pub fn gen_buffer(r: &mut Rng) -> Vec<u8> {
    let len = match r.below(16) {
        0 => 4096,
        1 => 0,
        2 => 1 + r.usize(3),
        3 => 64,
        _ => r.usize(65),
    };
    let style = r.below(6);
    let mut b: Vec<u8> = Vec::with_capacity(len);
    while b.len() < len {
        match style {
            0 => b.push(r.next() as u8),
            // text with NULs
            1 => b.push(if r.chance(1, 6) { 0 } else { b'a' + r.below(26) as u8 }),
            // LEB-heavy
            2 => {
                let k = r.usize(11);
                for _ in 0..k {
                    b.push(0x80 | r.next() as u8);
                }
                b.push(r.next() as u8 & 0x7f);
            }
            // initial-length markers and small integers
            3 => match r.below(5) {
                0 => b.extend_from_slice(&[0xff; 4]),
                1 => b.extend_from_slice(&[0xf0 | r.below(16) as u8, 0xff, 0xff, 0xff]),
                2 => b.extend_from_slice(&[0xff, 0xff, 0xff, 0xf0 | r.below(16) as u8]),
                _ => b.push(r.below(12) as u8),
            },
            // valid UTF-8 with multi-byte sequences and NULs
            4 => {
                let c = *r.pick(&['a', 'é', '€', '𝄞', '\0', 'z', '0']);
                let mut t = [0u8; 4];
                b.extend_from_slice(c.encode_utf8(&mut t).as_bytes());
            }
            _ => b.push(*r.pick(&[0u8, 1, 2, 4, 8, 0x7f, 0x80, 0xff, 0x41])),
        }
    }
    b.truncate(len);
    b
}

/// One random operation for `slot`, resolved against the model state.
fn gen_op(r: &mut Rng, m: &Model, slot: usize) -> Op {
    let (s, e) = m.cur(slot);
    let rem = e - s;
    let live = m.live();
    // slots whose window contains this one (valid bases for offset_from)
    let containing: Vec<usize> = live.iter().copied().filter(|&o| {
        let (os, oe) = m.cur(o);
        os <= s && e <= oe
    }).collect();
    loop {
        let op = match r.below(64) {
            0 => Op::ReadU8,
            1 => Op::ReadI8,
            2 => Op::ReadU16,
            3 => Op::ReadI16,
            4 => Op::ReadU32,
            5 => Op::ReadI32,
            6 => Op::ReadU64,
            7 => Op::ReadI64,
            8 => Op::ReadU128,
            9 => Op::ReadF32,
            10 => Op::ReadF64,
            11 => Op::ReadUint(1 + r.usize(8)),
            12 => Op::ReadSlice(if r.chance(1, 4) { rem.min(80) + r.usize(3) } else { r.usize(rem.min(80) + 1) }),
            13 => Op::ReadArray3,
            14 | 15 => Op::Uleb,
            16 => Op::UlebU32,
            17 => Op::UlebU16,
            18 | 19 => Op::Sleb,
            20 => Op::SkipLeb,
            21 => Op::Address(if r.chance(1, 5) { r.next() as u8 } else { *r.pick(&[1u8, 2, 4, 8]) }),
            22 => Op::AddressSize,
            23 => Op::Offset(if r.bool() { Fmt::F32 } else { Fmt::F64 }),
            24 => Op::SizedOffset(if r.chance(1, 5) { r.next() as u8 } else { *r.pick(&[1u8, 2, 4, 8]) }),
            25 => Op::Word(if r.bool() { Fmt::F32 } else { Fmt::F64 }),
            26 => Op::Length(if r.bool() { Fmt::F32 } else { Fmt::F64 }),
            27 => Op::InitialLength,
            28 | 29 => Op::NullTerm,
            30 | 31 | 32 => Op::Skip(len_arg(r, rem)),
            33 | 34 | 35 => Op::Split(len_arg(r, rem)),
            36 | 37 => Op::Truncate(len_arg(r, rem)),
            38 => Op::Empty,
            39 => Op::Find(if r.bool() { 0 } else { r.next() as u8 }),
            40 => Op::Len,
            41 => Op::IsEmpty,
            42 | 43 | 44 => {
                if live.len() >= 24 {
                    continue;
                }
                Op::Clone
            }
            45 | 46 => Op::Drop,
            47 => {
                if !m.base_live || !r.chance(1, 3) {
                    continue;
                }
                Op::DropBase
            }
            48 => Op::OffsetFrom(*r.pick(&containing)),
            49 | 50 => Op::OffsetId,
            51 => Op::ToSlice,
            52 => Op::ToString,
            53 => Op::ToStringLossy,
            54 => {
                let a = in_range(r, rem);
                let b = a + in_range(r, rem - a);
                Op::Range(a, b)
            }
            55 => Op::RangeFrom(in_range(r, rem)),
            56 => Op::RangeTo(in_range(r, rem)),
            57 => Op::SplitAt(in_range(r, rem)),
            58 => Op::XFind(if r.bool() { 0 } else { r.next() as u8 }),
            59 => Op::XOffsetFrom(*r.pick(&containing)),
            60 => {
                if r.bool() {
                    Op::XToString
                } else {
                    Op::XToStringLossy
                }
            }
            61 => {
                if rem == 0 {
                    continue;
                }
                Op::Index(r.usize(rem))
            }
            62 => Op::IndexFrom(in_range(r, rem)),
            _ => Op::Eq(*r.pick(&live)),
        };
        // creating ops are limited so that the number of live readers stays small
        if live.len() >= 24 && matches!(op, Op::Split(_) | Op::NullTerm | Op::Range(..) | Op::RangeFrom(_) | Op::RangeTo(_) | Op::SplitAt(_)) {
            continue;
        }
        if !m.decidable(slot, &op) {
            return Op::SkipLeb;
        }
        return op;
    }
}

pub fn finish(m: &Model, r: &mut Rng, buf: Vec<u8>, le: bool, steps: Vec<Step>) -> History {
    let mut final_drops = m.live();
    r.shuffle(&mut final_drops);
    History { buf, le, steps, final_drops }
}

pub fn gen_random(r: &mut Rng, max_steps: usize, max_buf: usize) -> History {
    let mut buf = gen_buffer(r);
    buf.truncate(max_buf);
    let le = r.bool();
    let n = 1 + r.usize(max_steps.max(1));
    let mut steps = vec![];
    let (fin, _) = {
        let mut m = Model::new(&buf, le);
        for _ in 0..n {
            let live = m.live();
            if live.is_empty() {
                break;
            }
            // prefer recently created readers a little, so that sub-readers get used
            let slot = if r.chance(1, 3) { *live.last().unwrap() } else { *r.pick(&live) };
            let op = gen_op(r, &m, slot);
            steps.push(m.apply(slot, op));
        }
        let mut fd = m.live();
        r.shuffle(&mut fd);
        (fd, ())
    };
    History { buf, le, steps, final_drops: fin }
}

// ---------------------------------------------------------------- exhaustive alphabet

pub const ALPHABET: usize = 15;

pub const ALPHABET_NAMES: [&str; ALPHABET] = [
    "read_u8", "read_u16", "read_u64", "uleb", "sleb", "null_term", "skip(2)", "skip(len+1)", "split(3)", "truncate(4)", "empty", "clone+switch",
    "find(0)", "initial_length", "drop_oldest",
];

/// Buffers of the exhaustive enumeration (the last one depends on the seed).
pub fn exhaustive_buffers(r: &mut Rng) -> Vec<Vec<u8>> {
    vec![
        vec![],
        vec![0x80],
        vec![0x41, 0x00, 0xc3],
        vec![0x05, 0x00, 0x81, 0x01, 0xff, 0x7f, 0x00, 0x10],
        vec![0xff, 0xff, 0xff, 0xff, 0x01, 0x02, 0x03, 0x04, 0x05, 0x06, 0x07, 0x08, 0x00],
        r.bytes(24),
    ]
}

/// History number `idx` over the alphabet: lengths 1, 2, 3 in sequence.
pub fn exhaustive_count() -> u64 {
    let a = ALPHABET as u64;
    a + a * a + a * a * a
}

pub fn gen_exhaustive(idx: u64, buf: Vec<u8>, le: bool) -> History {
    let a = ALPHABET as u64;
    let (len, mut code) = if idx < a {
        (1, idx)
    } else if idx < a + a * a {
        (2, idx - a)
    } else {
        (3, idx - a - a * a)
    };
    let mut letters = vec![];
    for _ in 0..len {
        letters.push((code % a) as usize);
        code /= a;
    }
    let mut steps = vec![];
    let fd;
    {
        let mut m = Model::new(&buf, le);
        let mut cur = 0usize;
        for l in letters {
            let (s, e) = m.cur(cur);
            let rem = e - s;
            let op = match l {
                0 => Op::ReadU8,
                1 => Op::ReadU16,
                2 => Op::ReadU64,
                3 => Op::Uleb,
                4 => Op::Sleb,
                5 => Op::NullTerm,
                6 => Op::Skip(2),
                7 => Op::Skip(rem + 1),
                8 => Op::Split(3),
                9 => Op::Truncate(4),
                10 => Op::Empty,
                11 => Op::Clone,
                12 => Op::Find(0),
                13 => Op::InitialLength,
                _ => Op::Drop,
            };
            match op {
                Op::Clone => {
                    let st = m.apply(cur, Op::Clone);
                    steps.push(st);
                    cur = m.slots.len() - 1;
                }
                Op::Drop => {
                    // drop the oldest live reader (the original first); if it is the only
                    // one, clone it first so that the history can continue on the clone
                    if m.live().len() < 2 {
                        steps.push(m.apply(cur, Op::Clone));
                        cur = m.slots.len() - 1;
                    }
                    let oldest = m.live()[0];
                    steps.push(m.apply(oldest, Op::Drop));
                    if oldest == cur {
                        cur = m.live()[0];
                    }
                }
                op => {
                    let op = if m.decidable(cur, &op) { op } else { Op::SkipLeb };
                    steps.push(m.apply(cur, op));
                }
            }
        }
        // drop the remaining readers oldest first for even indices, newest first for odd
        let mut l = m.live();
        if idx % 2 == 1 {
            l.reverse();
        }
        fd = l;
    }
    History { buf, le, steps, final_drops: fd }
}

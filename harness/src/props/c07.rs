//! C07 — expression decoding and evaluation equal the DWARF stack machine.
//!
//! Clause 1 (decode): `Operation::parse` result and consumed length against
//! `model::expr::decode` for every opcode byte x 64 encodings x boundary operand tails,
//! truncated at every byte; `OperationIter` against the sequential model decode.
//! Clause 2 (evaluate): `Evaluation` driven through the documented resume protocol with a
//! scripted answer stream; compared with the reference stack machine on the request
//! sequence, the final pieces, `value_result`, the error kind, and the `max_iterations`
//! clause (completes iff the model needs <= N iterations; the number of operation decodes
//! observed through `gimli::verif::OP_PARSE_CALLS` never exceeds the model's count).

use crate::asm::Enc;
use crate::gen::expr as gen;
use crate::model::expr::{self as model, Ans, Caps, Config, DErr, End, Loc, MPiece, Op, Outcome, Ref, Req, Ty, Val};
use crate::props::PropInfo;
use crate::rt::{hex, mix64, Ctx, Rng};
use gimli::read::{EvaluationResult, EvaluationStorage, Location, Operation, Piece, Reader};
use gimli::{DieReference, EndianSlice, Evaluation, Expression, RunTimeEndian, StoreOnHeap, Value, ValueType};
use serde_json::{json, Value as J};

/// Local skips for genuine findings that are reported but not yet repaired: a run in
/// which the *model* flags such a situation (`Outcome::known`) has its mismatches counted
/// (`skipped_known.*`) instead of reported.  Nothing is skipped at present: the two
/// findings of this check (generic shift count not reduced modulo the address size;
/// convert of a negative signed integer to a float) are repaired in the tree and kept as
/// permanent regression cases in stream "regress".
const SKIP_KNOWN_FINDINGS: bool = false;

pub fn info() -> PropInfo {
    PropInfo {
        id: "C07",
        level: "exploration",
        rule: "decode: every opcode byte 0x00-0xff x all 64 encodings (endianness x format x version 2-5 x address size 1/2/4/8) x ~90 operand tails (LEB128 boundaries at 9/10 bytes, register 65535/65536, piece size 2^61, WASM kinds and u32 bounds, length-prefixed blocks that fit / overrun, fixed-width boundary words, random bytes), each truncated at every length, Operation::parse result + consumed length against the independent decoder; evaluate: every program of length <= 3 over a 48-item alphabet and of length 4 over a 20-item alphabet x 4 address sizes; an operand matrix (every binary/unary/shift/compare operation x generic at 4 address sizes and 10 base types x boundary operand pairs); seeded random programs of 1-40 snippets (typed operations, conversions, countdown loops, branches forward / backward / to end / past end / into an operand / before the start, calls with nested answer expressions and empty answers, entry values, every request kind, composite locations with every termination order) under heap and three array-backed storages, with iteration limits None, 0, I-1, I, I+1 and random, where I is the model's exact iteration count. The model is a reference stack machine with i128 arithmetic fed by the same scripted answers. A case is non-trivial when the model executes at least one operation (decode: at least the opcode byte is present); enumerated cases are distinct by construction, random cases are de-duplicated by (program, configuration, script) digest. The dbg profile runs slices of the enumerations.",
        assumptions: &[
            "generic values are compared modulo 2^(8*address_size); floats by bit pattern with all NaNs equal",
            "where several errors apply to one operation (e.g. shl with a float count and a float operand, deref_size too large on an empty stack) any of them is accepted; the pinned choice is compared as a secondary observation",
            "decode errors are compared by kind in operand order (the first operand that fails decides)",
            "LEB128 operands longer than 10 bytes are not generated on purpose; where they occur any outcome is accepted (C09 owns them)",
            "undefined results are secondary only: abs/neg of the minimum, float->integer conversions that do not fit, float division by zero, abs of -0.0/NaN, const_type with more data than the type size, a float register answer to breg with a negative offset, a negative typed value used as an address, a composite location that ends with a non-piece request operation (the pinned tree completes where a plain trailing operation gives InvalidPiece)",
            "payloads of errors (BadBranchTarget offset, InvalidExpressionTerminator offset) are not compared",
            "storage capacities of the custom storages are those declared by the harness ([Value; N] etc.); only success iff the model's need fits and StackFull otherwise are judged",
            "a program whose bytes contain, at any offset, a branch with a negative displacement or a call is never run without an iteration limit (the harness cannot interrupt the evaluator): 'no limit' is replaced by the model's budget of 400 iterations for those programs; programs that cannot loop are run with max_iterations unset",
            "only the documented protocol is used: evaluate() once, then exactly the resume_with_* matching each Requires*; nothing is called after an error",
        ],
        exhaustive_subspaces: &[
            "Operation::parse: 256 opcode bytes x 64 encodings x the tail catalogue x every truncation (rel; dbg: every encoding, a quarter of the tails)",
            "every program of length <= 3 over the 48-item alphabet x address sizes 1/2/4/8 (rel; dbg: 1/8 slice of the length-3 programs)",
            "every program of length 4 over the 20-item alphabet x address sizes 1/2/4/8 (rel; dbg: 1/16 slice)",
            "operand matrix: 17 binary + 4 unary operations x {generic x 4 address sizes, 10 base types} x all pairs of the per-width boundary set",
        ],
        must_observe: &[
            "decode.ok", "decode.err.UnexpectedEof", "decode.err.BadUnsignedLeb128", "decode.err.BadSignedLeb128", "decode.err.InvalidExpression", "decode.err.UnsupportedRegister",
            "decode.op.addr", "decode.op.deref", "decode.op.constu", "decode.op.consts", "decode.op.pick", "decode.op.drop", "decode.op.swap", "decode.op.rot", "decode.op.abs", "decode.op.and", "decode.op.div", "decode.op.minus", "decode.op.mod", "decode.op.mul", "decode.op.neg", "decode.op.not", "decode.op.or", "decode.op.plus", "decode.op.plus_uconst", "decode.op.shl", "decode.op.shr", "decode.op.shra", "decode.op.xor", "decode.op.bra", "decode.op.skip", "decode.op.eq", "decode.op.ge", "decode.op.gt", "decode.op.le", "decode.op.lt", "decode.op.ne", "decode.op.reg", "decode.op.breg", "decode.op.fbreg", "decode.op.piece", "decode.op.nop", "decode.op.push_object_address", "decode.op.call", "decode.op.variable_value", "decode.op.tls", "decode.op.cfa", "decode.op.implicit_value", "decode.op.stack_value", "decode.op.implicit_pointer", "decode.op.entry_value", "decode.op.parameter_ref", "decode.op.addrx", "decode.op.constx", "decode.op.const_type", "decode.op.convert", "decode.op.reinterpret", "decode.op.uninit", "decode.op.wasm_local", "decode.op.wasm_global", "decode.op.wasm_stack",
            "decode.implicit_pointer.v2", "decode.implicit_pointer.v3plus", "iter.ok", "iter.err",
            "exec.addr", "exec.deref", "exec.constu", "exec.consts", "exec.pick", "exec.drop", "exec.swap", "exec.rot", "exec.abs", "exec.and", "exec.div", "exec.minus", "exec.mod", "exec.mul", "exec.neg", "exec.not", "exec.or", "exec.plus", "exec.plus_uconst", "exec.shl", "exec.shr", "exec.shra", "exec.xor", "exec.bra", "exec.skip", "exec.eq", "exec.ge", "exec.gt", "exec.le", "exec.lt", "exec.ne", "exec.reg", "exec.breg", "exec.fbreg", "exec.piece", "exec.nop", "exec.push_object_address", "exec.call", "exec.variable_value", "exec.tls", "exec.cfa", "exec.implicit_value", "exec.stack_value", "exec.implicit_pointer", "exec.entry_value", "exec.parameter_ref", "exec.addrx", "exec.constx", "exec.const_type", "exec.convert", "exec.reinterpret", "exec.uninit", "exec.wasm_local", "exec.wasm_global", "exec.wasm_stack",
            "req.RequiresMemory", "req.RequiresRegister", "req.RequiresFrameBase", "req.RequiresTls", "req.RequiresCallFrameCfa", "req.RequiresAtLocation", "req.RequiresEntryValue", "req.RequiresParameterRef", "req.RequiresRelocatedAddress", "req.RequiresIndexedAddress", "req.RequiresBaseType", "req.RequiresWasmLocal", "req.RequiresWasmGlobal", "req.RequiresWasmStack",
            "answer.at_location.empty", "answer.at_location.nested", "answer.value.f32", "answer.value.f64", "answer.value.generic",
            "end.complete.value", "end.complete.pieces", "end.complete.single_location", "end.toomany",
            "err.NotEnoughStackItems", "err.StackFull", "err.TypeMismatch", "err.IntegralTypeRequired", "err.UnsupportedTypeOperation", "err.InvalidShiftExpression", "err.DivisionByZero", "err.BadBranchTarget", "err.InvalidPushObjectAddress", "err.UnsupportedEvaluation", "err.InvalidPiece", "err.InvalidExpressionTerminator", "err.InvalidDerefSize", "err.InvalidExpression", "err.UnexpectedEof", "err.UnsupportedRegister",
            "limit.none", "limit.zero", "limit.exact", "limit.minus1", "limit.plus1", "limit.toomany.decodes_checked",
            "storage.heap", "storage.tiny", "storage.small", "storage.mid", "storage.stackfull.values", "storage.stackfull.calls", "storage.stackfull.pieces",
            "piece.location.Empty", "piece.location.Register", "piece.location.Address", "piece.location.Value", "piece.location.Bytes", "piece.location.ImplicitPointer",
            "loop.backward_branch_taken", "call.returned", "hook.op_parse_calls",
            "matrix.generic", "matrix.typed", "short3", "short4", "random", "regress",
        ],
        run,
    }
}

type Rd<'a> = EndianSlice<'a, RunTimeEndian>;

// ---------------------------------------------------------------- storages

struct Tiny;
impl<R: Reader> EvaluationStorage<R> for Tiny {
    type Stack = [Value; 1];
    type ExpressionStack = [(R, R); 1];
    type Result = [Piece<R>; 1];
}
struct Small;
impl<R: Reader> EvaluationStorage<R> for Small {
    type Stack = [Value; 4];
    type ExpressionStack = [(R, R); 2];
    type Result = [Piece<R>; 2];
}
struct Mid;
impl<R: Reader> EvaluationStorage<R> for Mid {
    type Stack = [Value; 16];
    type ExpressionStack = [(R, R); 3];
    type Result = [Piece<R>; 4];
}
const CAPS_TINY: Caps = Caps { stack: 1, expr: 1, result: 1 };
const CAPS_SMALL: Caps = Caps { stack: 4, expr: 2, result: 2 };
const CAPS_MID: Caps = Caps { stack: 16, expr: 3, result: 4 };

// ---------------------------------------------------------------- conversions gimli -> model

fn conv_op(op: &Operation<Rd>) -> Op {
    let bytes = |r: &Rd| r.slice().to_vec();
    match op {
        Operation::Deref { base_type, size, space } => Op::Deref { size: *size, space: *space, base_type: base_type.0 as u64 },
        Operation::Drop => Op::Drop,
        Operation::Pick { index } => Op::Pick(*index),
        Operation::Swap => Op::Swap,
        Operation::Rot => Op::Rot,
        Operation::Abs => Op::Abs,
        Operation::And => Op::And,
        Operation::Div => Op::Div,
        Operation::Minus => Op::Minus,
        Operation::Mod => Op::Mod,
        Operation::Mul => Op::Mul,
        Operation::Neg => Op::Neg,
        Operation::Not => Op::Not,
        Operation::Or => Op::Or,
        Operation::Plus => Op::Plus,
        Operation::PlusConstant { value } => Op::PlusUconst(*value),
        Operation::Shl => Op::Shl,
        Operation::Shr => Op::Shr,
        Operation::Shra => Op::Shra,
        Operation::Xor => Op::Xor,
        Operation::Bra { target } => Op::Bra(*target),
        Operation::Eq => Op::Eq,
        Operation::Ge => Op::Ge,
        Operation::Gt => Op::Gt,
        Operation::Le => Op::Le,
        Operation::Lt => Op::Lt,
        Operation::Ne => Op::Ne,
        Operation::Skip { target } => Op::Skip(*target),
        Operation::UnsignedConstant { value } => Op::ConstU(*value),
        Operation::SignedConstant { value } => Op::ConstS(*value),
        Operation::Register { register } => Op::Reg(register.0),
        Operation::RegisterOffset { register, offset, base_type } => Op::Breg { reg: register.0, off: *offset, base_type: base_type.0 as u64 },
        Operation::FrameOffset { offset } => Op::Fbreg(*offset),
        Operation::Nop => Op::Nop,
        Operation::PushObjectAddress => Op::PushObjectAddress,
        Operation::Call { offset } => Op::Call(conv_ref(offset)),
        Operation::VariableValue { offset } => Op::VariableValue(offset.0 as u64),
        Operation::TLS => Op::Tls,
        Operation::CallFrameCFA => Op::Cfa,
        Operation::Piece { size_in_bits, bit_offset } => Op::Piece { bits: *size_in_bits, off: *bit_offset },
        Operation::ImplicitValue { data } => Op::ImplicitValue(bytes(data)),
        Operation::StackValue => Op::StackValue,
        Operation::ImplicitPointer { value, byte_offset } => Op::ImplicitPointer { value: value.0 as u64, off: *byte_offset },
        Operation::EntryValue { expression } => Op::EntryValue(bytes(expression)),
        Operation::ParameterRef { offset } => Op::ParameterRef(offset.0 as u64),
        Operation::Address { address } => Op::Addr(*address),
        Operation::AddressIndex { index } => Op::Addrx(index.0 as u64),
        Operation::ConstantIndex { index } => Op::Constx(index.0 as u64),
        Operation::TypedLiteral { base_type, value } => Op::ConstType { base_type: base_type.0 as u64, data: bytes(value) },
        Operation::Convert { base_type } => Op::Convert(base_type.0 as u64),
        Operation::Reinterpret { base_type } => Op::Reinterpret(base_type.0 as u64),
        Operation::Uninitialized => Op::Uninit,
        Operation::WasmLocal { index } => Op::WasmLocal(*index),
        Operation::WasmGlobal { index } => Op::WasmGlobal(*index),
        Operation::WasmStack { index } => Op::WasmStack(*index),
    }
}

fn conv_ref(r: &DieReference<usize>) -> Ref {
    match r {
        DieReference::UnitRef(o) => Ref::Unit(o.0 as u64),
        DieReference::DebugInfoRef(o) => Ref::Info(o.0 as u64),
    }
}

fn conv_req(r: &EvaluationResult<Rd>) -> Option<Req> {
    Some(match r {
        EvaluationResult::Complete => return None,
        EvaluationResult::RequiresMemory { address, size, space, base_type } => Req::Memory { address: *address, size: *size, space: *space, base_type: base_type.0 as u64 },
        EvaluationResult::RequiresRegister { register, base_type } => Req::Register { register: register.0, base_type: base_type.0 as u64 },
        EvaluationResult::RequiresWasmLocal { index } => Req::WasmLocal(*index),
        EvaluationResult::RequiresWasmGlobal { index } => Req::WasmGlobal(*index),
        EvaluationResult::RequiresWasmStack { index } => Req::WasmStack(*index),
        EvaluationResult::RequiresFrameBase => Req::FrameBase,
        EvaluationResult::RequiresTls(x) => Req::Tls(*x),
        EvaluationResult::RequiresCallFrameCfa => Req::Cfa,
        EvaluationResult::RequiresAtLocation(r) => Req::AtLocation(conv_ref(r)),
        EvaluationResult::RequiresEntryValue(e) => Req::EntryValue(e.0.slice().to_vec()),
        EvaluationResult::RequiresParameterRef(o) => Req::ParameterRef(o.0 as u64),
        EvaluationResult::RequiresRelocatedAddress(a) => Req::RelocatedAddress(*a),
        EvaluationResult::RequiresIndexedAddress { index, relocate } => Req::IndexedAddress { index: index.0 as u64, relocate: *relocate },
        EvaluationResult::RequiresBaseType(o) => Req::BaseType(o.0 as u64),
    })
}

fn g_type(t: Ty) -> ValueType {
    match t {
        Ty::Generic => ValueType::Generic,
        Ty::I8 => ValueType::I8,
        Ty::U8 => ValueType::U8,
        Ty::I16 => ValueType::I16,
        Ty::U16 => ValueType::U16,
        Ty::I32 => ValueType::I32,
        Ty::U32 => ValueType::U32,
        Ty::I64 => ValueType::I64,
        Ty::U64 => ValueType::U64,
        Ty::F32 => ValueType::F32,
        Ty::F64 => ValueType::F64,
    }
}

/// The gimli value for an answer `(type, raw bits)`; generic bits are passed unreduced.
fn g_value(t: Ty, raw: u64) -> Value {
    match t {
        Ty::Generic => Value::Generic(raw),
        Ty::I8 => Value::I8(raw as i8),
        Ty::U8 => Value::U8(raw as u8),
        Ty::I16 => Value::I16(raw as i16),
        Ty::U16 => Value::U16(raw as u16),
        Ty::I32 => Value::I32(raw as i32),
        Ty::U32 => Value::U32(raw as u32),
        Ty::I64 => Value::I64(raw as i64),
        Ty::U64 => Value::U64(raw),
        Ty::F32 => Value::F32(f32::from_bits(raw as u32)),
        Ty::F64 => Value::F64(f64::from_bits(raw)),
    }
}

/// Model view of a gimli value: generic reduced modulo the address size, NaNs canonical.
fn m_value(v: Value, addr: u8) -> Val {
    let x = match v {
        Value::Generic(x) => Val::new(Ty::Generic, x, addr),
        Value::I8(x) => Val::new(Ty::I8, x as u64, addr),
        Value::U8(x) => Val::new(Ty::U8, x as u64, addr),
        Value::I16(x) => Val::new(Ty::I16, x as u64, addr),
        Value::U16(x) => Val::new(Ty::U16, x as u64, addr),
        Value::I32(x) => Val::new(Ty::I32, x as u64, addr),
        Value::U32(x) => Val::new(Ty::U32, x as u64, addr),
        Value::I64(x) => Val::new(Ty::I64, x as u64, addr),
        Value::U64(x) => Val::new(Ty::U64, x, addr),
        Value::F32(x) => Val::new(Ty::F32, x.to_bits() as u64, addr),
        Value::F64(x) => Val::new(Ty::F64, x.to_bits(), addr),
    };
    x.canon()
}

fn m_piece(p: &Piece<Rd>, addr: u8) -> MPiece {
    MPiece {
        size_in_bits: p.size_in_bits,
        bit_offset: p.bit_offset,
        location: match &p.location {
            Location::Empty => Loc::Empty,
            Location::Register { register } => Loc::Register(register.0),
            Location::Address { address } => Loc::Address(*address),
            Location::Value { value } => Loc::Value(m_value(*value, addr)),
            Location::Bytes { value } => Loc::Bytes(value.slice().to_vec()),
            Location::ImplicitPointer { value, byte_offset } => Loc::ImplicitPointer { value: value.0 as u64, off: *byte_offset },
        },
    }
}

fn canon_piece(p: &MPiece) -> MPiece {
    let mut q = p.clone();
    if let Loc::Value(v) = q.location {
        q.location = Loc::Value(v.canon());
    }
    q
}

fn err_kind(e: &gimli::Error) -> String {
    let s = format!("{e:?}");
    s.split(|c| c == '(' || c == ' ' || c == '{').next().unwrap_or("").to_string()
}

// ---------------------------------------------------------------- driving gimli

#[derive(Debug, Clone, PartialEq)]
enum GEnd {
    Complete { pieces: Vec<MPiece>, value: Option<Val> },
    Error(String),
    /// more requests than the harness allows (never on the unchanged tree)
    Runaway,
}

#[derive(Debug, Clone)]
struct GOut {
    requests: Vec<(Req, Ans)>,
    end: GEnd,
    parse_calls: u64,
}

fn drive_in<'a, S: EvaluationStorage<Rd<'a>>>(code: &'a [u8], cfg: &Config, script: &'a gen::Script, max_requests: usize) -> GOut {
    let enc = cfg.enc;
    let endian = enc.endian();
    let before = gimli::verif::get(&gimli::verif::OP_PARSE_CALLS);
    let mut ev: Evaluation<Rd<'a>, S> = Evaluation::new_in(EndianSlice::new(code, endian), enc.encoding());
    if let Some(v) = cfg.initial {
        ev.set_initial_value(v);
    }
    if let Some(v) = cfg.object_address {
        ev.set_object_address(v);
    }
    if let Some(n) = cfg.max_iterations {
        ev.set_max_iterations(n);
    }
    let mut requests: Vec<(Req, Ans)> = vec![];
    let mut res = ev.evaluate();
    let end = loop {
        let cur = match res {
            Ok(c) => c,
            Err(e) => break GEnd::Error(err_kind(&e)),
        };
        let Some(req) = conv_req(&cur) else {
            let pieces: Vec<MPiece> = ev.as_result().iter().map(|p| m_piece(p, enc.addr)).collect();
            let value = ev.value_result().map(|v| m_value(v, enc.addr));
            break GEnd::Complete { pieces, value };
        };
        if requests.len() >= max_requests {
            break GEnd::Runaway;
        }
        let ans = script.answer(requests.len(), &req);
        requests.push((req, ans));
        res = match (cur, ans) {
            (EvaluationResult::RequiresMemory { .. }, Ans::Value(t, raw)) => ev.resume_with_memory(g_value(t, raw)),
            (EvaluationResult::RequiresRegister { .. }, Ans::Value(t, raw)) => ev.resume_with_register(g_value(t, raw)),
            (EvaluationResult::RequiresWasmLocal { .. }, Ans::Value(t, raw)) | (EvaluationResult::RequiresWasmGlobal { .. }, Ans::Value(t, raw)) | (EvaluationResult::RequiresWasmStack { .. }, Ans::Value(t, raw)) => ev.resume_with_wasm_value(g_value(t, raw)),
            (EvaluationResult::RequiresEntryValue(_), Ans::Value(t, raw)) => ev.resume_with_entry_value(g_value(t, raw)),
            (EvaluationResult::RequiresFrameBase, Ans::Word(w)) => ev.resume_with_frame_base(w),
            (EvaluationResult::RequiresTls(_), Ans::Word(w)) => ev.resume_with_tls(w),
            (EvaluationResult::RequiresCallFrameCfa, Ans::Word(w)) => ev.resume_with_call_frame_cfa(w),
            (EvaluationResult::RequiresParameterRef(_), Ans::Word(w)) => ev.resume_with_parameter_ref(w),
            (EvaluationResult::RequiresRelocatedAddress(_), Ans::Word(w)) => ev.resume_with_relocated_address(w),
            (EvaluationResult::RequiresIndexedAddress { .. }, Ans::Word(w)) => ev.resume_with_indexed_address(w),
            (EvaluationResult::RequiresAtLocation(_), Ans::Expr(i)) => {
                let b: &'a [u8] = script.pool.get(i).map(|v| &v[..]).unwrap_or(&[]);
                ev.resume_with_at_location(EndianSlice::new(b, endian))
            }
            (EvaluationResult::RequiresBaseType(_), Ans::Type(t)) => ev.resume_with_base_type(g_type(t)),
            _ => break GEnd::Error("<harness: answer kind does not match the request>".into()),
        };
    };
    let after = gimli::verif::get(&gimli::verif::OP_PARSE_CALLS);
    GOut { requests, end, parse_calls: after.wrapping_sub(before) }
}

fn drive(code: &[u8], cfg: &Config, script: &gen::Script, max_requests: usize) -> GOut {
    match cfg.caps {
        None => drive_in::<StoreOnHeap>(code, cfg, script, max_requests),
        Some(c) if c == CAPS_TINY => drive_in::<Tiny>(code, cfg, script, max_requests),
        Some(c) if c == CAPS_SMALL => drive_in::<Small>(code, cfg, script, max_requests),
        Some(c) if c == CAPS_MID => drive_in::<Mid>(code, cfg, script, max_requests),
        Some(_) => GOut { requests: vec![], end: GEnd::Error("<harness: unknown storage>".into()), parse_calls: 0 },
    }
}

// ---------------------------------------------------------------- comparison

fn cfg_json(cfg: &Config) -> J {
    json!({
        "enc": cfg.enc.label(),
        "initial_value": cfg.initial.map(|v| format!("{v:#x}")),
        "object_address": cfg.object_address.map(|v| format!("{v:#x}")),
        "max_iterations": cfg.max_iterations,
        "storage": cfg.caps.map(|c| format!("stack {} / calls {} / pieces {}", c.stack, c.expr, c.result)).unwrap_or("heap".into()),
    })
}

fn show_reqs(v: &[(Req, Ans)]) -> Vec<String> {
    v.iter().take(40).map(|(r, a)| format!("{r:?} <- {a:?}")).collect()
}

fn show_end(e: &End) -> String {
    match e {
        End::Complete { pieces, value } => format!("Complete pieces={:?} value={:?}", pieces, value.map(|v| v.show())),
        End::Error(e) => format!("Error one of {:?}", e.kinds),
        End::TooMany => "Error TooManyIterations".into(),
        End::Budget => "model budget exhausted".into(),
    }
}

/// Record coverage counters from the model outcome (never from gimli's answer).
fn observe(ctx: &mut Ctx, cfg: &Config, m: &Outcome, script: &gen::Script) {
    let mut seen: [bool; 64] = [false; 64];
    for n in &m.executed {
        // cheap de-duplication by first byte + length
        let h = (n.as_bytes()[0] as usize * 7 + n.len() * 13 + n.as_bytes()[n.len() - 1] as usize) % 64;
        if !seen[h] {
            seen[h] = true;
        }
        ctx.obs(&format!("exec.{n}"));
    }
    for (r, a) in &m.requests {
        ctx.obs(&format!("req.{}", r.kind()));
        match a {
            Ans::Expr(i) => {
                if script.pool.get(*i).map(|e| e.is_empty()).unwrap_or(true) {
                    ctx.obs("answer.at_location.empty");
                } else {
                    ctx.obs("answer.at_location.nested");
                }
            }
            Ans::Value(Ty::F32, _) => ctx.obs("answer.value.f32"),
            Ans::Value(Ty::F64, _) => ctx.obs("answer.value.f64"),
            Ans::Value(Ty::Generic, _) => ctx.obs("answer.value.generic"),
            _ => {}
        }
    }
    match &m.end {
        End::Complete { pieces, value } => {
            if value.is_some() {
                ctx.obs("end.complete.value");
            } else if pieces.len() == 1 && pieces[0].size_in_bits.is_none() {
                ctx.obs("end.complete.single_location");
            } else {
                ctx.obs("end.complete.pieces");
            }
            for p in pieces {
                ctx.obs(match p.location {
                    Loc::Empty => "piece.location.Empty",
                    Loc::Register(_) => "piece.location.Register",
                    Loc::Address(_) => "piece.location.Address",
                    Loc::Value(_) => "piece.location.Value",
                    Loc::Bytes(_) => "piece.location.Bytes",
                    Loc::ImplicitPointer { .. } => "piece.location.ImplicitPointer",
                });
            }
        }
        End::Error(e) => {
            ctx.obs(&format!("err.{}", e.kinds[0]));
            if let Some(c) = m.full_cause {
                ctx.obs(&format!("storage.stackfull.{c}"));
            }
        }
        End::TooMany => ctx.obs("end.toomany"),
        End::Budget => {}
    }
    ctx.obs(match cfg.caps {
        None => "storage.heap",
        Some(c) if c == CAPS_TINY => "storage.tiny",
        Some(c) if c == CAPS_SMALL => "storage.small",
        _ => "storage.mid",
    });
    if m.tainted.is_some() {
        ctx.obs("tainted_cases");
    }
}

/// Compare one gimli run with the model outcome.  Returns true when they agree.
fn compare(ctx: &mut Ctx, tag: &str, code: &[u8], cfg: &Config, script: &gen::Script, m: &Outcome, g: &GOut) -> bool {
    let input = || {
        json!({
            "program": hex(code),
            "config": cfg_json(cfg),
            "script_seed": script.seed,
            "answer_pool": script.pool.iter().map(|e| hex(e)).collect::<Vec<_>>(),
            "model": {"requests": show_reqs(&m.requests), "end": show_end(&m.end), "iterations": m.iterations, "decodes": m.decodes, "tainted": m.tainted, "executed": m.executed.iter().take(60).collect::<Vec<_>>()},
            "gimli": {"requests": show_reqs(&g.requests), "end": format!("{:?}", g.end), "parse_calls": g.parse_calls},
        })
    };
    let secondary = m.tainted.is_some();
    let known = if SKIP_KNOWN_FINDINGS { m.known } else { None };
    let mut ok = true;
    let mut fail = |ctx: &mut Ctx, sig: &str, what: String| {
        if secondary {
            ctx.obs(&format!("secondary.mismatch.{sig}"));
        } else if let Some(k) = known {
            ctx.obs(&format!("skipped_known.{k}"));
        } else {
            let full = format!("{tag}.{sig}");
            ctx.fail(&full, &format!("{full}: {what}"), &input);
        }
    };
    if matches!(g.end, GEnd::Runaway) {
        fail(ctx, "requests.runaway", format!("more than {} requests; the model has {}", g.requests.len(), m.requests.len()));
        return false;
    }
    // 1. request sequence (request + the answer given)
    let n = m.requests.len().min(g.requests.len());
    for i in 0..n {
        if m.requests[i].0 != g.requests[i].0 {
            fail(ctx, &format!("request.{}", m.requests[i].0.kind()), format!("request #{i}: expected {:?} observed {:?}", m.requests[i].0, g.requests[i].0));
            return false;
        }
    }
    if m.requests.len() != g.requests.len() {
        let what = if m.requests.len() > n { format!("missing request #{n}: {:?}", m.requests[n].0) } else { format!("unexpected request #{n}: {:?}", g.requests[n].0) };
        fail(ctx, "request.count", what);
        return false;
    }
    // 2. the end
    match (&m.end, &g.end) {
        (End::Complete { pieces, value }, GEnd::Complete { pieces: gp, value: gv }) => {
            let mp: Vec<MPiece> = pieces.iter().map(canon_piece).collect();
            if &mp != gp {
                fail(ctx, "result.pieces", format!("expected {:?} observed {:?}", mp, gp));
                ok = false;
            }
            let mv = value.map(|v| v.canon());
            if &mv != gv {
                fail(ctx, "result.value_result", format!("expected {:?} observed {:?}", mv.map(|v| v.show()), gv.map(|v| v.show())));
                ok = false;
            }
        }
        (End::Error(e), GEnd::Error(k)) => {
            let any = e.kinds.contains(&"<overlong>");
            if !any && !e.kinds.iter().any(|x| x == k) {
                fail(ctx, &format!("error.{}", e.kinds[0]), format!("expected one of {:?} observed {k}", e.kinds));
                ok = false;
            } else if !any && e.kinds[0] != k {
                ctx.obs("secondary.mismatch.error_choice");
            }
        }
        (End::TooMany, GEnd::Error(k)) if k == "TooManyIterations" => {}
        (End::TooMany, other) => {
            fail(ctx, "iterations.limit_not_enforced", format!("the model needs more than {:?} iterations; observed {:?}", cfg.max_iterations, other));
            ok = false;
        }
        (End::Complete { .. }, GEnd::Error(k)) if k == "TooManyIterations" => {
            fail(ctx, "iterations.limit_too_early", format!("the model completes in {} iterations with limit {:?}; observed TooManyIterations", m.iterations, cfg.max_iterations));
            ok = false;
        }
        (End::Error(_), GEnd::Error(k)) if k == "TooManyIterations" => unreachable!(),
        (End::Complete { .. }, GEnd::Error(k)) => {
            fail(ctx, "result.unexpected_error", format!("expected {} observed error {k}", show_end(&m.end)));
            ok = false;
        }
        (End::Error(e), GEnd::Complete { .. }) => {
            fail(ctx, &format!("error.missing.{}", e.kinds[0]), format!("expected {} observed {:?}", show_end(&m.end), g.end));
            ok = false;
        }
        (End::Budget, _) | (_, GEnd::Runaway) => {}
    }
    // 3. decodes: one per iteration plus at most one after a location-completing operation
    if ok && !matches!(m.end, End::Budget) {
        ctx.obs("hook.op_parse_calls");
        if g.parse_calls > m.decodes {
            fail(ctx, "iterations.decode_bound", format!("{} operation decodes; the model allows {} ({} iterations)", g.parse_calls, m.decodes, m.iterations));
            ok = false;
        } else if g.parse_calls != m.decodes {
            ctx.obs("secondary.mismatch.decode_count");
        }
        if matches!(m.end, End::TooMany) {
            ctx.obs("limit.toomany.decodes_checked");
        }
    }
    ok
}

/// Could evaluation of these bytes ever go backwards or call?  Conservative: looks at every
/// byte offset, decoded as an operation or not.
fn may_loop(code: &[u8], pool: &[Vec<u8>]) -> bool {
    let scan = |b: &[u8]| {
        b.iter().enumerate().any(|(i, &o)| match o {
            0x98 | 0x99 | 0x9a => true,
            0x28 | 0x2f => i + 2 < b.len() && (b[i + 1] & 0x80 != 0 || b[i + 2] & 0x80 != 0),
            _ => false,
        })
    };
    scan(code) || pool.iter().any(|e| scan(e))
}

/// Run model + gimli for one configuration and compare.
fn one_case(ctx: &mut Ctx, tag: &str, code: &[u8], cfg: &Config, script: &gen::Script) -> Option<Outcome> {
    // The evaluator cannot be interrupted: a program that could loop (it contains, at any
    // byte offset, a branch with a negative displacement or a call) is never run without
    // an iteration limit, so that a divergence from the model shows up as a mismatch and
    // not as a hang of the harness.
    let limited;
    let cfg = if cfg.max_iterations.is_none() && may_loop(code, &script.pool) {
        let mut c = cfg.clone();
        c.max_iterations = Some(c.budget as u32);
        limited = c;
        ctx.obs("limit.safety_net");
        &limited
    } else {
        cfg
    };
    let mut f = |i: usize, r: &Req| script.answer(i, r);
    let m = model::evaluate(code, cfg, &script.pool, &mut f);
    if matches!(m.end, End::Budget) {
        // without a limit the evaluator may legitimately run for ever: not executed
        ctx.obs("model.budget_exhausted");
        return Some(m);
    }
    ctx.eval();
    observe(ctx, cfg, &m, script);
    let max_req = m.requests.len() + 4;
    let g = ctx.guard_raw("Evaluation", || drive(code, cfg, script, max_req));
    match g {
        Ok(g) => {
            compare(ctx, tag, code, cfg, script, &m, &g);
        }
        Err(p) => {
            let input = || json!({"program": hex(code), "config": cfg_json(cfg), "script_seed": script.seed, "answer_pool": script.pool.iter().map(|e| hex(e)).collect::<Vec<_>>(), "model_end": show_end(&m.end)});
            ctx.report_panic2("Evaluation", &format!("{tag}: Evaluation"), &p, &input);
        }
    }
    Some(m)
}

// ---------------------------------------------------------------- clause 1: decode

fn gimli_parse(b: &[u8], enc: Enc) -> (Result<Op, String>, usize) {
    let mut r = EndianSlice::new(b, enc.endian());
    let res = Operation::parse(&mut r, enc.encoding());
    let consumed = b.len() - r.len();
    (res.map(|op| conv_op(&op)).map_err(|e| err_kind(&e)), consumed)
}

fn check_decode(ctx: &mut Ctx, tag: &str, b: &[u8], enc: Enc) {
    ctx.eval();
    let m = model::decode(b, enc);
    let (g, consumed) = gimli_parse(b, enc);
    let input = || json!({"bytes": hex(b), "enc": enc.label(), "model": format!("{m:?}")});
    match &m {
        Ok((op, n)) => {
            ctx.obs("decode.ok");
            ctx.obs(&format!("decode.op.{}", op.name()));
            if let Op::ImplicitPointer { .. } = op {
                ctx.obs(if enc.version == 2 { "decode.implicit_pointer.v2" } else { "decode.implicit_pointer.v3plus" });
            }
            match &g {
                Ok(gop) => {
                    if gop != op {
                        ctx.check_eq(&format!("{tag}.Operation::parse.{}", op.name()), &format!("{op:?}"), &format!("{gop:?}"), &input);
                    } else if consumed != *n {
                        ctx.check_eq(&format!("{tag}.Operation::parse.consumed.{}", op.name()), n, &consumed, &input);
                    }
                }
                Err(k) => {
                    ctx.check_eq(&format!("{tag}.Operation::parse.{}", op.name()), &format!("Ok({op:?})"), &format!("Err({k})"), &input);
                }
            }
        }
        Err(DErr::Overlong) => {
            ctx.obs("decode.overlong_leb");
        }
        Err(e) => {
            let kinds = model::derr_kinds(*e);
            ctx.obs(&format!("decode.err.{}", kinds[0]));
            match &g {
                Ok(gop) => {
                    ctx.check_eq(&format!("{tag}.Operation::parse.err.{}", kinds[0]), &format!("Err({})", kinds[0]), &format!("Ok({gop:?})"), &input);
                }
                Err(k) => {
                    if k != kinds[0] {
                        ctx.check_eq(&format!("{tag}.Operation::parse.err.{}", kinds[0]), &kinds[0].to_string(), k, &input);
                    }
                }
            }
        }
    }
}

fn decode_catalogue(ctx: &mut Ctx) {
    let encs = Enc::all();
    let dbg = ctx.dbg() || ctx.slow();
    for opcode in 0..256u64 {
        for (ei, enc) in encs.iter().enumerate() {
            let idx = opcode * 64 + ei as u64;
            if !ctx.want("decode", idx) {
                continue;
            }
            // the tails are the same for every shard and opcode of one encoding
            let mut r = ctx.rng("decode.tails", ei as u64);
            let tails = gen::decode_tails(*enc, &mut r);
            let enc = *enc;
            let res = crate::rt::capture(|| {
                let mut n = 0u64;
                for (ti, t) in tails.iter().enumerate() {
                    if dbg && (ti as u64 + idx) % 4 != 0 {
                        continue;
                    }
                    let mut b = vec![opcode as u8];
                    b.extend_from_slice(t);
                    for cut in (1..=b.len()).rev() {
                        check_decode(ctx, "decode", &b[..cut], enc);
                        n += 1;
                    }
                }
                n
            });
            match res {
                Ok(n) => ctx.counted_distinct += n,
                Err(p) => ctx.report_panic("Operation::parse", &p, &|| json!({"opcode": opcode, "enc": enc.label()})),
            }
            if opcode == 0x92 && ei == 5 {
                let b = [0x92u8, 0xff, 0xff, 0x03, 0x7f];
                ctx.sample("decode", || json!({"bytes": hex(&b), "enc": enc.label(), "Operation::parse": format!("{:?}", gimli_parse(&b, enc)), "model": format!("{:?}", model::decode(&b, enc))}));
            }
        }
    }
    // the empty input
    if ctx.want("decode.empty", 0) {
        check_decode(ctx, "decode", &[], Enc::nth(0));
    }
}

/// `OperationIter` yields exactly the sequential decode and stops after the first error.
fn check_iter(ctx: &mut Ctx, tag: &str, code: &[u8], enc: Enc) {
    let (ops, stop) = model::decode_all(code, enc);
    if stop == Some(DErr::Overlong) {
        return;
    }
    let res = crate::rt::capture(|| {
        let e = Expression(EndianSlice::new(code, enc.endian()));
        let mut it = e.operations(enc.encoding());
        let mut got: Vec<(usize, Op)> = vec![];
        let mut gerr = None;
        let mut after_err_none = true;
        loop {
            let off = it.offset_from(&e);
            match it.next() {
                Ok(Some(op)) => got.push((off, conv_op(&op))),
                Ok(None) => break,
                Err(e) => {
                    gerr = Some(err_kind(&e));
                    // after an error the iterator is finished
                    after_err_none = matches!(it.next(), Ok(None));
                    break;
                }
            }
            if got.len() > code.len() + 1 {
                break;
            }
        }
        (got, gerr, after_err_none)
    });
    let input = || json!({"program": hex(code), "enc": enc.label()});
    match res {
        Ok((got, gerr, after)) => {
            ctx.eval();
            ctx.obs(if stop.is_some() { "iter.err" } else { "iter.ok" });
            if got != ops {
                ctx.check_eq(&format!("{tag}.OperationIter.operations"), &format!("{ops:?}"), &format!("{got:?}"), &input);
            }
            let want = stop.map(|e| model::derr_kinds(e)[0].to_string());
            if want != gerr {
                ctx.check_eq(&format!("{tag}.OperationIter.error"), &want, &gerr, &input);
            }
            if !after {
                ctx.fail(&format!("{tag}.OperationIter.after_error"), "OperationIter::next does not return Ok(None) after an error", &input);
            }
        }
        Err(p) => ctx.report_panic2("OperationIter", &format!("{tag}: OperationIter"), &p, &input),
    }
}

// ---------------------------------------------------------------- clause 2: workloads

fn plain_script(seed: u64) -> gen::Script {
    gen::Script { seed, pool: vec![vec![]], hostile16: 0 }
}

fn base_cfg(enc: Enc) -> Config {
    Config { enc, initial: None, object_address: None, max_iterations: None, caps: None, budget: 400 }
}

fn enc_for(addr: u8, salt: u64) -> Enc {
    Enc { le: salt & 1 == 0, fmt64: salt & 2 != 0, version: 2 + ((salt >> 2) & 3) as u16, addr }
}

/// Every program of length <= 3 over the main alphabet x the four address sizes.
fn short_programs(ctx: &mut Ctx) {
    let k = gen::alphabet46(Enc::nth(0)).len() as u64;
    let dbg = ctx.dbg() || ctx.slow();
    let slice = ctx.seed % 8;
    for a in 0..k {
        for b in 0..k {
            let idx = a * k + b;
            if !ctx.want("short3", idx) {
                continue;
            }
            let mut n = 0u64;
            for addr in [1u8, 2, 4, 8] {
                let enc = enc_for(addr, idx);
                let al = gen::alphabet46(enc);
                let script = plain_script(idx);
                let mut progs: Vec<Vec<u8>> = vec![];
                if b == 0 {
                    progs.push(al[a as usize].1.clone());
                }
                let mut p2 = al[a as usize].1.clone();
                p2.extend_from_slice(&al[b as usize].1);
                progs.push(p2.clone());
                for c in 0..k {
                    if dbg && (idx + c) % 8 != slice {
                        continue;
                    }
                    let mut p3 = p2.clone();
                    p3.extend_from_slice(&al[c as usize].1);
                    progs.push(p3);
                }
                for (pi, code) in progs.iter().enumerate() {
                    let cfg = base_cfg(enc);
                    let Some(m) = one_case(ctx, "short", code, &cfg, &script) else { continue };
                    ctx.obs("short3");
                    if m.iterations >= 1 {
                        n += 1;
                    }
                    // the iteration limit around the exact count, and a one-slot storage
                    if pi % 2 == 0 && m.iterations >= 1 && !matches!(m.end, End::Budget) {
                        let mut c2 = cfg.clone();
                        c2.max_iterations = Some((m.iterations - 1) as u32);
                        one_case(ctx, "short", code, &c2, &script);
                        ctx.obs("limit.minus1");
                        let mut c3 = cfg.clone();
                        c3.max_iterations = Some(m.iterations as u32);
                        one_case(ctx, "short", code, &c3, &script);
                        ctx.obs("limit.exact");
                    }
                    if pi % 3 == 0 {
                        let mut c4 = cfg.clone();
                        c4.caps = Some(CAPS_TINY);
                        one_case(ctx, "short", code, &c4, &script);
                    }
                }
            }
            ctx.counted_distinct += n;
            if idx == 0x1f * k + 3 {
                ctx.sample("short", || json!({"note": "block of all programs a,b,c with fixed a,b", "a": idx / k, "b": idx % k, "programs_with_at_least_one_iteration": n}));
            }
        }
    }
}

/// Every program of length 4 over the 20-item alphabet x the four address sizes.
fn short4_programs(ctx: &mut Ctx) {
    let dbg = ctx.dbg() || ctx.slow();
    let slice = ctx.seed % 16;
    for a in 0..20u64 {
        for b in 0..20u64 {
            let idx = a * 20 + b;
            if !ctx.want("short4", idx) {
                continue;
            }
            let mut n = 0u64;
            for addr in [1u8, 2, 4, 8] {
                let enc = enc_for(addr, idx + 1);
                let al = gen::alphabet20(enc);
                let script = plain_script(idx);
                for c in 0..20usize {
                    for d in 0..20usize {
                        if dbg && (idx + (c * 20 + d) as u64) % 16 != slice {
                            continue;
                        }
                        let mut code = al[a as usize].1.clone();
                        code.extend_from_slice(&al[b as usize].1);
                        code.extend_from_slice(&al[c].1);
                        code.extend_from_slice(&al[d].1);
                        let cfg = base_cfg(enc);
                        if let Some(m) = one_case(ctx, "short4", &code, &cfg, &script) {
                            ctx.obs("short4");
                            if m.iterations >= 1 {
                                n += 1;
                            }
                        }
                    }
                }
            }
            ctx.counted_distinct += n;
        }
    }
}

/// Boundary values of a width-`w` integer.
fn boundary_set(w: u32) -> Vec<u64> {
    let mask = model::width_mask(w);
    let mut v = vec![0, 1, 2, 3, 7, mask, mask - 1, mask >> 1, (mask >> 1) + 1, (mask >> 1) + 2, w as u64 - 1, w as u64, w as u64 + 1, 0x55 & mask, 64 & mask];
    v.sort();
    v.dedup();
    v
}

fn typed_literal(enc: Enc, t: Ty, bits: u64, r: &mut Rng) -> Vec<u8> {
    let n = (t.bits(enc.addr) / 8) as usize;
    let base = gen::base_of_type(t, r);
    gen::enc_op(enc, |a| {
        a.u8(0xa4).uleb(base).u8(n as u8).uint(n, bits);
    })
}

/// Operand matrix: every binary / unary operation x types x boundary operand pairs.
fn operand_matrix(ctx: &mut Ctx) {
    const BIN: &[u8] = &[0x1a, 0x1b, 0x1c, 0x1d, 0x1e, 0x21, 0x22, 0x24, 0x25, 0x26, 0x27, 0x29, 0x2a, 0x2b, 0x2c, 0x2d, 0x2e];
    const UN: &[u8] = &[0x19, 0x1f, 0x20, 0x23];
    // generic: 4 address sizes; typed: 10 types.  index = kind * 32 + op index
    let mut kinds: Vec<(Ty, u8)> = vec![(Ty::Generic, 1), (Ty::Generic, 2), (Ty::Generic, 4), (Ty::Generic, 8)];
    for t in &model::ALL_TYPES[1..] {
        kinds.push((*t, 0));
    }
    for (ki, (t, gaddr)) in kinds.iter().enumerate() {
        for (oi, opc) in BIN.iter().chain(UN.iter()).enumerate() {
            let idx = ki as u64 * 32 + oi as u64;
            if !ctx.want("matrix", idx) {
                continue;
            }
            let mut r = ctx.rng("matrix", idx);
            let addr = if *gaddr != 0 { *gaddr } else { *r.pick(&[1u8, 2, 4, 8]) };
            let enc = enc_for(addr, idx);
            let script = plain_script(idx);
            let w = t.bits(addr);
            let vals: Vec<u64> = if t.is_float() {
                if *t == Ty::F32 {
                    gen::FLOATS32.iter().map(|f| f.to_bits() as u64).collect()
                } else {
                    gen::FLOATS64.iter().map(|f| f.to_bits()).collect()
                }
            } else {
                let mut v = boundary_set(w);
                if *t == Ty::Generic && addr < 8 {
                    // wider than the address: must behave as the reduced value
                    v.push((1u64 << w) + 1);
                    v.push(u64::MAX - 1);
                }
                v
            };
            let unary = oi >= BIN.len();
            let mut n = 0u64;
            let mut push = |r: &mut Rng, x: u64| -> Vec<u8> {
                if *t == Ty::Generic {
                    gen::enc_op(enc, |a| {
                        a.u8(0x0e).u64(x);
                    })
                } else {
                    typed_literal(enc, *t, x, r)
                }
            };
            for &x in &vals {
                let ys: Vec<u64> = if unary { vec![0] } else { vals.clone() };
                for &y in &ys {
                    let mut code = push(&mut r, x);
                    if unary {
                        code.push(*opc);
                        if *opc == 0x23 {
                            code.extend(crate::asm::uleb_bytes(*r.pick(&vals) & if t.is_float() { 0xffff } else { u64::MAX }));
                        }
                    } else {
                        // shifts: the count may be generic as well as typed
                        let generic_count = matches!(*opc, 0x24 | 0x25 | 0x26) && *t != Ty::Generic && (x ^ y) & 1 == 0 && !t.is_float();
                        if generic_count {
                            code.extend(gen::enc_op(enc, |a| {
                                a.u8(0x10).uleb(y);
                            }));
                        } else {
                            code.extend(push(&mut r, y));
                        }
                        code.push(*opc);
                    }
                    // keep a typed result observable
                    code.push(0x9f);
                    let cfg = base_cfg(enc);
                    one_case(ctx, "matrix", &code, &cfg, &script);
                    n += 1;
                    ctx.obs(if *t == Ty::Generic { "matrix.generic" } else { "matrix.typed" });
                }
            }
            ctx.counted_distinct += n;
            if ki == 2 && *opc == 0x26 {
                ctx.sample("matrix", || json!({"type": t.name(), "address_size": addr, "operation": "shra", "operand_values": vals.len(), "cases": n}));
            }
        }
    }
}

/// Did the model take a backward branch / return from a call?  (coverage only)
fn flow_observations(ctx: &mut Ctx, m: &Outcome) {
    if m.backward > 0 {
        ctx.obs("loop.backward_branch_taken");
    }
    if m.returns > 0 {
        ctx.obs("call.returned");
    }
}

fn random_programs(ctx: &mut Ctx) {
    let n = ctx.size(48_000, 600_000, 8);
    for i in 0..n {
        if !ctx.want("random", i) {
            continue;
        }
        let mut r = ctx.rng("random", i);
        let enc = Enc::random(&mut r);
        let size = match r.below(10) {
            0 => 1,
            1..=5 => 2 + r.usize(6),
            6..=8 => 6 + r.usize(12),
            _ => 15 + r.usize(25),
        };
        let code = gen::random_program(enc, &mut r, size, 2);
        let mut pool: Vec<Vec<u8>> = vec![vec![]];
        for _ in 0..3 {
            let sz = 1 + r.usize(4);
            pool.push(gen::random_program(enc, &mut r, sz, 1));
        }
        let script = gen::Script { seed: r.next(), pool, hostile16: if r.chance(1, 4) { 3 } else { 0 } };
        let mut cfg = base_cfg(enc);
        if r.chance(1, 4) {
            cfg.initial = Some(r.boundary());
        }
        if r.chance(2, 3) {
            cfg.object_address = Some(r.boundary());
        }
        cfg.caps = match r.below(10) {
            0 => Some(CAPS_TINY),
            1 | 2 => Some(CAPS_SMALL),
            3 | 4 => Some(CAPS_MID),
            _ => None,
        };
        ctx.obs("random");
        check_iter(ctx, "random", &code, enc);
        // unlimited run first: gives the exact iteration count I
        let Some(m) = one_case(ctx, "random", &code, &cfg, &script) else { continue };
        flow_observations(ctx, &m);
        let exhausted = matches!(m.end, End::Budget);
        if !exhausted && !may_loop(&code, &script.pool) {
            ctx.obs("limit.none");
        }
        if m.iterations >= 1 {
            let mut key = code.clone();
            key.extend_from_slice(&script.seed.to_le_bytes());
            key.extend_from_slice(cfg_json(&cfg).to_string().as_bytes());
            ctx.nontrivial_bytes("random", &key);
        }
        // iteration limits around I
        let iters = m.iterations;
        let mut limits: Vec<(u32, &str)> = vec![];
        if exhausted {
            limits.push((r.below(cfg.budget) as u32, "limit.random"));
            limits.push((cfg.budget as u32, "limit.random"));
            limits.push((0, "limit.zero"));
        } else {
            match r.below(4) {
                0 => {}
                _ => {
                    limits.push((iters as u32, "limit.exact"));
                    if iters >= 1 {
                        limits.push((iters as u32 - 1, "limit.minus1"));
                    }
                    limits.push((iters as u32 + 1, "limit.plus1"));
                    if iters >= 2 && r.bool() {
                        limits.push((r.below(iters) as u32, "limit.random"));
                    }
                    if r.chance(1, 3) {
                        limits.push((0, "limit.zero"));
                    }
                    if r.chance(1, 8) {
                        // the whole range 0..=I+1
                        for l in 0..=(iters + 1).min(24) {
                            limits.push((l as u32, "limit.sweep"));
                        }
                    }
                }
            }
        }
        for (l, key) in limits {
            let mut c = cfg.clone();
            c.max_iterations = Some(l);
            one_case(ctx, "random", &code, &c, &script);
            ctx.obs(key);
        }
        if i % 4001 == 7 {
            ctx.sample("random", || {
                json!({"program": hex(&code), "config": cfg_json(&cfg), "model_end": show_end(&m.end), "model_requests": show_reqs(&m.requests), "iterations": m.iterations, "decodes": m.decodes,
                       // never re-run a program that may loop without a limit (the sample is taken from
                       // the unlimited configuration)
                       "gimli_end": if may_loop(&code, &script.pool) { "(agreed with the model; not re-run for the sample)".to_string() } else { format!("{:?}", crate::rt::capture(|| drive(&code, &cfg, &script, m.requests.len() + 4)).map(|g| g.end).ok()) }})
            });
        }
    }
}

/// Hand-written witnesses: one per clause that is easy to get wrong, kept as permanent
/// regressions (each is also reachable by the generators).
fn witnesses(ctx: &mut Ctx) {
    struct W {
        name: &'static str,
        addr: u8,
        code: Vec<u8>,
        limit: Option<u32>,
        caps: Option<Caps>,
    }
    // every call is answered with this expression (a callee that calls again)
    let recursive_pool = vec![vec![0x98u8, 0x05, 0x00]];
    let le = |v: Vec<u8>| v;
    let ws = vec![
        // branch exactly to the end is allowed
        W { name: "skip to end", addr: 4, code: le(vec![0x31, 0x2f, 0x01, 0x00, 0x32]), limit: None, caps: None },
        W { name: "skip one past end", addr: 4, code: le(vec![0x31, 0x2f, 0x02, 0x00, 0x32]), limit: None, caps: None },
        // rot: 1 2 3 -> 3 1 2 ; then pick each
        W { name: "rot order", addr: 8, code: vec![0x31, 0x32, 0x33, 0x17, 0x9f], limit: None, caps: None },
        W { name: "rot order second", addr: 8, code: vec![0x31, 0x32, 0x33, 0x17, 0x13, 0x9f], limit: None, caps: None },
        W { name: "rot order third", addr: 8, code: vec![0x31, 0x32, 0x33, 0x17, 0x13, 0x13, 0x9f], limit: None, caps: None },
        // shra by >= width on a 2-byte target: const2u 0x8000; lit16; shra
        W { name: "shra by width (2-byte)", addr: 2, code: vec![0x0a, 0x00, 0x80, 0x40, 0x26], limit: None, caps: None },
        W { name: "shra by 63 (2-byte)", addr: 2, code: vec![0x0a, 0x00, 0x80, 0x08, 63, 0x26], limit: None, caps: None },
        // mod is unsigned on generic values: 0xfffe mod 5 (2-byte)
        W { name: "generic mod unsigned", addr: 2, code: vec![0x0a, 0xfe, 0xff, 0x35, 0x1d], limit: None, caps: None },
        // div of the minimum by -1
        W { name: "div min by -1", addr: 4, code: vec![0x0c, 0x00, 0x00, 0x00, 0x80, 0x11, 0x7f, 0x1b], limit: None, caps: None },
        // const2s is signed
        W { name: "const2s sign", addr: 8, code: vec![0x0b, 0xfe, 0xff, 0x9f], limit: None, caps: None },
        // iteration limits: three operations
        W { name: "limit 2 of 3", addr: 4, code: vec![0x31, 0x31, 0x22], limit: Some(2), caps: None },
        W { name: "limit 3 of 3", addr: 4, code: vec![0x31, 0x31, 0x22], limit: Some(3), caps: None },
        W { name: "limit 0", addr: 4, code: vec![0x31], limit: Some(0), caps: None },
        W { name: "limit 0 empty program", addr: 4, code: vec![], limit: Some(0), caps: None },
        // a location + piece is one iteration and two decodes
        W { name: "reg piece reg piece, limit 2", addr: 4, code: vec![0x50, 0x93, 0x04, 0x51, 0x93, 0x04], limit: Some(2), caps: None },
        W { name: "reg piece reg piece, limit 1", addr: 4, code: vec![0x50, 0x93, 0x04, 0x51, 0x93, 0x04], limit: Some(1), caps: None },
        W { name: "infinite loop, limit 50", addr: 4, code: vec![0x2f, 0xfd, 0xff], limit: Some(50), caps: None },
        // storage
        W { name: "five values in four slots", addr: 4, code: vec![0x31, 0x31, 0x31, 0x31, 0x31], limit: None, caps: Some(CAPS_SMALL) },
        W { name: "four values in four slots", addr: 4, code: vec![0x31, 0x31, 0x31, 0x31], limit: None, caps: Some(CAPS_SMALL) },
        W { name: "three pieces in two slots", addr: 4, code: vec![0x50, 0x93, 0x01, 0x51, 0x93, 0x01, 0x52, 0x93, 0x01], limit: None, caps: Some(CAPS_SMALL) },
        W { name: "two pieces in two slots", addr: 4, code: vec![0x50, 0x93, 0x01, 0x51, 0x93, 0x01], limit: None, caps: Some(CAPS_SMALL) },
        // recursion (see recursive_pool): call depth against the expression-stack capacity
        W { name: "recursive call, one frame", addr: 4, code: vec![0x98, 0x01, 0x00], limit: None, caps: Some(CAPS_TINY) },
        W { name: "recursive call, two frames", addr: 4, code: vec![0x98, 0x01, 0x00], limit: None, caps: Some(CAPS_SMALL) },
        W { name: "recursive call, three frames", addr: 4, code: vec![0x98, 0x01, 0x00], limit: None, caps: Some(CAPS_MID) },
        W { name: "recursive call, heap, limit 40", addr: 4, code: vec![0x98, 0x01, 0x00], limit: Some(40), caps: None },
        // unsupported operations and operand errors met during evaluation
        W { name: "GNU_uninit", addr: 4, code: vec![0x31, 0xf0], limit: None, caps: None },
        W { name: "GNU_variable_value", addr: 4, code: vec![0xfd, 0x01, 0x00, 0x00, 0x00], limit: None, caps: None },
        W { name: "constu that does not fit", addr: 8, code: vec![0x10, 0xff, 0xff, 0xff, 0xff, 0xff, 0xff, 0xff, 0xff, 0xff, 0x02], limit: None, caps: None },
        W { name: "consts that does not fit", addr: 8, code: vec![0x11, 0xff, 0xff, 0xff, 0xff, 0xff, 0xff, 0xff, 0xff, 0xff, 0x01], limit: None, caps: None },
        W { name: "regx 65536", addr: 8, code: vec![0x90, 0x80, 0x80, 0x04], limit: None, caps: None },
        W { name: "regx 65535", addr: 8, code: vec![0x90, 0xff, 0xff, 0x03], limit: None, caps: None },
        W { name: "countdown loop", addr: 2, code: vec![0x33, 0x31, 0x1c, 0x12, 0x28, 0xfa, 0xff], limit: None, caps: None },
        W { name: "call returns into the caller", addr: 4, code: vec![0x98, 0x01, 0x00, 0x31, 0x22], limit: Some(5), caps: Some(CAPS_MID) },
    ];
    for (i, w) in ws.iter().enumerate() {
        if !ctx.want("witness", i as u64) {
            continue;
        }
        let enc = Enc { le: true, fmt64: false, version: 4, addr: w.addr };
        let mut cfg = base_cfg(enc);
        cfg.max_iterations = w.limit;
        cfg.caps = w.caps;
        let mut script = plain_script(i as u64);
        if w.name.starts_with("recursive call") {
            script.pool = recursive_pool.clone();
        } else if w.name.starts_with("call returns") {
            script.pool = vec![vec![0x35]];
        }
        let m = one_case(ctx, "witness", &w.code, &cfg, &script);
        if let Some(m) = &m {
            flow_observations(ctx, m);
        }
        if let Some(m) = m {
            if w.limit == Some(0) {
                ctx.obs("limit.zero");
            }
            if i == 5 {
                ctx.sample("witness", || json!({"name": w.name, "program": hex(&w.code), "address_size": w.addr, "model_end": show_end(&m.end)}));
            }
            ctx.counted_distinct += 1;
        }
    }
}

/// Permanent regression cases for the defects this check found on the pinned tree (both
/// repaired by `fix:` commits in /repo; see known_findings / REPORT.md).
fn regressions(ctx: &mut Ctx) {
    // (name, address size, program, base types are answered by `type_of_base`)
    let cases: Vec<(&str, u8, Vec<u8>)> = vec![
        // lit1; const4u 0xfffffffe; not; shl  -> 1 << 1 (the count ~0xfffffffe is 1 modulo 2^32)
        ("generic shift count after not (shl)", 4, vec![0x31, 0x0c, 0xfe, 0xff, 0xff, 0xff, 0x20, 0x24]),
        ("generic shift count after not (shr)", 4, vec![0x34, 0x0c, 0xfe, 0xff, 0xff, 0xff, 0x20, 0x25]),
        ("generic shift count after not (shra)", 4, vec![0x0d, 0xf0, 0xff, 0xff, 0xff, 0x0c, 0xfe, 0xff, 0xff, 0xff, 0x20, 0x26]),
        // const8u 2; const8u 0x101; shr; stack_value on a 1-byte target -> 1
        ("generic shift count wider than the address", 1, vec![0x0e, 2, 0, 0, 0, 0, 0, 0, 0, 0x0e, 1, 1, 0, 0, 0, 0, 0, 0, 0x25, 0x9f]),
        // const_type I8 -56; convert F32; convert I64; convert U32; convert generic -> 0xffc8
        ("convert negative i8 to f32", 2, vec![0xa4, 0x01, 0x01, 0xc8, 0xa8, 0x09, 0xa8, 0x07, 0xa8, 0x06, 0xa8, 0x00]),
        // const_type I64 -1; convert F64; stack_value -> -1.0
        ("convert negative i64 to f64", 8, vec![0xa4, 0x07, 0x08, 0xff, 0xff, 0xff, 0xff, 0xff, 0xff, 0xff, 0xff, 0xa8, 0x0a, 0x9f]),
        ("convert negative i16 to f64", 4, vec![0xa4, 0x03, 0x02, 0x00, 0x80, 0xa8, 0x0a, 0x9f]),
        ("convert negative i32 to f32", 4, vec![0xa4, 0x05, 0x04, 0xfe, 0xff, 0xff, 0xff, 0xa8, 0x09, 0x9f]),
    ];
    for (i, (name, addr, code)) in cases.iter().enumerate() {
        if !ctx.want("regress", i as u64) {
            continue;
        }
        let enc = Enc { le: true, fmt64: false, version: 5, addr: *addr };
        let cfg = base_cfg(enc);
        let script = plain_script(i as u64);
        if let Some(m) = one_case(ctx, "regress", code, &cfg, &script) {
            ctx.obs("regress");
            ctx.counted_distinct += 1;
            if i == 0 || i == 4 {
                ctx.sample("regress", || json!({"name": name, "program": hex(code), "address_size": addr, "model_end": show_end(&m.end),
                    "gimli_end": format!("{:?}", crate::rt::capture(|| drive(code, &cfg, &script, 16)).map(|g| g.end).ok())}));
            }
        }
    }
}

pub fn run(ctx: &mut Ctx) {
    if ctx.slow() {
        // Miri slice: the regression witnesses plus a few random programs per shard
        // (the evaluator's ArrayVec-backed stacks are the unsafe code being interpreted)
        regressions(ctx);
        ctx.slow_stride = 4;
        witnesses(ctx);
        random_programs(ctx);
        ctx.slow_stride = 1;
        return;
    }
    // the asan profile runs every 5th case of each stream
    ctx.asan_stride = 5;
    regressions(ctx);
    witnesses(ctx);
    decode_catalogue(ctx);
    operand_matrix(ctx);
    short_programs(ctx);
    short4_programs(ctx);
    random_programs(ctx);
    let _ = mix64(0);
}

//! C10 — readers are faithful zero-copy views; all reader kinds behave identically.
//!
//! Oracle: a cursor model `(buf, start, end)` per reader (c10_model.rs) plus agreement of six
//! reader kinds (c10_kinds.rs) on every result of the same operation history, plus a
//! whole-section walker generic over `R: Reader` whose rendering must be identical under
//! every kind (c10_walk.rs).  The `gimli_verif:` SubRange hook panics inside gimli, which the
//! case guard reports as a violation; `SUBRANGE_OPS` is read to show that the hook was reached.

use crate::props::PropInfo;
use crate::rt::{hex, Ctx, Profile};
use serde_json::json;

#[path = "c10_kinds.rs"]
mod kinds;
#[path = "c10_model.rs"]
mod model;
#[path = "c10_walk.rs"]
mod walk;

use kinds::{run_kind, KindOut, KINDS};
use model::{History, ALL_OP_NAMES};

pub fn info() -> PropInfo {
    PropInfo {
        id: "C10",
        level: "exploration",
        rule: "stream exh: every history of length <= 3 over a 15-operation alphabet (read_u8/u16/u64, uleb, sleb, null-terminated slice, skip in/out of range, split, truncate, empty, clone-and-continue-on-the-clone, find, initial_length, drop-the-oldest-reader) x 6 fixed buffers (lengths 0,1,3,8,13,24) x 2 byte orders; stream hist: seeded random histories of 1..60 operations over 53 operations (whole Reader trait surface plus the inherent range/split_at/find/offset_from/to_string*/Index/PartialEq surface) on up to 24 simultaneously live readers (clones, split-off and range sub-readers) with in-range, just-out-of-range and huge lengths, buffers of length 0..64 and 4096 in six content styles, both byte orders; every history is replayed on EndianSlice, EndianRcSlice, EndianArcSlice, EndianReader<MyBuf>, RelocateReader<EndianSlice,identity>, RelocateReader<EndianRcSlice,identity>; after every step (len, view pointer range, bytes, offset_from(section)) of every live reader (touched readers only for 4 KiB buffers) is compared with the cursor model, results are compared with the model and between kinds, readers are dropped in a random order (original / section reader first in half of the histories). stream walk: gimli::write- and hand-generated sections (units, abbrevs, lines, strings, lists, CFI, aranges, pub*, macros) and single-site mutations of them are walked by one generic renderer under each kind; renderings (values, error kinds, section offset + length of every handed-back reader, Dwarf::lookup_offset_id of their offset ids) must be equal. stream threads: two threads read one Arc-backed section through clones and a shared reference. A history is non-trivial when it has at least one step (all have); histories are distinct by digest of (buffer, byte order, operation list); a walk case is non-trivial when the EndianSlice rendering contains at least one successfully parsed item.",
        assumptions: &[
            "over-long LEB128 input (no terminator within 10 bytes, 3 for the u16 reader) is C09's domain: such a step is replaced by skip_leb128 when the history is generated, so the cursor position after such an error is not judged",
            "a failed fixed-width read, skip, split, truncate or find leaves the reader where it was; a LEB128 reader that runs out of input has consumed everything; a LEB128 value that terminates within the canonical maximum but does not fit has consumed its bytes (cursor model of DESIGN.md C10)",
            "range/range_from/range_to/split_at/Index are only called with in-range arguments (they are documented to panic otherwise)",
            "offset_from is only called with a base reader whose window contains the reader (documented: may panic otherwise)",
            "RelocateReader has no inherent range API; for it range ops are composed from clone/skip/truncate so that every kind yields a result for every step",
            "to_slice/to_string must return Cow::Borrowed for these six kinds (zero-copy); to_string_lossy may own only when the bytes are not valid UTF-8",
            "usize is 64 bits on this host",
            "sanitizer tier (tools/c10-sanitize): the same streams under nightly AddressSanitizer and a small slice under Miri",
        ],
        exhaustive_subspaces: &["all histories of length <= 3 over the 15-operation alphabet, for each of 6 buffers and both byte orders, on all 6 reader kinds"],
        must_observe: MUST,
        run,
    }
}

const MUST: &[&str] = &[
    "exh.histories",
    "hist.histories",
    "hook.subrange_ops",
    "kind.EndianSlice",
    "kind.EndianRcSlice",
    "kind.EndianArcSlice",
    "kind.EndianReader<MyBuf>",
    "kind.RelocateReader<EndianSlice>",
    "kind.RelocateReader<EndianRcSlice>",
    "buf.len0",
    "buf.len4096",
    "endian.le",
    "endian.be",
    "err.eof",
    "err.bad_uleb",
    "err.bad_sleb",
    "err.addr_size",
    "err.off_size",
    "err.reserved",
    "err.utf8",
    "drop.original_first",
    "drop.base",
    "threads.cases",
    "walk.cases",
    "walk.subreaders",
    "walk.errors",
    // every operation of the alphabet
    "op.read_u8", "op.read_i8", "op.read_u16", "op.read_i16", "op.read_u32", "op.read_i32", "op.read_u64", "op.read_i64", "op.read_u128",
    "op.read_f32", "op.read_f64", "op.read_uint", "op.read_slice", "op.read_u8_array", "op.read_uleb128", "op.read_uleb128_u32",
    "op.read_uleb128_u16", "op.read_sleb128", "op.skip_leb128", "op.read_address", "op.read_address_size", "op.read_offset",
    "op.read_sized_offset", "op.read_word", "op.read_length", "op.read_initial_length", "op.read_null_terminated_slice", "op.skip",
    "op.split", "op.truncate", "op.empty", "op.find", "op.len", "op.is_empty", "op.clone", "op.drop", "op.drop_base", "op.offset_from",
    "op.offset_id", "op.to_slice", "op.to_string", "op.to_string_lossy", "op.range", "op.range_from", "op.range_to", "op.split_at",
    "op.x_find", "op.x_offset_from", "op.x_to_string", "op.x_to_string_lossy", "op.index", "op.index_from", "op.eq",
    "oor.skip", "oor.split", "oor.truncate",
];

fn gcd(a: u64, b: u64) -> u64 {
    let (mut a, mut b) = (a, b);
    while b != 0 {
        let t = a % b;
        a = b;
        b = t;
    }
    a
}

fn subrange_ops() -> u64 {
    gimli::verif::get(&gimli::verif::SUBRANGE_OPS)
}

/// Replay one history on every kind, compare with the model and between kinds.
fn check_history(ctx: &mut Ctx, stream: &str, h: &History, full: bool) {
    ctx.eval();
    let input = || json!({"buf": hex(&h.buf), "little_endian": h.le, "history": h.describe(), "final_drops": h.final_drops});
    let mut outs: Vec<Option<KindOut>> = vec![];
    for k in 0..KINDS.len() {
        let before = subrange_ops();
        let r = ctx.guard(&format!("history.{}", KINDS[k]), &input, || run_kind(k, h, full));
        let delta = subrange_ops().wrapping_sub(before);
        if k != 0 && k != 4 {
            ctx.obs_n("hook.subrange_ops", delta);
        }
        if let Some(ko) = &r {
            ctx.obs(&format!("kind.{}", KINDS[k]));
            ctx.obs_n("views.observed", ko.observed_views);
            ctx.obs_n("subreaders.checked", ko.sub_readers);
            for (sig, what) in &ko.problems {
                if sig.starts_with("harness.") {
                    ctx.harness_error(what);
                } else {
                    ctx.fail(sig, what, &input);
                }
            }
        }
        outs.push(r);
    }
    // pairwise agreement with the first kind (every kind also agrees with the model, so this
    // can only add information when the model comparison stopped early)
    if let Some(Some(first)) = outs.first() {
        for k in 1..KINDS.len() {
            if let Some(Some(o)) = outs.get(k) {
                let n = first.outs.len().min(o.outs.len());
                for i in 0..n {
                    if first.outs[i] != o.outs[i] {
                        let what = format!("step {i} ({:?}): {} returned {:?}, {} returned {:?}", h.steps[i].op, KINDS[0], first.outs[i], KINDS[k], o.outs[i]);
                        ctx.fail(&format!("agree|{}|{}", KINDS[k], h.steps[i].op.name()), &what, &input);
                        break;
                    }
                }
            }
        }
    }
    // coverage bookkeeping, from the generated history only
    ctx.nontrivial(h.digest());
    ctx.obs(if h.le { "endian.le" } else { "endian.be" });
    match h.buf.len() {
        0 => ctx.obs("buf.len0"),
        4096 => ctx.obs("buf.len4096"),
        _ => {}
    }
    let mut live_clones = 0u32;
    for (i, s) in h.steps.iter().enumerate() {
        ctx.obs(&format!("op.{}", s.op.name()));
        if let model::Out::Err(e) = &s.exp {
            ctx.obs(match e {
                model::E::Eof(_) => "err.eof",
                model::E::BadU => "err.bad_uleb",
                model::E::BadS => "err.bad_sleb",
                model::E::AddrSize(_) => "err.addr_size",
                model::E::OffSize(_) => "err.off_size",
                model::E::Reserved(_) => "err.reserved",
                model::E::Utf8 => "err.utf8",
                model::E::Other(_) => "err.other",
            });
            match s.op {
                model::Op::Skip(_) => ctx.obs("oor.skip"),
                model::Op::Split(_) => ctx.obs("oor.split"),
                model::Op::Truncate(_) => ctx.obs("oor.truncate"),
                _ => {}
            }
        }
        match s.op {
            model::Op::Clone => live_clones += 1,
            model::Op::Drop if s.slot == 0 && live_clones > 0 && i + 1 < h.steps.len() => ctx.obs("drop.original_first"),
            model::Op::DropBase => ctx.obs("drop.base"),
            _ => {}
        }
    }
    ctx.obs_max("history.len", h.steps.len() as u64);
    ctx.sample(stream, || json!({"buf": hex(&h.buf[..h.buf.len().min(64)]), "buf_len": h.buf.len(), "little_endian": h.le, "history": h.describe()}));
}

fn run_exhaustive(ctx: &mut Ctx) {
    let mut r = ctx.rng("exh.buffers", 0);
    let bufs = model::exhaustive_buffers(&mut r);
    let per = model::exhaustive_count();
    let total = per * bufs.len() as u64 * 2;
    // Miri: a thin slice only (about 40 histories per shard)
    let mut stride = if ctx.profile == Profile::Miri { (total / (40 * ctx.nshards)).max(1) | 1 } else { 1 };
    while stride > 1 && gcd(stride, ctx.nshards) != 1 {
        stride += 2;
    }
    let mut i = 0u64;
    while i < total {
        if ctx.want("exh", i) {
            let b = (i / per) % bufs.len() as u64;
            let le = i / (per * bufs.len() as u64) == 0;
            let h = model::gen_exhaustive(i % per, bufs[b as usize].clone(), le);
            let full = ctx.profile != Profile::Miri;
            check_history(ctx, "exh", &h, full);
            ctx.obs("exh.histories");
        }
        i += stride;
    }
}

fn run_random(ctx: &mut Ctx) {
    let n = match ctx.profile {
        // "a few hundred histories per shard"
        Profile::Miri => (if ctx.quick() { 40 } else { 100 }) * ctx.nshards,
        _ => ctx.size(160_000, 1_600_000, 8),
    };
    for i in 0..n {
        if !ctx.want("hist", i) {
            continue;
        }
        let mut r = ctx.rng("hist", i);
        // Miri is ~10^4 times slower: shorter histories, 4 KiB buffers cut to 256 bytes,
        // only the readers a step touched are re-observed
        let miri = ctx.profile == Profile::Miri;
        let h = if miri { model::gen_random(&mut r, 30, 256) } else { model::gen_random(&mut r, 60, usize::MAX) };
        let full = h.buf.len() <= 64 && !miri;
        check_history(ctx, "hist", &h, full);
        ctx.obs("hist.histories");
    }
}

fn run_threads(ctx: &mut Ctx) {
    let n = match ctx.profile {
        Profile::Miri => 6 * ctx.nshards,
        _ => ctx.size(600, 6_000, 4),
    };
    for i in 0..n {
        if !ctx.want("threads", i) {
            continue;
        }
        let mut r = ctx.rng("threads", i);
        let buf = model::gen_buffer(&mut r);
        let buf = if buf.len() > 256 { buf[..256].to_vec() } else { buf };
        let le = r.bool();
        let mut scripts: [kinds::Script; 2] = [vec![], vec![]];
        for s in scripts.iter_mut() {
            for _ in 0..(1 + r.usize(12)) {
                let skip = if r.chance(1, 8) { buf.len() + 1 + r.usize(3) } else { r.usize(buf.len() + 1) };
                let rem = buf.len().saturating_sub(skip);
                let split = if r.chance(1, 8) { rem + 1 } else { r.usize(rem + 1) };
                s.push((skip, split, if r.bool() { 0 } else { r.next() as u8 }));
            }
        }
        ctx.eval();
        let input = || json!({"buf": hex(&buf), "little_endian": le, "scripts": format!("{:?}", scripts)});
        let before = subrange_ops();
        let Some(got) = ctx.guard("threads.EndianArcSlice", &input, || kinds::arc_threads(&buf, le, &scripts)) else { continue };
        ctx.obs_n("hook.subrange_ops", subrange_ops().wrapping_sub(before));
        match got {
            Err(e) => ctx.fail("threads.panic", &e, &input),
            Ok(res) => {
                for t in 0..2 {
                    let want = kinds::script_model(&buf, &scripts[t]);
                    ctx.check_eq("threads.results", &want, &res[t], &input);
                }
            }
        }
        ctx.nontrivial_bytes("threads", format!("{:?}{:?}{}", buf, scripts, le).as_bytes());
        ctx.obs("threads.cases");
    }
}

pub fn run(ctx: &mut Ctx) {
    let _ = ALL_OP_NAMES;
    // the asan profile (3-4x slower) runs every 3rd case of each stream
    ctx.asan_stride = 3;
    run_exhaustive(ctx);
    run_random(ctx);
    run_threads(ctx);
    walk::run(ctx);
}

//! C12 — read -> write conversion preserves meaning or fails; never silently alters.
//!
//! Oracle: differential on the semantic dump (`mon::dump`, DESIGN.md Appendix C.1):
//! `dump(read(write(convert(x)))) == dump(x)` whenever conversion and writing both return
//! `Ok`, and converting the output once more reproduces the same dump.  `Err` is always
//! acceptable (counted per generator class; a class whose success ratio is below its floor
//! is reported *inconclusive*).  Panics are violations.

use crate::asm::Enc;
use crate::mon::dump::{self, D};
use crate::mon::entries::Secs;
use crate::props::PropInfo;
use crate::rt::{hex, Ctx, Rng};
use gimli::write::{self, Address, EndianVec, Sections};
use gimli::{EndianSlice, RunTimeEndian, SectionId};
use serde_json::{json, Value};

#[path = "c12_wmodel.rs"]
pub mod wmodel;
#[path = "c12_asm.rs"]
pub mod asmgen;
#[path = "c12_cfi.rs"]
pub mod cfigen;
#[path = "c12_corpus.rs"]
mod corpus;

pub fn info() -> PropInfo {
    PropInfo {
        id: "C12",
        level: "exploration",
        rule: "Inputs x: (seeds) the gimli::write-built seed sections of gen::seeds for all 64 encodings; (wmodel) seeded random gimli::write models: 1-3 units, random DIE trees, every writable attribute value kind with boundary values, expressions with forward/backward branches, typed operations and entry references, line programs with random header parameters / files with info / mid-sequence set_address, range and location lists; (asm.info) hand-assembled units (crate::asm) using the forms gimli::write cannot emit: strx*/addrx*/rnglistx/loclistx, every DW_RLE_*/DW_LLE_* kind and the legacy lists with and without a unit base, data/ref forms of every width, implicit_const, indirect, exprloc with branches incl. to the end and constants that re-encode shorter; (asm.line) hand-assembled line programs: every standard and extended opcode, special opcodes, mid-sequence set_address, fixed_advance_pc, define_file, non-default header parameters, v5 entry formats with every string form; (asm.cfi) hand-assembled .debug_frame / .eh_frame: every CFA instruction, code/data alignment factors {1,2,4,8,255,256,257,-1,-8,-128,-129}, offsets beyond i32, advance deltas beyond u32, augmentations zR/zP/zL/zS with pcrel/absptr/udata/sdata encodings.  Each x is converted with write::Dwarf::from AND the step-wise convert API (FrameTable::from for both frame sections; ConvertLineProgram::convert, read_row and read_sequence for line programs), written, re-read and dumped; when both steps return Ok the dumps must be equal, and a second conversion of the output must reproduce its dump.  A case is non-trivial when its generated model has >= 2 entries (units), >= 1 row (line programs) or >= 1 FDE (frames) - judged on the generated model only, never on gimli's answer; distinct by digest of the input sections. Corpus complement (stream `corpus`, props/c12_corpus.rs): three small C/C++ sources are compiled at check time (quick: gcc -gdwarf-4 -O2, clang -gdwarf-5 -O2, gcc -gdwarf-3 -O0, gcc -gdwarf-5 -O2 -fno-asynchronous-unwind-tables [.debug_frame]; thorough: {gcc 12, clang 14} x -gdwarf-{2,3,4,5} x {-O0,-O2}, gcc -gdwarf64, -fdebug-types-section, skeleton files of -gsplit-dwarf builds) and the .debug_* sections of each linked executable go through the same check_dwarf (all conversion paths + second conversion), its .eh_frame / .debug_frame through check_frame; an executable is always non-trivial (it holds several units / FDEs).",
        assumptions: &[
            "Err from conversion or writing is always acceptable (counted per class; low success ratio => inconclusive)",
            "dump normalisations (all documented in mon/dump.rs): root children with DW_TAG_base_type listed first (gimli::write reorders them), file/directory tables compared as de-duplicated sets with files resolved to (path, directory) bytes, end_sequence rows compared by address only, lists compared as resolved ranges (base entries, tombstones, empty ranges invisible), CFI compared per FDE with the CIE inlined, DW_AT_sibling and *_base / dwo bookkeeping attributes omitted",
            "generated line programs have non-decreasing addresses within a sequence (the reader treats a decreasing set_address as a tombstone) and addresses that are multiples of minimum_instruction_length where the writer documents that requirement",
            "only compile units are generated: gimli::write always emits DW_UT_compile (type/partial/skeleton units and .debug_types are documented as unsupported by the writer)",
            "a unit's line program has at least one row: write::Unit omits a line program (and DW_AT_stmt_list) that has no instructions and no file-index users (documented line_program_in_use behaviour)",
            "known finding skipped by a marked constant (SKIP_VLIW_MID_SEQUENCE_SET_ADDRESS): max_ops > 1 is not combined with a mid-sequence DW_LNE_set_address; the stream known.vliw_set_address keeps observing it",
            "input entries have unique attribute names (DebuggingInformationEntry::set replaces a duplicate)",
            "convert_address is the identity (Address::Constant)",
            "known findings skipped by marked constants in props/c12_corpus.rs: SKIP_IMPLICIT_CONST_FILE_INDEX (gcc -gdwarf-5 executables are only observed by the stream known.implicit_const_file: DW_AT_decl_file encoded as DW_FORM_implicit_const keeps its file index although the file table is renumbered) and SKIP_GNU_LOCVIEWS (gcc corpus objects are compiled with -gno-variable-location-views because Dwarf::from deliberately drops DW_AT_GNU_locviews; stream known.gnu_locviews keeps observing the drop)",
            "corpus: executables with type units (-fdebug-types-section) and DWARF 5 skeleton files are only observed (ONLY_OBSERVE_UNSUPPORTED_UNIT_KINDS in props/c12_corpus.rs, counters known.unit_kind.*): gimli::write only writes DW_UT_compile units, Dwarf::from leaves .debug_types unconverted and turns type / skeleton units into compile units",
            "corpus: compilers only supply input (tool failures are inconclusive); the judgement is the same dump equality as for generated inputs, Err is acceptable and counted (class.corpus*.err); .eh_frame is read with the section placed at address 0 before and after conversion",
        ],
        exhaustive_subspaces: &[
            "asm.cfi: every (code factor, data factor) pair of the catalogue x every instruction x {debug_frame v1/v3/v4, eh_frame} (catalogue stream)",
            "asm.line: every opcode x every version 2..5 (catalogue stream)",
            "asm.info: every list entry kind x with/without unit base x versions 2..5 (catalogue stream)",
        ],
        must_observe: &[
            "api.from.ok",
            "api.stepwise.ok",
            "api.second.ok",
            "class.seeds.ok",
            "class.wmodel.ok",
            "class.asm.info.ok",
            "class.asm.line.ok",
            "class.asm.cfi.debug_frame.ok",
            "class.asm.cfi.eh_frame.ok",
            "line.api.convert.ok",
            "line.api.read_row.ok",
            "line.api.read_sequence.ok",
            "conv.err",
            "form.strx",
            "form.addrx",
            "form.rnglistx",
            "form.loclistx",
            "rle.base_addressx",
            "rle.startx_endx",
            "rle.startx_length",
            "rle.offset_pair",
            "rle.base_address",
            "rle.start_end",
            "rle.start_length",
            "lle.base_addressx",
            "lle.startx_endx",
            "lle.startx_length",
            "lle.offset_pair",
            "lle.default_location",
            "lle.base_address",
            "lle.start_end",
            "lle.start_length",
            "legacy.ranges.based",
            "legacy.ranges.absolute",
            "legacy.loc.based",
            "legacy.loc.absolute",
            "lnop.set_address.mid_sequence",
            "lnop.advance_before_set_address",
            "lnop.fixed_advance_pc",
            "lnop.define_file",
            "lnop.const_add_pc",
            "lnop.special",
            "lnop.advance_pc",
            "lnop.advance_line",
            "lnop.set_discriminator",
            "expr.branch.to_end",
            "expr.branch.backward",
            "expr.const.shorter",
            "expr.entry_ref",
            "cfi.insn.def_cfa_sf",
            "cfi.insn.offset_extended_sf",
            "cfi.insn.val_offset_sf",
            "cfi.insn.advance_loc4",
            "cfi.insn.remember_state",
            "cfi.insn.restore_state",
            "cfi.insn.def_cfa_expression",
            "cfi.insn.val_expression",
            "cfi.insn.args_size",
            "cfi.factor.data.-129",
            "cfi.factor.data.-128",
            "cfi.factor.code.256",
            "cfi.factor.code.255",
            "cfi.err.ValueTooLarge",
            "corpus.object",
            "corpus.v3",
            "corpus.v5",
            "corpus.converted",
            "class.corpus.ok",
            "class.corpus.eh_frame.ok",
            "class.corpus.debug_frame.ok",
        ],
        run,
    }
}

// ---------------------------------------------------------------- shared helpers

pub type Slice<'a> = EndianSlice<'a, RunTimeEndian>;

pub fn load<'a>(secs: &'a Secs, endian: RunTimeEndian) -> gimli::Dwarf<Slice<'a>> {
    gimli::Dwarf::load(|id| Ok::<_, ()>(EndianSlice::new(secs.get(id), endian))).unwrap()
}

pub fn identity_address(a: u64) -> Option<Address> {
    Some(Address::Constant(a))
}

pub fn collect(sections: &Sections<EndianVec<RunTimeEndian>>) -> Secs {
    let mut out = Secs::default();
    let _ = sections.for_each(|id, w| -> Result<(), ()> {
        if !w.slice().is_empty() {
            out.set(id, w.slice().to_vec());
        }
        Ok(())
    });
    out
}

pub fn write_dwarf(dw: &mut write::Dwarf, endian: RunTimeEndian) -> Result<Secs, write::Error> {
    let mut sections = Sections::new(EndianVec::new(endian));
    dw.write(&mut sections)?;
    Ok(collect(&sections))
}

pub fn conv_err_name(e: &write::ConvertError) -> String {
    match e {
        write::ConvertError::Read(r) => format!("Read.{}", dump::err_name(r)),
        write::ConvertError::Write(w) => format!("Write.{}", dump::err_name(w)),
        other => dump::err_name(other),
    }
}

/// `write::Dwarf::from`.
pub fn convert_from(dwarf: &gimli::Dwarf<Slice<'_>>) -> Result<write::Dwarf, write::ConvertError> {
    write::Dwarf::from(dwarf, &identity_address)
}

/// The step-wise API used the way its documentation shows: `convert` -> `read_unit` ->
/// `read_line_program`/`set_line_program` -> `convert_attribute_value` for the root ->
/// `read_entry`/`add_entry`/`convert_attribute_value` for every entry.  `line_rowwise`
/// selects `ConvertLineProgram::read_row` + `generate_row` instead of `convert`.
pub fn convert_stepwise(dwarf: &gimli::Dwarf<Slice<'_>>, line_rowwise: bool) -> Result<write::Dwarf, write::ConvertError> {
    let mut out = write::Dwarf::new();
    {
        let mut conv = out.convert(dwarf)?;
        while let Some((mut unit, root_entry)) = conv.read_unit()? {
            if let Some(mut cp) = unit.read_line_program(None, None)? {
                let (program, files) = if line_rowwise {
                    while let Some(row) = cp.read_row()? {
                        match row {
                            write::ConvertLineRow::SetAddress(a) => cp.set_address(Address::Constant(a)),
                            write::ConvertLineRow::Row(r) => cp.generate_row(r),
                            write::ConvertLineRow::EndSequence(l) => cp.end_sequence(l),
                        }
                    }
                    if cp.in_sequence() {
                        return Err(write::ConvertError::MissingLineEndSequence);
                    }
                    cp.program()
                } else {
                    cp.convert(&identity_address)?
                };
                unit.set_line_program(program, files);
            }
            let root_id = unit.unit.root();
            step_attrs(&mut unit, root_id, &root_entry)?;
            let mut entry = root_entry;
            while let Some(id) = unit.read_entry(&mut entry)? {
                if id.is_none() {
                    continue;
                }
                let id = unit.add_entry(id, &entry);
                step_attrs(&mut unit, id, &entry)?;
            }
        }
    }
    Ok(out)
}

fn step_attrs<'a>(
    unit: &mut write::ConvertUnit<'_, Slice<'a>>,
    id: write::UnitEntryId,
    entry: &write::ConvertUnitEntry<'_, Slice<'a>>,
) -> Result<(), write::ConvertError> {
    for attr in &entry.attrs {
        let value = unit.convert_attribute_value(entry.read_unit, attr, &identity_address)?;
        unit.unit.get_mut(id).set(attr.name(), value);
    }
    Ok(())
}

fn component(path: &str) -> &'static str {
    if path.contains(".line.rows") {
        "line.rows"
    } else if path.contains(".line.files") || path.contains(".line.dirs") {
        "line.files"
    } else if path.contains(".line") {
        "line"
    } else if path.contains(".header") {
        "unit.header"
    } else if path.contains(".attrs") {
        if path.contains("locs") {
            "attr.locs"
        } else if path.contains("ranges") {
            "attr.ranges"
        } else if path.contains("expr") {
            "attr.expr"
        } else if path.contains("ref") {
            "attr.ref"
        } else {
            "attr"
        }
    } else if path.contains(".forest") {
        "forest"
    } else if path.contains(".rows") {
        "cfi.rows"
    } else if path.contains(".cie") {
        "cfi.cie"
    } else if path.contains("fdes") {
        "cfi.fde"
    } else {
        "top"
    }
}

/// Known genuine findings that are skipped by exact signature so that the rest of the check
/// keeps running (each is reported in REPORT.md).  Empty = nothing skipped.
pub const SKIPPED_SIGNATURES: &[&str] = &[];

/// GENUINE FINDING (reported in REPORT.md, skipped here so that the rest keeps running):
/// `write::LineProgram::set_address` in the middle of a sequence does not reset the writer's
/// notion of the previous row's `op_index`, although `DW_LNE_set_address` resets the
/// op_index register to 0.  For VLIW programs (maximum_operations_per_instruction > 1) a row
/// that follows a mid-sequence `set_address` is therefore written with the wrong op_index
/// (rel) or `op_advance` panics with `attempt to subtract with overflow` (dbg,
/// write/line.rs `op_advance`).  While this constant is `true` the generators do not combine
/// max_ops > 1 with a mid-sequence set_address.
pub const SKIP_VLIW_MID_SEQUENCE_SET_ADDRESS: bool = false;

fn report_diff(ctx: &mut Ctx, class: &str, api: &str, diff: &str, a: &D, b: &D, input: &dyn Fn() -> Value) {
    let path = diff.split(':').next().unwrap_or("");
    let sig = format!("c12.{}.{}.{}", class, api, component(path));
    if SKIPPED_SIGNATURES.contains(&sig.as_str()) {
        ctx.obs(&format!("skipped.{}", sig));
        return;
    }
    let what = format!("{}: dump of the converted output differs from the dump of the input at {}", sig, diff);
    let a = a.to_json();
    let b = b.to_json();
    let inp = input();
    let replay = json!({"entry": sig, "first_difference": diff, "input": inp, "dump_input": a, "dump_output": b});
    ctx.violation(&format!("mismatch|{}", sig), &what, replay);
}

/// Round-trip one set of `.debug_*` sections through every DIE-level conversion path.
/// Returns the number of paths that succeeded.
pub fn check_dwarf(ctx: &mut Ctx, class: &str, secs: &Secs, enc: Enc, extra: &dyn Fn() -> Value) -> u32 {
    let endian = enc.endian();
    let input = || json!({"class": class, "enc": enc.label(), "sections": secs.json(), "model": extra()});
    let Some(d0) = ctx.guard("dump.input", &input, || dump::dump_dwarf(&load(secs, endian))) else { return 0 };
    if d0.has_error() {
        ctx.obs(&format!("class.{}.input_dump_has_error", class));
    }
    let mut oks = 0;
    let mut first_out: Option<(Secs, D)> = None;
    for (api, which) in [("from", 0u8), ("stepwise", 1), ("stepwise_rows", 2)] {
        let r = ctx.guard(&format!("convert.{}", api), &input, || {
            let dwarf = load(secs, endian);
            let conv = match which {
                0 => convert_from(&dwarf),
                1 => convert_stepwise(&dwarf, false),
                _ => convert_stepwise(&dwarf, true),
            };
            match conv {
                Err(e) => Err(format!("conv.{}", conv_err_name(&e))),
                Ok(mut w) => match write_dwarf(&mut w, endian) {
                    Err(e) => Err(format!("write.{}", dump::err_name(&e))),
                    Ok(out) => Ok(out),
                },
            }
        });
        let Some(r) = r else { continue };
        match r {
            Err(e) => {
                ctx.obs("conv.err");
                ctx.obs(&format!("err.{}", e));
                ctx.obs(&format!("class.{}.err", class));
            }
            Ok(out) => {
                ctx.obs(&format!("api.{}.ok", api));
                ctx.obs(&format!("class.{}.ok", class));
                oks += 1;
                let Some(d1) = ctx.guard("dump.output", &input, || dump::dump_dwarf(&load(&out, endian))) else { continue };
                if let Some(diff) = dump::first_diff(&d0, &d1) {
                    report_diff(ctx, class, api, &diff, &d0, &d1, &input);
                } else {
                    ctx.obs("dump.equal");
                }
                if first_out.is_none() {
                    first_out = Some((out, d1));
                }
            }
        }
    }
    // second conversion of the output
    if let Some((out, d1)) = first_out {
        let input2 = || json!({"class": class, "enc": enc.label(), "stage": "second conversion", "sections": out.json(), "original": secs.json()});
        let r = ctx.guard("convert.second", &input2, || {
            let dwarf = load(&out, endian);
            match convert_from(&dwarf) {
                Err(e) => Err(format!("conv.{}", conv_err_name(&e))),
                Ok(mut w) => match write_dwarf(&mut w, endian) {
                    Err(e) => Err(format!("write.{}", dump::err_name(&e))),
                    Ok(o2) => Ok(o2),
                },
            }
        });
        if let Some(r) = r {
            match r {
                Err(e) => {
                    // converting gimli's own output failed: acceptable for the property (Err), but noteworthy
                    ctx.obs("second.err");
                    ctx.obs(&format!("second.err.{}", e));
                }
                Ok(o2) => {
                    ctx.obs("api.second.ok");
                    if let Some(d2) = ctx.guard("dump.second", &input2, || dump::dump_dwarf(&load(&o2, endian))) {
                        if let Some(diff) = dump::first_diff(&d1, &d2) {
                            report_diff(ctx, class, "second", &diff, &d1, &d2, &input2);
                        }
                    }
                    if o2.digest() == out.digest() {
                        ctx.obs("second.byte_identical");
                    } else {
                        ctx.obs("second.bytes_differ");
                    }
                }
            }
        }
    }
    oks
}

/// Frame section round trip (`FrameTable::from` + `write_debug_frame` / `write_eh_frame`).
pub fn check_frame(ctx: &mut Ctx, class: &str, bytes: &[u8], enc: Enc, eh: bool, extra: &dyn Fn() -> Value) -> u32 {
    let endian = enc.endian();
    let asz = enc.addr;
    let input = || json!({"class": class, "enc": enc.label(), "eh_frame": eh, "bytes": hex(bytes), "model": extra()});
    let bases = gimli::BaseAddresses::default().set_eh_frame(0);
    let dump_of = |b: &[u8]| -> D {
        if eh {
            let mut s = gimli::EhFrame::new(b, endian);
            s.set_address_size(asz);
            dump::dump_frame(&s, &bases)
        } else {
            let mut s = gimli::DebugFrame::new(b, endian);
            s.set_address_size(asz);
            dump::dump_frame(&s, &bases)
        }
    };
    let convert = |b: &[u8]| -> Result<Vec<u8>, String> {
        let table = if eh {
            let mut s = gimli::EhFrame::new(b, endian);
            s.set_address_size(asz);
            write::FrameTable::from(&s, &identity_address)
        } else {
            let mut s = gimli::DebugFrame::new(b, endian);
            s.set_address_size(asz);
            write::FrameTable::from(&s, &identity_address)
        };
        let table = table.map_err(|e| format!("conv.{}", conv_err_name(&e)))?;
        if eh {
            let mut w = write::EhFrame::from(EndianVec::new(endian));
            table.write_eh_frame(&mut w).map_err(|e| format!("write.{}", dump::err_name(&e)))?;
            Ok(w.0.slice().to_vec())
        } else {
            let mut w = write::DebugFrame::from(EndianVec::new(endian));
            table.write_debug_frame(&mut w).map_err(|e| format!("write.{}", dump::err_name(&e)))?;
            Ok(w.0.slice().to_vec())
        }
    };
    let Some(d0) = ctx.guard("dump.frame.input", &input, || dump_of(bytes)) else { return 0 };
    let Some(r) = ctx.guard("convert.frame", &input, || convert(bytes)) else { return 0 };
    let out = match r {
        Err(e) => {
            ctx.obs("conv.err");
            ctx.obs(&format!("err.{}", e));
            if e.contains("ValueTooLarge") {
                ctx.obs("cfi.err.ValueTooLarge");
            }
            ctx.obs(&format!("class.{}.err", class));
            return 0;
        }
        Ok(o) => o,
    };
    ctx.obs(&format!("class.{}.ok", class));
    ctx.obs("api.frame.ok");
    let Some(d1) = ctx.guard("dump.frame.output", &input, || dump_of(&out)) else { return 1 };
    if let Some(diff) = dump::first_diff(&d0, &d1) {
        report_diff(ctx, class, "frame", &diff, &d0, &d1, &input);
    } else {
        ctx.obs("dump.equal");
    }
    // second conversion
    let input2 = || json!({"class": class, "enc": enc.label(), "eh_frame": eh, "stage": "second conversion", "bytes": hex(&out), "original": hex(bytes)});
    if let Some(r2) = ctx.guard("convert.frame.second", &input2, || convert(&out)) {
        match r2 {
            Err(e) => {
                ctx.obs("second.err");
                ctx.obs(&format!("second.err.{}", e));
            }
            Ok(o2) => {
                ctx.obs("api.second.ok");
                if let Some(d2) = ctx.guard("dump.frame.second", &input2, || dump_of(&o2)) {
                    if let Some(diff) = dump::first_diff(&d1, &d2) {
                        report_diff(ctx, class, "frame.second", &diff, &d1, &d2, &input2);
                    }
                }
                if o2 == out {
                    ctx.obs("second.byte_identical");
                } else {
                    ctx.obs("second.bytes_differ");
                }
            }
        }
    }
    1
}

/// Stand-alone line program round trip through `Dwarf::read_line_program` with the three
/// ways of driving `ConvertLineProgram` (`convert`, `read_row`, `read_sequence`).
pub fn check_line(ctx: &mut Ctx, class: &str, secs: &Secs, enc: Enc, extra: &dyn Fn() -> Value) -> u32 {
    let endian = enc.endian();
    let input = || json!({"class": class, "enc": enc.label(), "sections": secs.json(), "model": extra()});
    let comp_dir: &[u8] = b"/comp/dir";
    let comp_name: &[u8] = b"unit.c";
    let dump_of = |s: &Secs| -> D {
        let dwarf = load(s, endian);
        match dwarf.debug_line.program(
            gimli::DebugLineOffset(0),
            enc.addr,
            Some(EndianSlice::new(comp_dir, endian)),
            Some(EndianSlice::new(comp_name, endian)),
        ) {
            Ok(p) => dump::dump_line_program(&dwarf, None, p),
            Err(e) => D::E(dump::err_name(&e)),
        }
    };
    let Some(d0) = ctx.guard("dump.line.input", &input, || dump_of(secs)) else { return 0 };
    let mut oks = 0;
    let mut first_out: Option<(Secs, D)> = None;
    for api in ["convert", "read_row", "read_sequence"] {
        let r = ctx.guard(&format!("convert.line.{}", api), &input, || -> Result<Secs, String> {
            let dwarf = load(secs, endian);
            let prog = dwarf
                .debug_line
                .program(
                    gimli::DebugLineOffset(0),
                    enc.addr,
                    Some(EndianSlice::new(comp_dir, endian)),
                    Some(EndianSlice::new(comp_name, endian)),
                )
                .map_err(|e| format!("read.{}", dump::err_name(&e)))?;
            let mut w = write::Dwarf::new();
            let program = (|| -> Result<write::LineProgram, write::ConvertError> {
                let mut cp = w.read_line_program(&dwarf, prog, None, None)?;
                match api {
                    "convert" => Ok(cp.convert(&identity_address)?.0),
                    "read_row" => {
                        while let Some(row) = cp.read_row()? {
                            match row {
                                write::ConvertLineRow::SetAddress(a) => cp.set_address(Address::Constant(a)),
                                write::ConvertLineRow::Row(r) => cp.generate_row(r),
                                write::ConvertLineRow::EndSequence(l) => cp.end_sequence(l),
                            }
                        }
                        if cp.in_sequence() {
                            return Err(write::ConvertError::MissingLineEndSequence);
                        }
                        Ok(cp.program().0)
                    }
                    _ => {
                        while let Some(seq) = cp.read_sequence()? {
                            if let Some(start) = seq.start {
                                cp.set_address(Address::Constant(start));
                            }
                            for row in seq.rows {
                                cp.generate_row(row);
                            }
                            if let write::ConvertLineSequenceEnd::Length(l) = seq.end {
                                cp.end_sequence(l);
                            }
                        }
                        if cp.in_sequence() {
                            return Err(write::ConvertError::MissingLineEndSequence);
                        }
                        Ok(cp.program().0)
                    }
                }
            })()
            .map_err(|e| format!("conv.{}", conv_err_name(&e)))?;
            // write the program stand-alone (DWARF 5 line-only style: Dwarf::line_programs)
            w.line_programs.push(program);
            write_dwarf(&mut w, endian).map_err(|e| format!("write.{}", dump::err_name(&e)))
        });
        let Some(r) = r else { continue };
        match r {
            Err(e) => {
                ctx.obs("conv.err");
                ctx.obs(&format!("err.{}", e));
                ctx.obs(&format!("class.{}.err", class));
            }
            Ok(out) => {
                oks += 1;
                ctx.obs(&format!("line.api.{}.ok", api));
                ctx.obs(&format!("class.{}.ok", class));
                let Some(d1) = ctx.guard("dump.line.output", &input, || dump_of(&out)) else { continue };
                if let Some(diff) = dump::first_diff(&d0, &d1) {
                    let path = diff.split(':').next().unwrap_or("").to_string();
                    let comp = if path.contains("rows") {
                        "line.rows"
                    } else if path.contains("files") || path.contains("dirs") {
                        "line.files"
                    } else {
                        "line"
                    };
                    let sig = format!("c12.{}.{}.{}", class, api, comp);
                    if SKIPPED_SIGNATURES.contains(&sig.as_str()) {
                        ctx.obs(&format!("skipped.{}", sig));
                    } else {
                        let what = format!("{}: dump of the converted line program differs from the input's at {}", sig, diff);
                        let replay = json!({"entry": sig, "first_difference": diff, "input": input(), "dump_input": d0.to_json(), "dump_output": d1.to_json()});
                        ctx.violation(&format!("mismatch|{}", sig), &what, replay);
                    }
                } else {
                    ctx.obs("dump.equal");
                }
                if first_out.is_none() {
                    first_out = Some((out, d1));
                }
            }
        }
    }
    if let Some((out, d1)) = first_out {
        let input2 = || json!({"class": class, "enc": enc.label(), "stage": "second conversion", "sections": out.json(), "original": secs.json()});
        let r = ctx.guard("convert.line.second", &input2, || -> Result<Secs, String> {
            let dwarf = load(&out, endian);
            let prog = dwarf
                .debug_line
                .program(
                    gimli::DebugLineOffset(0),
                    enc.addr,
                    Some(EndianSlice::new(comp_dir, endian)),
                    Some(EndianSlice::new(comp_name, endian)),
                )
                .map_err(|e| format!("read.{}", dump::err_name(&e)))?;
            let mut w = write::Dwarf::new();
            let program = w
                .read_line_program(&dwarf, prog, None, None)
                .and_then(|cp| cp.convert(&identity_address))
                .map_err(|e| format!("conv.{}", conv_err_name(&e)))?
                .0;
            w.line_programs.push(program);
            write_dwarf(&mut w, endian).map_err(|e| format!("write.{}", dump::err_name(&e)))
        });
        if let Some(r) = r {
            match r {
                Err(e) => {
                    ctx.obs("second.err");
                    ctx.obs(&format!("second.err.{}", e));
                }
                Ok(o2) => {
                    ctx.obs("api.second.ok");
                    if let Some(d2) = ctx.guard("dump.line.second", &input2, || dump_of(&o2)) {
                        if let Some(diff) = dump::first_diff(&d1, &d2) {
                            let sig = format!("c12.{}.second.line", class);
                            let what = format!("{}: second conversion changes the dump at {}", sig, diff);
                            let replay = json!({"entry": sig, "first_difference": diff, "input": input2(), "dump_first": d1.to_json(), "dump_second": d2.to_json()});
                            ctx.violation(&format!("mismatch|{}", sig), &what, replay);
                        }
                    }
                    if o2.digest() == out.digest() {
                        ctx.obs("second.byte_identical");
                    } else {
                        ctx.obs("second.bytes_differ");
                    }
                }
            }
        }
    }
    oks
}

// ---------------------------------------------------------------- run

pub fn run(ctx: &mut Ctx) {
    // ---- seeds: gimli::write-built seed sections for all encodings
    let n = ctx.size(192, 1280, 2);
    for i in 0..n {
        if !ctx.want("seeds", i) {
            continue;
        }
        let mut r = ctx.rng("seeds", i);
        let enc = Enc::nth(i);
        ctx.eval();
        let Some(secs) = crate::gen::seeds::dwarf_seed(enc, &mut r) else {
            ctx.obs("gen.seeds.write_failed");
            continue;
        };
        check_dwarf(ctx, "seeds", &secs, enc, &|| json!("gen::seeds::dwarf_seed"));
        ctx.nontrivial(secs.digest());
        // frames from the same seed family
        let f = crate::gen::seeds::frame_seed(enc, &mut r);
        let df = f.get(SectionId::DebugFrame).to_vec();
        if !df.is_empty() {
            check_frame(ctx, "seeds.frame", &df, enc, false, &|| json!("gen::seeds::frame_seed"));
            ctx.nontrivial_bytes("seeds.df", &df);
        }
        let ef = f.get(SectionId::EhFrame).to_vec();
        if !ef.is_empty() {
            check_frame(ctx, "seeds.frame", &ef, enc, true, &|| json!("gen::seeds::frame_seed"));
            ctx.nontrivial_bytes("seeds.ef", &ef);
        }
        ctx.sample("seeds", || json!({"enc": enc.label(), "sections": secs.json()}));
    }

    wmodel::run(ctx);
    asmgen::run(ctx);
    cfigen::run(ctx);
    corpus::run(ctx);

    // ---- success-ratio floors (inconclusive, never a violation)
    for (class, floor_pct) in [
        ("seeds", 50u64),
        ("wmodel", 20),
        ("asm.info", 20),
        ("asm.info.with_ranges", 60),
        ("asm.info.with_loclist", 60),
        ("asm.line", 20),
        ("asm.cfi.debug_frame", 10),
        ("asm.cfi.eh_frame", 10),
    ] {
        let ok = ctx.obs.get(&format!("class.{}.ok", class)).copied().unwrap_or(0);
        let er = ctx.obs.get(&format!("class.{}.err", class)).copied().unwrap_or(0);
        if ok + er >= 20 && ok * 100 < floor_pct * (ok + er) {
            ctx.inconclusive(&format!("class {}: only {} of {} conversions succeeded (floor {}%)", class, ok, ok + er, floor_pct));
        }
    }
}

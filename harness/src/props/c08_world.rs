//! C08, unit-level part: hand-assembled units (main / dwo / skeleton+split) driven through
//! `Dwarf::{unit, attr_ranges_offset, attr_ranges, ranges, raw_ranges, die_ranges,
//! unit_ranges, attr_locations_offset, attr_locations, locations, raw_locations}` and the
//! `UnitRef` twins, compared with `model::lists`.

use super::{drain, judge, obs_enc, obs_items, obs_stats, raw_loc_item, raw_rng_item, res_of_loc, res_of_range, tail_of_end, ExpTail, Seq, Slice, Tail};
use crate::asm::Enc;
use crate::gen::lists::{self as g, dwc, AttrSpec, DieSpec, FormVal};
use crate::model::lists::{self as m, AddrVal, DieAttr, DieRanges, Flavor, Item};
use crate::mon::entries::Secs;
use crate::rt::{hex, Ctx, Rng};
use gimli::SectionId;
use serde_json::{json, Value};

#[derive(Clone, Copy, Debug, PartialEq)]
pub enum Mode {
    Main,
    /// one `Dwarf` with `file_type = Dwo`
    Dwo,
    /// skeleton in a parent `Dwarf`, split unit in its own `Dwarf` + `make_dwo`
    Split { copy: bool },
}

#[derive(Clone, Debug, PartialEq)]
pub enum RangesAttr {
    Offset { raw: u64 },
    Index(u64),
}

#[derive(Clone, Debug, PartialEq)]
pub enum LocAttr {
    Offset(u64),
    Index(u64),
    Expr(Vec<u8>),
}

#[derive(Clone, Debug)]
pub struct DieExp {
    pub sem: Vec<DieAttr>,
    pub ranges: Option<RangesAttr>,
    pub loc: Option<LocAttr>,
}

#[derive(Clone, Copy, Debug, PartialEq, Default)]
pub struct Fields {
    pub low_pc: u64,
    pub addr_base: u64,
    pub rnglists_base: u64,
    pub loclists_base: u64,
}

pub struct World {
    pub enc: Enc,
    pub mode: Mode,
    /// sections of the main file / the only file / the parent of a split unit
    pub main: Secs,
    /// sections of the .dwo file (keyed by the non-dwo section ids)
    pub dwo: Option<Secs>,
    // ---- what the model reads
    pub eff_addr: Vec<u8>,
    pub eff_rng: Vec<u8>,
    pub rng_flavor: Flavor,
    pub eff_loc: Vec<u8>,
    pub loc_flavor: Flavor,
    pub fields: Fields,
    /// root first, then the children in order
    pub dies: Vec<DieExp>,
    pub notes: Vec<String>,
    /// what the assembler placed (self-check of the model decoder)
    pub rng_lists: Vec<g::PlacedList>,
    pub loc_lists: Vec<g::PlacedList>,
    /// set when a section was damaged after generation
    pub mutated: Option<String>,
}

impl World {
    /// Replace the bytes of one of the three sections the lists depend on
    /// (0 = ranges, 1 = locations, 2 = .debug_addr), in the file where it lives.
    pub fn replace_section(&mut self, which: u8, bytes: Vec<u8>) {
        let v5 = self.enc.version >= 5;
        let split = matches!(self.mode, Mode::Split { .. });
        match which {
            0 => {
                self.eff_rng = bytes.clone();
                if v5 {
                    if split { self.dwo.as_mut().unwrap() } else { &mut self.main }.set(SectionId::DebugRngLists, bytes);
                } else {
                    self.main.set(SectionId::DebugRanges, bytes);
                }
            }
            1 => {
                self.eff_loc = bytes.clone();
                let id = if v5 { SectionId::DebugLocLists } else { SectionId::DebugLoc };
                if split { self.dwo.as_mut().unwrap() } else { &mut self.main }.set(id, bytes);
            }
            _ => {
                self.eff_addr = bytes.clone();
                self.main.set(SectionId::DebugAddr, bytes);
            }
        }
    }
    /// The model decoder must reproduce what the assembler placed.
    pub fn self_check(&self) -> Result<(), String> {
        for (sec, flavor, lists) in [(&self.eff_rng, self.rng_flavor, &self.rng_lists), (&self.eff_loc, self.loc_flavor, &self.loc_lists)] {
            for pl in lists.iter() {
                match m::decode(sec, pl.off, flavor, self.enc.le, self.enc.addr) {
                    Some(d) if d.items == pl.items && d.end == m::End::EndOfList => {}
                    other => return Err(format!("model decode of {flavor:?} list at {} disagrees with the assembler: {other:?} vs {:?}", pl.off, pl.items)),
                }
            }
        }
        Ok(())
    }
    pub fn is_dwo(&self) -> bool {
        self.mode != Mode::Main
    }
    pub fn json(&self) -> Value {
        json!({
            "enc": self.enc.label(),
            "mode": format!("{:?}", self.mode),
            "main": self.main.json(),
            "dwo": self.dwo.as_ref().map(|d| d.json()),
            "expected_fields": format!("{:?}", self.fields),
            "dies": self.dies.iter().map(|d| format!("{:?} ranges={:?} loc={:?}", d.sem, d.ranges, d.loc)).collect::<Vec<_>>(),
            "notes": self.notes,
            "mutated": self.mutated,
        })
    }
    pub fn digest_bytes(&self) -> Vec<u8> {
        let mut h = self.main.digest().to_le_bytes().to_vec();
        if let Some(d) = &self.dwo {
            h.extend_from_slice(&d.digest().to_le_bytes());
        }
        h.extend_from_slice(format!("{:?}{}", self.mode, self.enc.label()).as_bytes());
        h
    }
}

// ================================================================ building a world

/// What a child DIE should contain (the `die` stream enumerates these; `unit` draws them).
#[derive(Clone, Debug)]
pub struct ChildPlan {
    /// "absent" | "addr" | "addrx"
    pub low: &'static str,
    /// one of `g::HIGH_PC_FORMS`
    pub high: &'static str,
    /// "absent" | "sec_offset" | "rnglistx" | "other"
    pub ranges: &'static str,
    /// "absent" | "sec_offset" | "loclistx" | "exprloc"
    pub loc: &'static str,
    /// 0: low, high, ranges; 1: ranges, high, low; 2: high, ranges, low
    pub order: u8,
    /// shuffle instead of `order`
    pub shuffle: bool,
}

pub struct Knobs {
    pub mode: Mode,
    /// unit base selector (`g::unit_base`), `None` = no DW_AT_low_pc on the root
    pub low_pc: Option<usize>,
    pub low_pc_indexed: bool,
    pub children: Vec<ChildPlan>,
    pub root: ChildPlan,
    /// emit explicit DW_AT_rnglists_base / DW_AT_loclists_base in a v5 dwo unit
    pub explicit_bases: bool,
    pub long_lists: bool,
}

fn shuffle_attrs(r: &mut Rng, v: &mut Vec<(AttrSpec, Option<DieAttr>)>) {
    r.shuffle(v);
}

pub fn build_world(r: &mut Rng, enc: Enc, k: &Knobs) -> World {
    let mask = enc.addr_mask();
    let v5 = enc.version >= 5;
    let dwo = k.mode != Mode::Main;
    let split = matches!(k.mode, Mode::Split { .. });
    let copy = matches!(k.mode, Mode::Split { copy: true });
    let mut notes = vec![];

    // ---- address table
    let n_addr = 3 + r.usize(8);
    let mut entries = g::gen_addr_entries(r, mask, n_addr);
    let unit_low = k.low_pc.map(|s| g::unit_base(s, mask));
    let low_idx = r.usize(entries.len());
    if let (Some(v), true) = (unit_low, k.low_pc_indexed) {
        entries[low_idx] = v;
    }
    let layout = r.below(4);
    let at = g::build_addr_table(r, enc, layout, &entries);
    // who carries the addr_base attribute: the unit itself (main, dwo, split without copy)
    // or the skeleton (split with copy)
    let addr_base = at.base;

    // ---- range lists
    let rng_flavor = if v5 { Flavor::Rle } else { Flavor::Ranges };
    let loc_flavor = if v5 {
        Flavor::Lle
    } else if dwo {
        Flavor::GnuLle
    } else {
        Flavor::Loc
    };
    let eff_low = unit_low.unwrap_or(0);
    let mk_lists = |r: &mut Rng, flavor: Flavor| -> Vec<(Vec<Item>, bool)> {
        let cx = g::ItemCtx { flavor, addr: enc.addr, addrs: &entries, base: eff_low, gnu_v5_kinds: false };
        let n_lists = 1 + r.usize(3);
        (0..n_lists)
            .map(|_| {
                let n = if k.long_lists && r.chance(1, 3) { 10 + r.usize(21) } else { r.usize(7) };
                (g::gen_items(r, &cx, n), true)
            })
            .collect()
    };
    // a v5 dwo unit without explicit bases needs its table right after the first header
    let want_grb = !v5 && r.chance(2, 3);
    let pre = if v5 && dwo && !k.explicit_bases {
        0
    } else if want_grb {
        1
    } else {
        r.usize(2)
    };
    let rl = mk_lists(r, rng_flavor);
    let rsec = g::build_list_section(r, enc, rng_flavor, &rl, pre, true, 0);
    let ll = mk_lists(r, loc_flavor);
    let lpre = if v5 && dwo && !k.explicit_bases { 0 } else { r.usize(2) };
    let lsec = g::build_list_section(r, enc, loc_flavor, &ll, lpre, true, 0);

    // GNU ranges base (version <= 4): a value subtracted from the raw offsets in a dwo unit
    let gnu_ranges_base: u64 = if want_grb {
        let first = rsec.lists.first().map(|l| l.off).unwrap_or(0);
        if enc.fmt64 && r.chance(1, 4) {
            // larger than some offsets: raw offsets wrap at 64 bits (raw + base wraps back)
            1 + r.below(rsec.bytes.len() as u64 + 3)
        } else {
            r.range(1, first.max(1))
        }
    } else {
        0
    };

    // ---- unit fields (expected)
    // rnglists_base / loclists_base attributes of the unit itself
    let own_rng_base_attr: Option<u64> = if v5 {
        if !dwo || k.explicit_bases {
            Some(rsec.table_base)
        } else {
            None
        }
    } else if !split && gnu_ranges_base != 0 {
        // DW_AT_GNU_ranges_base on the unit itself (main: must be ignored for offsets;
        // Mode::Dwo: the unit's own value is used)
        Some(gnu_ranges_base)
    } else {
        None
    };
    let own_loc_base_attr: Option<u64> = if v5 && (!dwo || k.explicit_bases) { Some(lsec.table_base) } else { None };
    let own_addr_base_attr: Option<u64> = if copy { None } else { Some(addr_base) };
    let own_low: Option<(u64, bool)> = if copy {
        // the split unit itself may carry a (different) direct low_pc that copy overrides
        if r.chance(1, 3) {
            Some((g::gen_addr(r, mask), false))
        } else {
            None
        }
    } else {
        unit_low.map(|v| (v, k.low_pc_indexed))
    };
    let default_rng = m::default_lists_base(enc.version, dwo, enc.fmt64);
    let mut fields = Fields {
        low_pc: own_low.map(|x| x.0).unwrap_or(0),
        addr_base: own_addr_base_attr.unwrap_or(0),
        rnglists_base: own_rng_base_attr.unwrap_or(default_rng),
        loclists_base: own_loc_base_attr.unwrap_or(default_rng),
    };
    if copy {
        fields.low_pc = eff_low;
        fields.addr_base = addr_base;
        if !v5 {
            fields.rnglists_base = gnu_ranges_base;
        }
    }
    if !(copy) && split && !v5 {
        // split without copy: nobody tells the dwo unit about the ranges base
        notes.push("split without copy_relocated_attributes".into());
    }

    // ---- DIEs
    let index_ok = v5 && rsec.table_len > 0;
    let lindex_ok = v5 && lsec.table_len > 0;
    let mut die_no = 0u32;
    let mut mk_die = |r: &mut Rng, plan: &ChildPlan, is_root: bool, extra: Vec<AttrSpec>| -> (DieSpec, DieExp) {
        die_no += 1;
        let mut core: Vec<(u8, AttrSpec, Option<DieAttr>)> = vec![];
        // low_pc
        let low_val: Option<u64>;
        match (is_root, plan.low) {
            (true, _) => match own_low {
                Some((v, indexed)) => {
                    let (s, a) = g::addr_attr(r, enc, dwc::AT_LOW_PC, v, if indexed { Some(low_idx as u64) } else { None });
                    core.push((0, s, Some(DieAttr::LowPc(a))));
                    low_val = Some(v);
                }
                None => low_val = None,
            },
            (false, "addr") => {
                let v = g::gen_addr(r, mask);
                let (s, a) = g::addr_attr(r, enc, dwc::AT_LOW_PC, v, None);
                core.push((0, s, Some(DieAttr::LowPc(a))));
                low_val = Some(v);
            }
            (false, "addrx") => {
                let i = if r.chance(1, 12) { entries.len() as u64 + r.below(3) } else { r.below(entries.len() as u64) };
                let (s, a) = g::addr_attr(r, enc, dwc::AT_LOW_PC, 0, Some(i));
                core.push((0, s, Some(DieAttr::LowPc(a))));
                low_val = entries.get(i as usize).copied();
            }
            _ => low_val = None,
        }
        // high_pc
        let lv = low_val.unwrap_or(0);
        let size = match r.below(8) {
            0 => 0,
            1 => 1,
            2 => mask.wrapping_sub(lv),
            3 => mask.wrapping_sub(lv).wrapping_add(1),
            4 => r.boundary(),
            _ => 1 + r.below(0x1000),
        };
        let end_idx = r.below(entries.len() as u64);
        let end = match r.below(4) {
            0 => lv,
            1 => g::gen_addr(r, mask),
            _ => lv.wrapping_add(1 + r.below(0x100)) & mask,
        };
        if let Some((s, a)) = g::high_pc_attr(r, enc, plan.high, end, end_idx, size) {
            core.push((1, s, Some(a)));
        }
        // ranges
        let mut ranges = None;
        match plan.ranges {
            "sec_offset" => {
                let pl = &rsec.lists[r.usize(rsec.lists.len())];
                // hostile: an offset beyond the section now and then
                let target = if r.chance(1, 30) { rsec.bytes.len() as u64 + 1 + r.below(4) } else { pl.off };
                // in a GNU dwo unit the attribute holds target - ranges_base
                let raw = if dwo && !v5 { target.wrapping_sub(fields.rnglists_base) } else { target };
                let raw = if enc.fmt64 { raw } else { raw & 0xffff_ffff };
                let eff = m::ranges_offset_from_raw(dwo, enc.version, raw, fields.rnglists_base);
                core.push((2, g::secoff_attr(enc, dwc::AT_RANGES, raw), Some(DieAttr::RangesOffset(eff))));
                ranges = Some(RangesAttr::Offset { raw });
            }
            "rnglistx" if index_ok => {
                let i = if r.chance(1, 12) { rsec.table_len as u64 + r.below(40) } else { r.below(rsec.table_len as u64) };
                core.push((2, AttrSpec { name: dwc::AT_RANGES, form: dwc::FORM_RNGLISTX, val: FormVal::Uleb(i) }, Some(DieAttr::RangesIndex(i))));
                ranges = Some(RangesAttr::Index(i));
            }
            "other" => {
                core.push((2, AttrSpec { name: dwc::AT_RANGES, form: dwc::FORM_DATA1, val: FormVal::Uint(1, r.below(256)) }, Some(DieAttr::RangesOtherForm)));
            }
            _ => {}
        }
        // location
        let mut loc = None;
        let loc_name = if r.chance(1, 4) { dwc::AT_FRAME_BASE } else { dwc::AT_LOCATION };
        match plan.loc {
            "sec_offset" => {
                let pl = &lsec.lists[r.usize(lsec.lists.len())];
                let target = if r.chance(1, 30) { lsec.bytes.len() as u64 + 1 + r.below(4) } else { pl.off };
                core.push((3, g::secoff_attr(enc, loc_name, target), None));
                loc = Some(LocAttr::Offset(target));
            }
            "loclistx" if lindex_ok => {
                let i = if r.chance(1, 12) { lsec.table_len as u64 + r.below(40) } else { r.below(lsec.table_len as u64) };
                core.push((3, AttrSpec { name: loc_name, form: dwc::FORM_LOCLISTX, val: FormVal::Uleb(i) }, None));
                loc = Some(LocAttr::Index(i));
            }
            "exprloc" => {
                let x = g::gen_expr(r);
                let x = if x.len() > 200 { x[..200].to_vec() } else { x };
                if enc.version >= 4 {
                    core.push((3, AttrSpec { name: loc_name, form: dwc::FORM_EXPRLOC, val: FormVal::Block(x.clone()) }, None));
                } else {
                    core.push((3, AttrSpec { name: loc_name, form: dwc::FORM_BLOCK1, val: FormVal::Block1(x.clone()) }, None));
                }
                loc = Some(LocAttr::Expr(x));
            }
            _ => {}
        }
        // order
        let mut all: Vec<(AttrSpec, Option<DieAttr>)> = vec![];
        if plan.shuffle {
            all = core.into_iter().map(|(_, s, a)| (s, a)).collect();
            for s in extra {
                all.push((s, None));
            }
            // decoys
            if r.chance(1, 3) {
                all.push((AttrSpec { name: dwc::AT_ENTRY_PC, form: dwc::FORM_ADDR, val: FormVal::Addr(g::gen_addr(r, mask)) }, None));
            }
            if r.chance(1, 3) {
                all.push((AttrSpec { name: dwc::AT_NAME, form: dwc::FORM_STRING, val: FormVal::Str(format!("d{die_no}").into_bytes()) }, None));
            }
            shuffle_attrs(r, &mut all);
        } else {
            let ord: [u8; 3] = match plan.order {
                0 => [0, 1, 2],
                1 => [2, 1, 0],
                _ => [1, 2, 0],
            };
            for s in extra {
                all.push((s, None));
            }
            for o in ord {
                for (k2, s, a) in &core {
                    if *k2 == o {
                        all.push((s.clone(), a.clone()));
                    }
                }
            }
            for (k2, s, a) in &core {
                if *k2 == 3 {
                    all.push((s.clone(), a.clone()));
                }
            }
        }
        let sem: Vec<DieAttr> = all.iter().filter_map(|(_, a)| a.clone()).collect();
        let tag = if is_root { dwc::TAG_COMPILE_UNIT } else { *r.pick(&[dwc::TAG_SUBPROGRAM, dwc::TAG_VARIABLE, dwc::TAG_LEXICAL_BLOCK]) };
        (DieSpec { tag, attrs: all.into_iter().map(|(s, _)| s).collect() }, DieExp { sem, ranges, loc })
    };

    // root extras: the base attributes
    let mut extra = vec![];
    if let Some(b) = own_addr_base_attr {
        // an addr_base of 0 may be left implicit
        if b != 0 || r.chance(1, 2) {
            let name = if v5 || r.chance(1, 4) { dwc::AT_ADDR_BASE } else { dwc::AT_GNU_ADDR_BASE };
            extra.push(g::base_attr(name, b));
        }
    }
    if let Some(b) = own_rng_base_attr {
        let name = if v5 { dwc::AT_RNGLISTS_BASE } else { dwc::AT_GNU_RANGES_BASE };
        extra.push(g::base_attr(name, b));
    }
    if let Some(b) = own_loc_base_attr {
        extra.push(g::base_attr(dwc::AT_LOCLISTS_BASE, b));
    }
    if dwo && !v5 {
        extra.push(AttrSpec { name: dwc::AT_GNU_DWO_ID, form: dwc::FORM_DATA8, val: FormVal::Uint(8, 0x1122_3344_5566_7788) });
    }
    let (root_spec, root_exp) = mk_die(r, &k.root, true, extra);
    let mut specs = vec![];
    let mut dies = vec![root_exp];
    for c in &k.children {
        let (s, e) = mk_die(r, c, false, vec![]);
        specs.push(s);
        dies.push(e);
    }
    let dwo_id = 0x1122_3344_5566_7788u64;
    let unit_type = if dwo { dwc::UT_SPLIT_COMPILE } else { dwc::UT_COMPILE };
    let bu = g::build_unit(enc, unit_type, dwo_id, &root_spec, &specs);

    // ---- sections
    let mut main = Secs::default();
    let mut dwo_secs = None;
    let put_lists = |s: &mut Secs| {
        if v5 {
            s.set(SectionId::DebugRngLists, rsec.bytes.clone());
            s.set(SectionId::DebugLocLists, lsec.bytes.clone());
        } else {
            s.set(SectionId::DebugLoc, lsec.bytes.clone());
        }
    };
    if split {
        // parent: skeleton unit, .debug_addr, .debug_ranges
        let mut sk_attrs = vec![];
        if let Some(v) = unit_low {
            let (s, _) = g::addr_attr(r, enc, dwc::AT_LOW_PC, v, if k.low_pc_indexed { Some(low_idx as u64) } else { None });
            sk_attrs.push(s);
        }
        if addr_base != 0 || r.chance(1, 2) {
            sk_attrs.push(g::base_attr(if v5 { dwc::AT_ADDR_BASE } else { dwc::AT_GNU_ADDR_BASE }, addr_base));
        }
        if !v5 && gnu_ranges_base != 0 {
            sk_attrs.push(g::base_attr(dwc::AT_GNU_RANGES_BASE, gnu_ranges_base));
        }
        if !v5 {
            sk_attrs.push(AttrSpec { name: dwc::AT_GNU_DWO_ID, form: dwc::FORM_DATA8, val: FormVal::Uint(8, dwo_id) });
        }
        r.shuffle(&mut sk_attrs);
        let sk = g::build_unit(enc, dwc::UT_SKELETON, dwo_id, &DieSpec { tag: if v5 { dwc::TAG_SKELETON_UNIT } else { dwc::TAG_COMPILE_UNIT }, attrs: sk_attrs }, &[]);
        main.set(SectionId::DebugInfo, sk.info);
        main.set(SectionId::DebugAbbrev, sk.abbrev);
        main.set(SectionId::DebugAddr, at.bytes.clone());
        if !v5 {
            main.set(SectionId::DebugRanges, rsec.bytes.clone());
        }
        let mut d = Secs::default();
        d.set(SectionId::DebugInfo, bu.info);
        d.set(SectionId::DebugAbbrev, bu.abbrev);
        // decoys that make_dwo must replace
        d.set(SectionId::DebugAddr, vec![0xdd; 64]);
        d.set(SectionId::DebugRanges, vec![0xdd; 64]);
        put_lists(&mut d);
        dwo_secs = Some(d);
    } else {
        main.set(SectionId::DebugInfo, bu.info);
        main.set(SectionId::DebugAbbrev, bu.abbrev);
        main.set(SectionId::DebugAddr, at.bytes.clone());
        if !v5 {
            main.set(SectionId::DebugRanges, rsec.bytes.clone());
        }
        put_lists(&mut main);
    }
    World {
        enc,
        mode: k.mode,
        main,
        dwo: dwo_secs,
        eff_addr: at.bytes,
        eff_rng: rsec.bytes.clone(),
        rng_flavor,
        eff_loc: lsec.bytes.clone(),
        loc_flavor,
        fields,
        dies,
        notes,
        rng_lists: rsec.lists,
        loc_lists: lsec.lists,
        mutated: None,
    }
}

// ================================================================ running gimli on a world

#[derive(Debug, Default)]
pub struct DieObs {
    pub die_ranges: Option<Seq<m::Res>>,
    pub die_ranges_ref: Option<Seq<m::Res>>,
    pub ranges_offset: Option<Result<Option<u64>, String>>,
    pub ranges_offset_ref: Option<Result<Option<u64>, String>>,
    pub attr_ranges: Option<Result<Option<Seq<m::Res>>, String>>,
    pub attr_ranges_ref: Option<Result<Option<Seq<m::Res>>, String>>,
    pub ranges: Option<Seq<m::Res>>,
    pub raw_ranges: Option<Seq<Item>>,
    pub ranges_ref: Option<Seq<m::Res>>,
    pub raw_ranges_ref: Option<Seq<Item>>,
    /// `ranges_offset` / `ranges_offset_from_raw` on the attribute's index / raw offset
    pub index_offset: Option<Result<u64, String>>,
    pub from_raw: Option<u64>,
    pub loc_offset: Option<Result<Option<u64>, String>>,
    pub attr_locations: Option<Result<Option<Seq<m::Res>>, String>>,
    pub attr_locations_ref: Option<Result<Option<Seq<m::Res>>, String>>,
    pub locations: Option<Seq<m::Res>>,
    pub raw_locations: Option<Seq<Item>>,
    pub locations_ref: Option<Seq<m::Res>>,
    pub raw_locations_ref: Option<Seq<Item>>,
    pub loc_index_offset: Option<Result<u64, String>>,
    pub loc_form_other: bool,
}

#[derive(Debug, Default)]
pub struct WorldObs {
    pub fields: Fields,
    pub dies: Vec<DieObs>,
    pub unit_ranges: Option<Seq<m::Res>>,
    pub unit_ranges_ref: Option<Seq<m::Res>>,
    pub error: Option<String>,
}

fn load<'a>(s: &'a Secs, e: gimli::RunTimeEndian) -> gimli::Dwarf<Slice<'a>> {
    gimli::Dwarf::load(|id| -> Result<Slice<'a>, ()> { Ok(gimli::EndianSlice::new(s.get(id), e)) }).unwrap()
}

fn es(e: gimli::Error) -> String {
    format!("{e:?}")
}

fn seq_rng(limit: usize, it: gimli::Result<gimli::RngListIter<Slice<'_>>>) -> Seq<m::Res> {
    match it {
        Ok(mut it) => drain(limit, || it.next().map(|o| o.map(res_of_range))),
        Err(e) => Seq::open_err(e),
    }
}

fn seq_loc(limit: usize, it: gimli::Result<gimli::LocListIter<Slice<'_>>>) -> Seq<m::Res> {
    match it {
        Ok(mut it) => drain(limit, || it.next().map(|o| o.map(res_of_loc))),
        Err(e) => Seq::open_err(e),
    }
}

fn seq_range_iter(limit: usize, it: gimli::Result<gimli::RangeIter<Slice<'_>>>) -> Seq<m::Res> {
    match it {
        Ok(mut it) => drain(limit, || it.next().map(|o| o.map(res_of_range))),
        Err(e) => Seq::open_err(e),
    }
}

pub fn run_world(w: &World) -> WorldObs {
    let e = w.enc.endian();
    let mut out = WorldObs::default();
    let limit = w.eff_rng.len() + w.eff_loc.len() + 16;
    let mut parent = load(&w.main, e);
    let dwarf_owned;
    let mut skel_unit = None;
    let dwarf: &gimli::Dwarf<Slice<'_>> = match w.mode {
        Mode::Main => &parent,
        Mode::Dwo => {
            parent.file_type = gimli::DwarfFileType::Dwo;
            &parent
        }
        Mode::Split { .. } => {
            let mut d = load(w.dwo.as_ref().unwrap(), e);
            d.make_dwo(&parent);
            dwarf_owned = d;
            // skeleton unit from the parent
            let h = match parent.units().next() {
                Ok(Some(h)) => h,
                other => {
                    out.error = Some(format!("skeleton header: {other:?}"));
                    return out;
                }
            };
            match parent.unit(h) {
                Ok(u) => skel_unit = Some(u),
                Err(e) => {
                    out.error = Some(format!("skeleton unit: {e:?}"));
                    return out;
                }
            }
            &dwarf_owned
        }
    };
    let header = match dwarf.units().next() {
        Ok(Some(h)) => h,
        other => {
            out.error = Some(format!("unit header: {other:?}"));
            return out;
        }
    };
    let mut unit = match dwarf.unit(header) {
        Ok(u) => u,
        Err(e) => {
            out.error = Some(format!("Dwarf::unit: {e:?}"));
            return out;
        }
    };
    if let (Mode::Split { copy: true }, Some(sk)) = (w.mode, &skel_unit) {
        unit.copy_relocated_attributes(sk);
    }
    out.fields = Fields {
        low_pc: unit.low_pc,
        addr_base: unit.addr_base.0 as u64,
        rnglists_base: unit.rnglists_base.0 as u64,
        loclists_base: unit.loclists_base.0 as u64,
    };
    let uref = unit.unit_ref(dwarf);
    out.unit_ranges = Some(seq_range_iter(limit, dwarf.unit_ranges(&unit)));
    out.unit_ranges_ref = Some(seq_range_iter(limit, uref.unit_ranges()));
    let mut cursor = unit.entries();
    let mut guard = 0;
    loop {
        guard += 1;
        if guard > 64 {
            out.error = Some("entries do not end".into());
            return out;
        }
        let entry = match cursor.next_dfs() {
            Ok(Some(e)) => e,
            Ok(None) => break,
            Err(e) => {
                out.error = Some(format!("next_dfs: {e:?}"));
                return out;
            }
        };
        let mut o = DieObs::default();
        o.die_ranges = Some(seq_range_iter(limit, dwarf.die_ranges(&unit, entry)));
        o.die_ranges_ref = Some(seq_range_iter(limit, uref.die_ranges(entry)));
        for a in entry.attrs() {
            let name = a.name().0 as u64;
            if name == dwc::AT_RANGES {
                let v = a.value();
                o.ranges_offset = Some(dwarf.attr_ranges_offset(&unit, v.clone()).map(|x| x.map(|y| y.0 as u64)).map_err(es));
                o.ranges_offset_ref = Some(uref.attr_ranges_offset(v.clone()).map(|x| x.map(|y| y.0 as u64)).map_err(es));
                o.attr_ranges = Some(match dwarf.attr_ranges(&unit, v.clone()) {
                    Ok(Some(it)) => Ok(Some(seq_rng(limit, Ok(it)))),
                    Ok(None) => Ok(None),
                    Err(e) => Err(es(e)),
                });
                o.attr_ranges_ref = Some(match uref.attr_ranges(v.clone()) {
                    Ok(Some(it)) => Ok(Some(seq_rng(limit, Ok(it)))),
                    Ok(None) => Ok(None),
                    Err(e) => Err(es(e)),
                });
                match v {
                    gimli::AttributeValue::RangeListsRef(raw) => {
                        o.from_raw = Some(dwarf.ranges_offset_from_raw(&unit, raw).0 as u64);
                    }
                    gimli::AttributeValue::DebugRngListsIndex(i) => {
                        o.index_offset = Some(dwarf.ranges_offset(&unit, i).map(|x| x.0 as u64).map_err(es));
                    }
                    _ => {}
                }
                if let Some(Ok(Some(off))) = &o.ranges_offset {
                    let off = gimli::RangeListsOffset(*off as usize);
                    o.ranges = Some(seq_rng(limit, dwarf.ranges(&unit, off)));
                    o.ranges_ref = Some(seq_rng(limit, uref.ranges(off)));
                    o.raw_ranges = Some(match dwarf.raw_ranges(&unit, off) {
                        Ok(mut it) => drain(limit, || it.next().map(|x| x.map(raw_rng_item))),
                        Err(e) => Seq::open_err(e),
                    });
                    o.raw_ranges_ref = Some(match uref.raw_ranges(off) {
                        Ok(mut it) => drain(limit, || it.next().map(|x| x.map(raw_rng_item))),
                        Err(e) => Seq::open_err(e),
                    });
                }
            } else if name == dwc::AT_LOCATION || name == dwc::AT_FRAME_BASE {
                let v = a.value();
                o.loc_offset = Some(dwarf.attr_locations_offset(&unit, v.clone()).map(|x| x.map(|y| y.0 as u64)).map_err(es));
                o.attr_locations = Some(match dwarf.attr_locations(&unit, v.clone()) {
                    Ok(Some(it)) => Ok(Some(seq_loc(limit, Ok(it)))),
                    Ok(None) => Ok(None),
                    Err(e) => Err(es(e)),
                });
                o.attr_locations_ref = Some(match uref.attr_locations(v.clone()) {
                    Ok(Some(it)) => Ok(Some(seq_loc(limit, Ok(it)))),
                    Ok(None) => Ok(None),
                    Err(e) => Err(es(e)),
                });
                if let gimli::AttributeValue::DebugLocListsIndex(i) = v {
                    o.loc_index_offset = Some(dwarf.locations_offset(&unit, i).map(|x| x.0 as u64).map_err(es));
                }
                if let Some(Ok(Some(off))) = &o.loc_offset {
                    let off = gimli::LocationListsOffset(*off as usize);
                    o.locations = Some(seq_loc(limit, dwarf.locations(&unit, off)));
                    o.raw_locations = Some(match dwarf.raw_locations(&unit, off) {
                        Ok(mut it) => drain(limit, || it.next().map(|x| x.map(raw_loc_item))),
                        Err(e) => Seq::open_err(e),
                    });
                    o.locations_ref = Some(seq_loc(limit, uref.locations(off)));
                    o.raw_locations_ref = Some(match uref.raw_locations(off) {
                        Ok(mut it) => drain(limit, || it.next().map(|x| x.map(raw_loc_item))),
                        Err(e) => Seq::open_err(e),
                    });
                } else if let Some(Ok(None)) = &o.loc_offset {
                    o.loc_form_other = true;
                }
            }
        }
        out.dies.push(o);
    }
    out
}

// ================================================================ judging a world

struct ListExp {
    raw: Vec<Item>,
    raw_tail: ExpTail,
    cooked: Vec<m::Res>,
    cooked_tail: ExpTail,
}

fn list_exp(ctx: &mut Ctx, w: &World, loc: bool, off: u64) -> ListExp {
    let (sec, flavor) = if loc { (&w.eff_loc, w.loc_flavor) } else { (&w.eff_rng, w.rng_flavor) };
    match m::decode(sec, off, flavor, w.enc.le, w.enc.addr) {
        None => ListExp { raw: vec![], raw_tail: ExpTail::OpenErr, cooked: vec![], cooked_tail: ExpTail::OpenErr },
        Some(dec) => {
            let cx = m::ResolveCtx { addr_size: w.enc.addr, le: w.enc.le, base: w.fields.low_pc, debug_addr: &w.eff_addr, addr_base: w.fields.addr_base };
            let exp = super::expect_for(&dec.items, dec.end, &cx);
            obs_stats(ctx, &exp.stats);
            obs_items(ctx, flavor, &dec.items);
            if exp.lookup_failed {
                ctx.obs("model.addr_lookup_failed");
            }
            ListExp { raw: exp.raw_items, raw_tail: tail_of_end(dec.end), cooked: exp.cooked, cooked_tail: exp.cooked_tail }
        }
    }
}

fn judge_opt_seq(ctx: &mut Ctx, sig: &str, exp: &ListExp, got: &Option<Seq<m::Res>>, input: &dyn Fn() -> Value) {
    match got {
        Some(s) => {
            ctx.obs("cooked.compared");
            judge(ctx, sig, &exp.cooked, exp.cooked_tail, s, input);
        }
        None => ctx.fail(&format!("{sig}.missing"), &format!("{sig}: not observed (the attribute was not found or its offset was not reported)"), input),
    }
}

pub fn judge_world(ctx: &mut Ctx, tag: &str, w: &World, obs: &WorldObs, input: &dyn Fn() -> Value) {
    if let Some(e) = &obs.error {
        ctx.fail(&format!("{tag}.setup"), &format!("{tag}: could not open the generated unit: {e}"), input);
        return;
    }
    ctx.obs("unit.fields");
    ctx.check_eq(&format!("{tag}.Unit.fields"), &w.fields, &obs.fields, input);
    if obs.dies.len() != w.dies.len() {
        ctx.check_eq(&format!("{tag}.die_count"), &w.dies.len(), &obs.dies.len(), input);
        return;
    }
    let dwo = w.is_dwo();
    let enc = w.enc;
    for (i, (de, dobs)) in w.dies.iter().zip(obs.dies.iter()).enumerate() {
        ctx.eval();
        // ---- die_ranges
        let idx2off = |ix: u64| m::table_offset(&w.eff_rng, enc.le, enc.fmt64, w.fields.rnglists_base, ix);
        let addr = |ix: u64| m::lookup_addr(&w.eff_addr, enc.le, enc.addr, w.fields.addr_base, ix);
        let dr = m::die_ranges(&de.sem, enc.addr, &idx2off, &addr);
        let check_die = |ctx: &mut Ctx, sig: &str, got: &Option<Seq<m::Res>>| {
            let Some(got) = got else {
                ctx.fail(&format!("{sig}.missing"), "die_ranges not observed", input);
                return;
            };
            match &dr {
                DieRanges::List(off) => {
                    ctx.obs("die.list");
                    let le = list_exp(ctx, w, false, *off);
                    judge(ctx, &format!("{sig}.list"), &le.cooked, le.cooked_tail, got, input);
                }
                DieRanges::Single(r) => {
                    ctx.obs(if r.is_some() { "die.single.some" } else { "die.single.none" });
                    let exp: Vec<m::Res> = r.iter().map(|(b, e)| m::Res { begin: *b, end: *e, data: None }).collect();
                    judge(ctx, &format!("{sig}.single"), &exp, ExpTail::End, got, input);
                }
                DieRanges::Error => {
                    ctx.obs("die.error");
                    if !matches!(got.tail, Tail::OpenErr(_)) {
                        ctx.check_eq(&format!("{sig}.error"), &"Err".to_string(), &format!("{got:?}"), input);
                    }
                }
                DieRanges::Unjudged => ctx.obs("die.unjudged"),
            }
        };
        check_die(ctx, &format!("{tag}.die_ranges"), &dobs.die_ranges);
        check_die(ctx, &format!("{tag}.UnitRef.die_ranges"), &dobs.die_ranges_ref);
        if i == 0 {
            ctx.obs("unit.unit_ranges");
            check_die(ctx, &format!("{tag}.unit_ranges"), &obs.unit_ranges);
            check_die(ctx, &format!("{tag}.UnitRef.unit_ranges"), &obs.unit_ranges_ref);
        }
        // ---- DW_AT_ranges
        match &de.ranges {
            None => {
                // absent, or a form that is not a range list reference
                if let Some(r) = &dobs.ranges_offset {
                    ctx.check_eq(&format!("{tag}.attr_ranges_offset.other_form"), &Ok(None), r, input);
                }
                if let Some(r) = &dobs.attr_ranges {
                    if !matches!(r, Ok(None)) {
                        ctx.fail(&format!("{tag}.attr_ranges.other_form"), &format!("attr_ranges on a non-reference form: {r:?}"), input);
                    }
                }
            }
            Some(ra) => {
                let exp_off: Option<u64> = match ra {
                    RangesAttr::Offset { raw } => {
                        ctx.obs("unit.ranges.sec_offset");
                        let eff = m::ranges_offset_from_raw(dwo, enc.version, *raw, w.fields.rnglists_base);
                        if dwo && enc.version < 5 && w.fields.rnglists_base != 0 {
                            ctx.obs("unit.ranges.gnu_ranges_base");
                        }
                        if dwo && enc.version >= 5 {
                            ctx.obs("unit.ranges.dwo_v5_sec_offset");
                        }
                        ctx.check_eq(&format!("{tag}.ranges_offset_from_raw"), &Some(eff), &dobs.from_raw, input);
                        Some(eff)
                    }
                    RangesAttr::Index(ix) => {
                        ctx.obs("unit.ranges.rnglistx");
                        let e = idx2off(*ix);
                        let got = dobs.index_offset.clone().map(|r| r.ok());
                        ctx.obs(if e.is_some() { "get_offset.ok" } else { "get_offset.err" });
                        ctx.check_eq(&format!("{tag}.ranges_offset"), &Some(e), &got, input);
                        e
                    }
                };
                let got_off = dobs.ranges_offset.clone().map(|r| r.ok().flatten());
                ctx.check_eq(&format!("{tag}.attr_ranges_offset"), &Some(exp_off), &got_off, input);
                let got_off = dobs.ranges_offset_ref.clone().map(|r| r.ok().flatten());
                ctx.check_eq(&format!("{tag}.UnitRef.attr_ranges_offset"), &Some(exp_off), &got_off, input);
                match exp_off {
                    None => {
                        // index lookup fails: attr_ranges must fail too
                        if !matches!(dobs.attr_ranges, Some(Err(_))) {
                            ctx.fail(&format!("{tag}.attr_ranges.bad_index"), &format!("attr_ranges with an index outside the table: {:?}", dobs.attr_ranges), input);
                        }
                    }
                    Some(off) => {
                        let le = list_exp(ctx, w, false, off);
                        let unwrap = |x: &Option<Result<Option<Seq<m::Res>>, String>>| -> Option<Seq<m::Res>> {
                            match x {
                                Some(Ok(Some(s))) => Some(s.clone()),
                                Some(Err(e)) => Some(Seq { items: vec![], tail: Tail::OpenErr(e.clone()), after: vec![] }),
                                _ => None,
                            }
                        };
                        judge_opt_seq(ctx, &format!("{tag}.attr_ranges"), &le, &unwrap(&dobs.attr_ranges), input);
                        judge_opt_seq(ctx, &format!("{tag}.UnitRef.attr_ranges"), &le, &unwrap(&dobs.attr_ranges_ref), input);
                        judge_opt_seq(ctx, &format!("{tag}.Dwarf.ranges"), &le, &dobs.ranges, input);
                        judge_opt_seq(ctx, &format!("{tag}.UnitRef.ranges"), &le, &dobs.ranges_ref, input);
                        ctx.obs("unit.unitref");
                        for (nm, got) in [("Dwarf.raw_ranges", &dobs.raw_ranges), ("UnitRef.raw_ranges", &dobs.raw_ranges_ref)] {
                            match got {
                                Some(s) => {
                                    ctx.obs("raw.compared");
                                    judge(ctx, &format!("{tag}.{nm}"), &le.raw, le.raw_tail, s, input);
                                }
                                None => ctx.fail(&format!("{tag}.{nm}.missing"), "raw_ranges not observed", input),
                            }
                        }
                    }
                }
            }
        }
        // ---- DW_AT_location / DW_AT_frame_base
        match &de.loc {
            None => {}
            Some(LocAttr::Expr(_)) => {
                ctx.obs("unit.loc.exprloc");
                ctx.check_eq(&format!("{tag}.attr_locations_offset.exprloc"), &Some(Ok(None)), &dobs.loc_offset, input);
                if !matches!(dobs.attr_locations, Some(Ok(None))) {
                    ctx.fail(&format!("{tag}.attr_locations.exprloc"), &format!("attr_locations on an expression: {:?}", dobs.attr_locations), input);
                }
            }
            Some(la) => {
                let exp_off = match la {
                    LocAttr::Offset(o) => {
                        ctx.obs("unit.loc.sec_offset");
                        Some(*o)
                    }
                    LocAttr::Index(ix) => {
                        ctx.obs("unit.loc.loclistx");
                        let e = m::table_offset(&w.eff_loc, enc.le, enc.fmt64, w.fields.loclists_base, *ix);
                        ctx.obs(if e.is_some() { "get_offset.ok" } else { "get_offset.err" });
                        let got = dobs.loc_index_offset.clone().map(|r| r.ok());
                        ctx.check_eq(&format!("{tag}.locations_offset"), &Some(e), &got, input);
                        e
                    }
                    LocAttr::Expr(_) => None,
                };
                let got_off = dobs.loc_offset.clone().map(|r| r.ok().flatten());
                ctx.check_eq(&format!("{tag}.attr_locations_offset"), &Some(exp_off), &got_off, input);
                match exp_off {
                    None => {
                        if !matches!(dobs.attr_locations, Some(Err(_))) {
                            ctx.fail(&format!("{tag}.attr_locations.bad_index"), &format!("attr_locations with an index outside the table: {:?}", dobs.attr_locations), input);
                        }
                    }
                    Some(off) => {
                        let le = list_exp(ctx, w, true, off);
                        if !le.cooked.is_empty() {
                            ctx.obs("cooked.expr_compared");
                        }
                        let unwrap = |x: &Option<Result<Option<Seq<m::Res>>, String>>| -> Option<Seq<m::Res>> {
                            match x {
                                Some(Ok(Some(s))) => Some(s.clone()),
                                Some(Err(e)) => Some(Seq { items: vec![], tail: Tail::OpenErr(e.clone()), after: vec![] }),
                                _ => None,
                            }
                        };
                        judge_opt_seq(ctx, &format!("{tag}.attr_locations"), &le, &unwrap(&dobs.attr_locations), input);
                        judge_opt_seq(ctx, &format!("{tag}.UnitRef.attr_locations"), &le, &unwrap(&dobs.attr_locations_ref), input);
                        judge_opt_seq(ctx, &format!("{tag}.Dwarf.locations"), &le, &dobs.locations, input);
                        judge_opt_seq(ctx, &format!("{tag}.UnitRef.locations"), &le, &dobs.locations_ref, input);
                        for (nm, got) in [("Dwarf.raw_locations", &dobs.raw_locations), ("UnitRef.raw_locations", &dobs.raw_locations_ref)] {
                            match got {
                                Some(s) => {
                                    ctx.obs("raw.compared");
                                    judge(ctx, &format!("{tag}.{nm}"), &le.raw, le.raw_tail, s, input);
                                }
                                None => ctx.fail(&format!("{tag}.{nm}.missing"), "raw_locations not observed", input),
                            }
                        }
                    }
                }
            }
        }
    }
}

fn obs_world(ctx: &mut Ctx, w: &World, k: &Knobs) {
    obs_enc(ctx, w.enc);
    ctx.obs(match w.mode {
        Mode::Main => "unit.mode.main",
        Mode::Dwo => "unit.mode.dwo",
        Mode::Split { copy: true } => "unit.mode.split",
        Mode::Split { copy: false } => "unit.mode.split_nocopy",
    });
    match k.low_pc {
        None => ctx.obs("unit.lowpc.absent"),
        Some(0) => ctx.obs("unit.lowpc.zero"),
        Some(1) | Some(2) => ctx.obs("unit.lowpc.small"),
        Some(3) => ctx.obs("unit.lowpc.mid"),
        Some(_) => ctx.obs("unit.lowpc.nearmax"),
    }
    if k.low_pc.is_some() && k.low_pc_indexed {
        ctx.obs("unit.lowpc.indexed");
    }
    if w.enc.version >= 5 && w.is_dwo() {
        ctx.obs(if k.explicit_bases { "unit.base.explicit" } else { "unit.base.default_dwo_v5" });
    } else if w.enc.version >= 5 {
        ctx.obs("unit.base.explicit");
    }
}

// ================================================================ stream: die (exhaustive)

const LOWS: [&str; 3] = ["absent", "addr", "addrx"];
const RANGES: [&str; 4] = ["absent", "sec_offset", "rnglistx", "other"];

pub fn stream_die(ctx: &mut Ctx) {
    let mut idx = 0u64;
    for enc in Enc::all() {
        for low in LOWS {
            for high in g::HIGH_PC_FORMS {
                idx += 1;
                if !ctx.want("die", idx) {
                    continue;
                }
                let mut r = ctx.rng("die", idx);
                // one unit per (enc, low, high): children enumerate ranges form x order
                let mut children = vec![];
                for ranges in RANGES {
                    for order in 0..3u8 {
                        children.push(ChildPlan { low, high, ranges, loc: "absent", order, shuffle: false });
                    }
                }
                let mode = match idx % 3 {
                    0 => Mode::Main,
                    1 => Mode::Dwo,
                    _ => Mode::Split { copy: true },
                };
                let k = Knobs {
                    mode,
                    low_pc: Some((idx as usize / 3) % g::UNIT_BASES),
                    low_pc_indexed: false,
                    children,
                    root: ChildPlan { low, high, ranges: RANGES[(idx % 4) as usize], loc: "absent", order: (idx % 3) as u8, shuffle: false },
                    explicit_bases: idx % 2 == 0,
                    long_lists: false,
                };
                let w = build_world(&mut r, enc, &k);
                if let Err(e) = w.self_check() {
                    ctx.harness_error(&format!("die {idx}: {e}"));
                    continue;
                }
                obs_enc(ctx, enc);
                ctx.obs(&format!("die.low.{low}"));
                ctx.obs(&format!("die.high.{high}"));
                for c in &k.children {
                    if c.ranges == "rnglistx" && enc.version < 5 {
                        continue;
                    }
                    ctx.obs(&format!("die.ranges.{}", c.ranges));
                }
                let input = || w.json();
                let Some(obs) = ctx.guard("die", &input, || run_world(&w)) else { continue };
                judge_world(ctx, "die", &w, &obs, &input);
                ctx.counted_distinct += k.children.len() as u64;
                if idx % 997 == 5 {
                    ctx.sample("die", || json!({"enc": enc.label(), "low": low, "high": high, "mode": format!("{:?}", w.mode), "child0": format!("{:?}", w.dies.get(1).map(|d| &d.sem)), "die_ranges(child0)": format!("{:?}", obs.dies.get(1).and_then(|d| d.die_ranges.as_ref()))}));
                }
            }
        }
    }
}

// ================================================================ stream: unit (seeded)

pub fn stream_unit(ctx: &mut Ctx) {
    let n = ctx.size(24_000, 300_000, 8);
    for i in 0..n {
        if !ctx.want("unit", i) {
            continue;
        }
        let mut r = ctx.rng("unit", i);
        let enc = Enc::nth(i);
        let mode = match r.below(8) {
            0 | 1 | 2 => Mode::Main,
            3 | 4 => Mode::Dwo,
            5 | 6 => Mode::Split { copy: true },
            _ => Mode::Split { copy: false },
        };
        let plan = |r: &mut Rng, root: bool| ChildPlan {
            low: if root { "addr" } else { *r.pick(&LOWS) },
            high: *r.pick(&g::HIGH_PC_FORMS),
            ranges: *r.pick(&["absent", "sec_offset", "sec_offset", "rnglistx", "rnglistx", "other"]),
            loc: *r.pick(&["absent", "sec_offset", "sec_offset", "loclistx", "loclistx", "exprloc"]),
            order: 0,
            shuffle: true,
        };
        let n_children = 1 + r.usize(5);
        let k = Knobs {
            mode,
            low_pc: if r.chance(1, 8) { None } else { Some(r.usize(g::UNIT_BASES)) },
            low_pc_indexed: r.chance(1, 3) && !matches!(mode, Mode::Split { copy: false }),
            children: (0..n_children).map(|_| plan(&mut r, false)).collect(),
            root: plan(&mut r, true),
            explicit_bases: r.chance(1, 3),
            long_lists: r.chance(1, 4),
        };
        let mut w = build_world(&mut r, enc, &k);
        obs_world(ctx, &w, &k);
        // self-check: every generated list decodes (model) from the effective sections
        if let Err(e) = w.self_check() {
            ctx.harness_error(&format!("unit {i}: {e}"));
            continue;
        }
        if r.chance(1, 5) {
            // damage one of the sections the lists depend on; the model reads the same bytes
            // (the address table only when the unit's own low_pc does not live in it)
            let which = r.below(if k.low_pc_indexed { 2 } else { 3 }) as u8;
            let bytes = match which {
                0 => w.eff_rng.clone(),
                1 => w.eff_loc.clone(),
                _ => w.eff_addr.clone(),
            };
            let c = crate::gen::mutate::count(bytes.len());
            let (mutated, how) = crate::gen::mutate::nth(&bytes, r.below(c));
            w.replace_section(which, mutated);
            w.mutated = Some(format!("section {which}: {how}"));
            ctx.obs("unit.mutated_section");
        }
        let input = || w.json();
        let Some(obs) = ctx.guard("unit", &input, || run_world(&w)) else { continue };
        judge_world(ctx, "unit", &w, &obs, &input);
        ctx.nontrivial_bytes("unit", &w.digest_bytes());
        if i < 40 {
            ctx.sample(&format!("unit.{:?}", w.mode), || json!({"world": w.json(), "fields": format!("{:?}", obs.fields), "unit_ranges": format!("{:?}", obs.unit_ranges)}));
        }
    }
}

#[allow(dead_code)]
fn _unused(_: &[u8]) -> String {
    hex(&[])
}

#[allow(dead_code)]
fn _unused2(_: AddrVal) {}

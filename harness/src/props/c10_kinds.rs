//! C10 — the reader kinds under test and the generic history runner.

use super::model::{digest, Fmt, History, Op, Out, Step, E};
use gimli::read::{EndianReader, EndianSlice, Reader, Relocate, RelocateReader};
use gimli::{CloneStableDeref, Format, RunTimeEndian, StableDeref};
use std::borrow::Cow;
use std::cell::Cell;
use std::ops::Deref;
use std::rc::Rc;
use std::sync::Arc;

// ---------------------------------------------------------------- identity relocation

#[derive(Debug, Clone, Copy)]
pub struct Ident;

impl Relocate<usize> for Ident {
    fn relocate_address(&self, _offset: usize, value: u64) -> gimli::Result<u64> {
        Ok(value)
    }
    fn relocate_offset(&self, _offset: usize, value: usize) -> gimli::Result<usize> {
        Ok(value)
    }
}

// ---------------------------------------------------------------- custom buffer type

#[derive(Debug, Default)]
pub struct BufStats {
    /// live `MyBuf` handles
    pub live: Cell<i64>,
    /// times the allocation was released
    pub freed: Cell<u32>,
    pub clones: Cell<u64>,
}

#[derive(Debug)]
struct Inner {
    data: Vec<u8>,
    lo: usize,
    hi: usize,
    stats: Rc<BufStats>,
}

impl Drop for Inner {
    fn drop(&mut self) {
        // poison, so that a view outliving the buffer reads wrong bytes even without ASan
        for b in self.data.iter_mut() {
            *b = 0xdd;
        }
        self.stats.freed.set(self.stats.freed.get() + 1);
    }
}

/// A custom `CloneStableDeref` buffer: a reference-counted allocation that dereferences to
/// an interior window (guard bytes on both sides) and counts its handles.
#[derive(Debug)]
pub struct MyBuf(Rc<Inner>);

pub const GUARD: usize = 8;

impl MyBuf {
    pub fn new(bytes: &[u8], stats: Rc<BufStats>) -> MyBuf {
        let mut data = vec![0xa5u8; GUARD];
        data.extend_from_slice(bytes);
        data.extend_from_slice(&[0x5a; GUARD]);
        stats.live.set(stats.live.get() + 1);
        MyBuf(Rc::new(Inner { data, lo: GUARD, hi: GUARD + bytes.len(), stats }))
    }
}

impl Clone for MyBuf {
    fn clone(&self) -> MyBuf {
        let st = &self.0.stats;
        st.live.set(st.live.get() + 1);
        st.clones.set(st.clones.get() + 1);
        MyBuf(self.0.clone())
    }
}

impl Drop for MyBuf {
    fn drop(&mut self) {
        let st = &self.0.stats;
        st.live.set(st.live.get() - 1);
    }
}

impl Deref for MyBuf {
    type Target = [u8];
    fn deref(&self) -> &[u8] {
        &self.0.data[self.0.lo..self.0.hi]
    }
}

// The data lives in a heap allocation owned by the shared `Inner`; it never moves while any
// handle exists, and clones dereference to the same address.
unsafe impl StableDeref for MyBuf {}
unsafe impl CloneStableDeref for MyBuf {}

// ---------------------------------------------------------------- uniform extra surface

/// What the runner needs beyond `Reader`: the raw view (for pointer checks) and the inherent
/// (non-trait) API of the concrete readers.
pub trait Ext: Reader<Offset = usize, Endian = RunTimeEndian> + Sized {
    fn raw(&self) -> &[u8];
    fn x_range(&self, a: usize, b: usize) -> Self;
    fn x_range_from(&self, a: usize) -> Self;
    fn x_range_to(&self, b: usize) -> Self;
    fn x_split_at(&self, i: usize) -> (Self, Self);
    fn x_find(&self, b: u8) -> Option<usize>;
    fn x_offset_from(&self, base: &Self) -> usize;
    fn x_to_string(&self) -> gimli::Result<Cow<'_, str>>;
    fn x_to_string_lossy(&self) -> Cow<'_, str>;
    fn x_index(&self, i: usize) -> u8;
    fn x_index_from(&self, i: usize) -> &[u8];
    fn x_eq(&self, o: &Self) -> bool;
}

impl<'a> Ext for EndianSlice<'a, RunTimeEndian> {
    fn raw(&self) -> &[u8] {
        self.slice()
    }
    fn x_range(&self, a: usize, b: usize) -> Self {
        self.range(a..b)
    }
    fn x_range_from(&self, a: usize) -> Self {
        self.range_from(a..)
    }
    fn x_range_to(&self, b: usize) -> Self {
        self.range_to(..b)
    }
    fn x_split_at(&self, i: usize) -> (Self, Self) {
        self.split_at(i)
    }
    fn x_find(&self, b: u8) -> Option<usize> {
        // inherent EndianSlice::find
        self.find(b)
    }
    fn x_offset_from(&self, base: &Self) -> usize {
        // inherent, by value
        self.offset_from(*base)
    }
    fn x_to_string(&self) -> gimli::Result<Cow<'_, str>> {
        // inherent: Result<&'input str>
        self.to_string().map(Cow::Borrowed)
    }
    fn x_to_string_lossy(&self) -> Cow<'_, str> {
        // inherent: Cow<'input, str>
        self.to_string_lossy()
    }
    fn x_index(&self, i: usize) -> u8 {
        self[i]
    }
    fn x_index_from(&self, i: usize) -> &[u8] {
        &self[i..]
    }
    fn x_eq(&self, o: &Self) -> bool {
        self == o
    }
}

impl<T> Ext for EndianReader<RunTimeEndian, T>
where
    T: CloneStableDeref<Target = [u8]> + std::fmt::Debug,
{
    fn raw(&self) -> &[u8] {
        self.bytes()
    }
    fn x_range(&self, a: usize, b: usize) -> Self {
        self.range(a..b)
    }
    fn x_range_from(&self, a: usize) -> Self {
        self.range_from(a..)
    }
    fn x_range_to(&self, b: usize) -> Self {
        self.range_to(..b)
    }
    fn x_split_at(&self, i: usize) -> (Self, Self) {
        (self.range_to(..i), self.range_from(i..))
    }
    fn x_find(&self, b: u8) -> Option<usize> {
        Reader::find(self, b).ok()
    }
    fn x_offset_from(&self, base: &Self) -> usize {
        Reader::offset_from(self, base)
    }
    fn x_to_string(&self) -> gimli::Result<Cow<'_, str>> {
        Reader::to_string(self)
    }
    fn x_to_string_lossy(&self) -> Cow<'_, str> {
        // through Deref<Target = [u8]>
        String::from_utf8_lossy(self)
    }
    fn x_index(&self, i: usize) -> u8 {
        self[i]
    }
    fn x_index_from(&self, i: usize) -> &[u8] {
        &self[i..]
    }
    fn x_eq(&self, o: &Self) -> bool {
        self == o
    }
}

impl<R: Ext> Ext for RelocateReader<R, Ident> {
    fn raw(&self) -> &[u8] {
        self.inner().raw()
    }
    fn x_range(&self, a: usize, b: usize) -> Self {
        let mut r = self.clone();
        let _ = r.skip(a);
        let _ = r.truncate(b - a);
        r
    }
    fn x_range_from(&self, a: usize) -> Self {
        let mut r = self.clone();
        let _ = r.skip(a);
        r
    }
    fn x_range_to(&self, b: usize) -> Self {
        let mut r = self.clone();
        let _ = r.truncate(b);
        r
    }
    fn x_split_at(&self, i: usize) -> (Self, Self) {
        let mut r = self.clone();
        match r.split(i) {
            Ok(l) => (l, r),
            Err(_) => (self.clone(), r),
        }
    }
    fn x_find(&self, b: u8) -> Option<usize> {
        Reader::find(self, b).ok()
    }
    fn x_offset_from(&self, base: &Self) -> usize {
        Reader::offset_from(self, base)
    }
    fn x_to_string(&self) -> gimli::Result<Cow<'_, str>> {
        Reader::to_string(self)
    }
    fn x_to_string_lossy(&self) -> Cow<'_, str> {
        match Reader::to_string_lossy(self) {
            Ok(s) => s,
            Err(_) => Cow::Borrowed("<error>"),
        }
    }
    fn x_index(&self, i: usize) -> u8 {
        self.inner().x_index(i)
    }
    fn x_index_from(&self, i: usize) -> &[u8] {
        self.inner().x_index_from(i)
    }
    fn x_eq(&self, o: &Self) -> bool {
        self.inner().x_eq(o.inner())
    }
}

// ---------------------------------------------------------------- runner

#[derive(Debug, Default)]
pub struct KindOut {
    pub outs: Vec<Out>,
    /// (signature, description)
    pub problems: Vec<(String, String)>,
    pub completed: bool,
    pub observed_views: u64,
    pub sub_readers: u64,
}

struct Run<'h, R: Ext> {
    kind: &'static str,
    buf: &'h [u8],
    base_ptr: usize,
    base_len: usize,
    slots: Vec<Option<R>>,
    base: Option<R>,
    out: KindOut,
}

fn fmt_of(f: Fmt) -> Format {
    match f {
        Fmt::F32 => Format::Dwarf32,
        Fmt::F64 => Format::Dwarf64,
    }
}

impl<'h, R: Ext> Run<'h, R> {
    fn problem(&mut self, what: &str, op: &str, msg: String) {
        if self.out.problems.len() < 6 {
            self.out.problems.push((format!("{}|{}|{}", what, self.kind, op), format!("[{}] {}: {}", self.kind, op, msg)));
        }
    }

    fn inside(&self, p: usize, n: usize) -> bool {
        p >= self.base_ptr && p - self.base_ptr <= self.base_len && n <= self.base_len - (p - self.base_ptr)
    }

    /// Section offset of a reader as observed through its raw view pointer.
    fn pos(&self, r: &R) -> usize {
        (r.raw().as_ptr() as usize).wrapping_sub(self.base_ptr)
    }

    /// The (len, bytes, offset_from(section)) clause for one reader.
    fn observe(&mut self, slot: usize, cur: (usize, usize), op: &str) {
        let Some(r) = self.slots[slot].as_ref() else {
            self.problem("harness.slot", op, format!("slot {slot} is not live"));
            return;
        };
        self.out.observed_views += 1;
        let (s, e) = cur;
        let raw = r.raw();
        let p = raw.as_ptr() as usize;
        let n = raw.len();
        let mut bad: Vec<(&str, String)> = vec![];
        if !self.inside(p, n) {
            bad.push(("view.outside", format!("slot {slot}: view {:#x}+{} is not inside the buffer {:#x}+{}", p, n, self.base_ptr, self.base_len)));
        } else {
            if r.len() != e - s || n != e - s {
                bad.push(("view.len", format!("slot {slot}: len() {} / view length {} but the model cursor is {}..{}", r.len(), n, s, e)));
            }
            if p - self.base_ptr != s {
                bad.push(("view.offset", format!("slot {slot}: view starts at section offset {} but the model cursor is {}..{}", p - self.base_ptr, s, e)));
            }
            if raw != self.buf.get(s..e).unwrap_or(&[]) && bad.is_empty() {
                bad.push(("view.bytes", format!("slot {slot}: bytes of the view differ from section[{}..{}]", s, e)));
            }
            if bad.is_empty() {
                if let Some(b) = self.base.as_ref() {
                    let o = r.offset_from(b);
                    if o != s {
                        bad.push(("view.offset_from", format!("slot {slot}: offset_from(section) = {} but the model cursor is {}..{}", o, s, e)));
                    }
                }
            }
        }
        for (w, m) in bad {
            self.problem(w, op, m);
        }
    }

    fn err(&mut self, slot: usize, e: gimli::Error, op: &str) -> Out {
        let x = match e {
            gimli::Error::UnexpectedEof(id) => {
                let r = self.slots[slot].as_ref().unwrap();
                let pos = self.pos(r);
                let own = r.lookup_offset_id(id);
                let via_base = self.base.as_ref().map(|b| b.lookup_offset_id(id));
                match own {
                    Some(d) => {
                        let at = pos.wrapping_add(d);
                        if let Some(vb) = via_base {
                            if vb != Some(at) {
                                self.problem("eof.id", op, format!("UnexpectedEof id maps to {:?} through the section reader but to {} through the failing reader", vb, at));
                            }
                        }
                        E::Eof(at)
                    }
                    None => {
                        self.problem("eof.id", op, "UnexpectedEof id is not associated with the reader that failed".to_string());
                        E::Other("eof-unmapped".into())
                    }
                }
            }
            gimli::Error::BadUnsignedLeb128 => E::BadU,
            gimli::Error::BadSignedLeb128 => E::BadS,
            gimli::Error::UnsupportedAddressSize(n) => E::AddrSize(n),
            gimli::Error::UnsupportedOffsetSize(n) => E::OffSize(n),
            gimli::Error::UnknownReservedLength(v) => E::Reserved(v),
            gimli::Error::BadUtf8 => E::Utf8,
            other => E::Other(format!("{other:?}")),
        };
        Out::Err(x)
    }

    fn num<T: Into<u128>>(&mut self, slot: usize, r: gimli::Result<T>, op: &str) -> Out {
        match r {
            Ok(v) => Out::U(v.into()),
            Err(e) => self.err(slot, e, op),
        }
    }

    fn inum<T: Into<i128>>(&mut self, slot: usize, r: gimli::Result<T>, op: &str) -> Out {
        match r {
            Ok(v) => Out::I(v.into()),
            Err(e) => self.err(slot, e, op),
        }
    }

    fn unit(&mut self, slot: usize, r: gimli::Result<()>, op: &str) -> Out {
        match r {
            Ok(()) => Out::Unit,
            Err(e) => self.err(slot, e, op),
        }
    }

    /// Register a reader handed back by gimli as a new slot; returns its (offset, len).
    fn adopt(&mut self, r: R) -> (usize, usize) {
        let d = (self.pos(&r), r.len());
        self.out.sub_readers += 1;
        self.slots.push(Some(r));
        d
    }

    /// A borrowed result must be the view itself (same address), never a copy.
    fn borrowed_at(&mut self, slot: usize, p: *const u8, n: usize, skip: usize, op: &str) {
        let r = self.slots[slot].as_ref().unwrap();
        let want = (r.raw().as_ptr() as usize).wrapping_add(skip);
        let p = p as usize;
        if !self.inside(p, n) {
            self.problem("slice.outside", op, format!("returned slice {:#x}+{} is not inside the buffer {:#x}+{}", p, n, self.base_ptr, self.base_len));
        } else if p != want {
            self.problem("slice.moved", op, format!("returned slice starts at section offset {} instead of {}", p - self.base_ptr, want.wrapping_sub(self.base_ptr)));
        }
    }

    fn apply(&mut self, st: &Step) -> Out {
        let slot = st.slot;
        let name = st.op.name();
        if self.slots.get(slot).map(|s| s.is_none()).unwrap_or(true) {
            self.problem("harness.slot", name, format!("slot {slot} is not live"));
            return Out::Err(E::Other("dead slot".into()));
        }
        macro_rules! rd {
            () => {
                self.slots[slot].as_mut().unwrap()
            };
        }
        macro_rules! rf {
            () => {
                self.slots[slot].as_ref().unwrap()
            };
        }
        match &st.op {
            Op::ReadU8 => {
                let v = rd!().read_u8();
                self.num(slot, v, name)
            }
            Op::ReadI8 => {
                let v = rd!().read_i8();
                self.inum(slot, v, name)
            }
            Op::ReadU16 => {
                let v = rd!().read_u16();
                self.num(slot, v, name)
            }
            Op::ReadI16 => {
                let v = rd!().read_i16();
                self.inum(slot, v, name)
            }
            Op::ReadU32 => {
                let v = rd!().read_u32();
                self.num(slot, v, name)
            }
            Op::ReadI32 => {
                let v = rd!().read_i32();
                self.inum(slot, v, name)
            }
            Op::ReadU64 => {
                let v = rd!().read_u64();
                self.num(slot, v, name)
            }
            Op::ReadI64 => {
                let v = rd!().read_i64();
                self.inum(slot, v, name)
            }
            Op::ReadU128 => {
                let v = rd!().read_u128();
                self.num(slot, v, name)
            }
            Op::ReadF32 => {
                let v = rd!().read_f32().map(|f| f.to_bits());
                self.num(slot, v, name)
            }
            Op::ReadF64 => {
                let v = rd!().read_f64().map(|f| f.to_bits());
                self.num(slot, v, name)
            }
            Op::ReadUint(n) => {
                let v = rd!().read_uint(*n);
                self.num(slot, v, name)
            }
            Op::ReadSlice(n) => {
                let mut tmp = vec![0xeeu8; *n];
                match rd!().read_slice(&mut tmp) {
                    Ok(()) => Out::Bytes(digest(&tmp), *n),
                    Err(e) => self.err(slot, e, name),
                }
            }
            Op::ReadArray3 => match rd!().read_u8_array::<[u8; 3]>() {
                Ok(a) => Out::Bytes(digest(&a), 3),
                Err(e) => self.err(slot, e, name),
            },
            Op::Uleb => {
                let v = rd!().read_uleb128();
                self.num(slot, v, name)
            }
            Op::UlebU32 => {
                let v = rd!().read_uleb128_u32();
                self.num(slot, v, name)
            }
            Op::UlebU16 => {
                let v = rd!().read_uleb128_u16();
                self.num(slot, v, name)
            }
            Op::Sleb => {
                let v = rd!().read_sleb128();
                self.inum(slot, v, name)
            }
            Op::SkipLeb => {
                let v = rd!().skip_leb128();
                self.unit(slot, v, name)
            }
            Op::Address(sz) => {
                let v = rd!().read_address(*sz);
                self.num(slot, v, name)
            }
            Op::AddressSize => {
                let v = rd!().read_address_size();
                self.num(slot, v, name)
            }
            Op::Offset(f) => {
                let v = rd!().read_offset(fmt_of(*f)).map(|x| x as u64);
                self.num(slot, v, name)
            }
            Op::Word(f) => {
                let v = rd!().read_word(fmt_of(*f)).map(|x| x as u64);
                self.num(slot, v, name)
            }
            Op::Length(f) => {
                let v = rd!().read_length(fmt_of(*f)).map(|x| x as u64);
                self.num(slot, v, name)
            }
            Op::SizedOffset(sz) => {
                let v = rd!().read_sized_offset(*sz).map(|x| x as u64);
                self.num(slot, v, name)
            }
            Op::InitialLength => match rd!().read_initial_length() {
                Ok((l, f)) => Out::LenFmt(l, if f == Format::Dwarf64 { Fmt::F64 } else { Fmt::F32 }),
                Err(e) => self.err(slot, e, name),
            },
            Op::NullTerm => match rd!().read_null_terminated_slice() {
                Ok(r) => {
                    let (o, l) = self.adopt(r);
                    Out::Sub(o, l)
                }
                Err(e) => self.err(slot, e, name),
            },
            Op::Skip(n) => {
                let v = rd!().skip(*n);
                self.unit(slot, v, name)
            }
            Op::Split(n) => match rd!().split(*n) {
                Ok(r) => {
                    let (o, l) = self.adopt(r);
                    Out::Sub(o, l)
                }
                Err(e) => self.err(slot, e, name),
            },
            Op::Truncate(n) => {
                let v = rd!().truncate(*n);
                self.unit(slot, v, name)
            }
            Op::Empty => {
                rd!().empty();
                Out::Unit
            }
            Op::Find(b) => {
                let v = Reader::find(rf!(), *b).map(|x| x as u64);
                self.num(slot, v, name)
            }
            Op::XFind(b) => Out::Opt(rf!().x_find(*b)),
            Op::Len => Out::U(rf!().len() as u128),
            Op::IsEmpty => Out::Bool(rf!().is_empty()),
            Op::Clone => {
                let c = rf!().clone();
                let (o, l) = self.adopt(c);
                Out::Sub(o, l)
            }
            Op::Drop => {
                self.slots[slot] = None;
                Out::Unit
            }
            Op::DropBase => {
                self.base = None;
                Out::Unit
            }
            Op::OffsetFrom(o) => match self.slots.get(*o).and_then(|x| x.as_ref()) {
                Some(b) => Out::U(Reader::offset_from(rf!(), b) as u128),
                None => Out::Err(E::Other("dead base slot".into())),
            },
            Op::XOffsetFrom(o) => match self.slots.get(*o).and_then(|x| x.as_ref()) {
                Some(b) => Out::U(rf!().x_offset_from(b) as u128),
                None => Out::Err(E::Other("dead base slot".into())),
            },
            Op::OffsetId => {
                let id = rf!().offset_id();
                let mut v = vec![];
                if let Some(b) = self.base.as_ref() {
                    v.push(b.lookup_offset_id(id));
                }
                for s in self.slots.iter().flatten() {
                    v.push(s.lookup_offset_id(id));
                }
                Out::Lookups(v)
            }
            Op::ToSlice => match rf!().to_slice() {
                Ok(Cow::Borrowed(b)) => {
                    let (p, n, d) = (b.as_ptr(), b.len(), digest(b));
                    self.borrowed_at(slot, p, n, 0, name);
                    Out::Bytes(d, n)
                }
                Ok(Cow::Owned(v)) => {
                    let o = Out::Bytes(digest(&v), v.len());
                    self.problem("slice.copied", name, "to_slice returned an owned copy".into());
                    o
                }
                Err(e) => self.err(slot, e, name),
            },
            Op::ToString | Op::XToString => {
                let res = if st.op == Op::ToString { Reader::to_string(rf!()) } else { rf!().x_to_string() };
                match res {
                    Ok(Cow::Borrowed(t)) => {
                        let (p, n, d) = (t.as_ptr(), t.len(), digest(t.as_bytes()));
                        self.borrowed_at(slot, p, n, 0, name);
                        Out::Str(d, n)
                    }
                    Ok(Cow::Owned(t)) => {
                        let o = Out::Str(digest(t.as_bytes()), t.len());
                        self.problem("slice.copied", name, "to_string returned an owned copy".into());
                        o
                    }
                    Err(e) => self.err(slot, e, name),
                }
            }
            Op::ToStringLossy | Op::XToStringLossy => {
                let res = if st.op == Op::ToStringLossy { Reader::to_string_lossy(rf!()) } else { Ok(rf!().x_to_string_lossy()) };
                match res {
                    Ok(Cow::Borrowed(t)) => {
                        let (p, n, d) = (t.as_ptr(), t.len(), digest(t.as_bytes()));
                        // std's from_utf8_lossy returns a static "" for empty input
                        if n != 0 {
                            self.borrowed_at(slot, p, n, 0, name);
                        }
                        Out::Str(d, n)
                    }
                    Ok(Cow::Owned(t)) => {
                        let o = Out::Str(digest(t.as_bytes()), t.len());
                        if std::str::from_utf8(rf!().raw()).is_ok() {
                            self.problem("slice.copied", name, "to_string_lossy copied valid UTF-8".into());
                        }
                        o
                    }
                    Err(e) => self.err(slot, e, name),
                }
            }
            Op::Range(a, b) => {
                let r = rf!().x_range(*a, *b);
                let (o, l) = self.adopt(r);
                Out::Sub(o, l)
            }
            Op::RangeFrom(a) => {
                let r = rf!().x_range_from(*a);
                let (o, l) = self.adopt(r);
                Out::Sub(o, l)
            }
            Op::RangeTo(b) => {
                let r = rf!().x_range_to(*b);
                let (o, l) = self.adopt(r);
                Out::Sub(o, l)
            }
            Op::SplitAt(i) => {
                let (l, r) = rf!().x_split_at(*i);
                let a = self.adopt(l);
                let b = self.adopt(r);
                Out::Pair(a, b)
            }
            Op::Index(i) => Out::U(rf!().x_index(*i) as u128),
            Op::IndexFrom(i) => {
                let b = rf!().x_index_from(*i);
                let (p, n, d) = (b.as_ptr(), b.len(), digest(b));
                self.borrowed_at(slot, p, n, *i, name);
                Out::Bytes(d, n)
            }
            Op::Eq(o) => match self.slots.get(*o).and_then(|x| x.as_ref()) {
                Some(b) => Out::Bool(rf!().x_eq(b)),
                None => Out::Err(E::Other("dead slot".into())),
            },
        }
    }
}

/// Replay `h` on a reader of kind `R`.  `orig` is the reader constructed over the buffer whose
/// deref window is `base_ptr .. base_ptr + base_len`; `full`: observe every live reader after
/// every step (otherwise only the readers the step touched).
pub fn run_history<R: Ext>(kind: &'static str, orig: R, base_ptr: usize, base_len: usize, h: &History, full: bool) -> KindOut {
    let mut run = Run { kind, buf: &h.buf, base_ptr, base_len, slots: vec![], base: Some(orig.clone()), out: KindOut::default() };
    run.slots.push(Some(orig));
    // model cursors per slot, replayed from the steps
    let mut cur: Vec<Option<(usize, usize)>> = vec![Some((0, h.buf.len()))];
    run.observe(0, (0, h.buf.len()), "new");
    for st in &h.steps {
        let name = st.op.name();
        let before = run.slots.len();
        let out = run.apply(st);
        let ok = out == st.exp;
        if !ok {
            run.problem("model", name, format!("step {} on slot {}: {:?}: model expects {:?}, reader returned {:?}", run.out.outs.len(), st.slot, st.op, st.exp, out));
        }
        run.out.outs.push(out);
        if !ok || !run.out.problems.is_empty() {
            return run.out;
        }
        if run.slots.len() - before != st.new.len() {
            run.problem("harness.slot", name, "number of created readers differs from the model".into());
            return run.out;
        }
        cur[st.slot] = st.after;
        for n in &st.new {
            cur.push(Some(*n));
        }
        if full {
            for i in 0..cur.len() {
                if let Some(c) = cur[i] {
                    run.observe(i, c, name);
                }
            }
        } else {
            if let Some(c) = st.after {
                run.observe(st.slot, c, name);
            }
            for (k, n) in st.new.iter().enumerate() {
                run.observe(before + k, *n, name);
            }
        }
        if !run.out.problems.is_empty() {
            return run.out;
        }
    }
    // final observation, then drop everything in the prescribed order
    for i in 0..cur.len() {
        if let Some(c) = cur[i] {
            run.observe(i, c, "final");
        }
    }
    let base_first = h.steps.len() % 2 == 1;
    if base_first {
        run.base = None;
    }
    for &d in &h.final_drops {
        if d < run.slots.len() {
            run.slots[d] = None;
            cur[d] = None;
        }
        if full || h.final_drops.len() <= 4 {
            for i in 0..cur.len() {
                if let Some(c) = cur[i] {
                    run.observe(i, c, "final_drop");
                }
            }
        }
    }
    run.base = None;
    run.out.completed = run.out.problems.is_empty();
    run.out
}

// ---------------------------------------------------------------- kind constructors

pub const KINDS: [&str; 6] = ["EndianSlice", "EndianRcSlice", "EndianArcSlice", "EndianReader<MyBuf>", "RelocateReader<EndianSlice>", "RelocateReader<EndianRcSlice>"];

fn endian(le: bool) -> RunTimeEndian {
    if le {
        RunTimeEndian::Little
    } else {
        RunTimeEndian::Big
    }
}

pub fn run_kind(k: usize, h: &History, full: bool) -> KindOut {
    let en = endian(h.le);
    match k {
        0 => {
            // a private heap copy with the exact length, so that ASan sees any overrun
            let b: Box<[u8]> = h.buf.clone().into_boxed_slice();
            let p = b.as_ptr() as usize;
            run_history(KINDS[0], EndianSlice::new(&b, en), p, b.len(), h, full)
        }
        1 => {
            let rc: Rc<[u8]> = Rc::from(&h.buf[..]);
            let p = rc.as_ptr() as usize;
            let n = rc.len();
            // the Rc is moved into the reader: the readers are the only owners
            run_history(KINDS[1], EndianReader::new(rc, en), p, n, h, full)
        }
        2 => {
            let rc: Arc<[u8]> = Arc::from(&h.buf[..]);
            let p = rc.as_ptr() as usize;
            let n = rc.len();
            run_history(KINDS[2], EndianReader::new(rc, en), p, n, h, full)
        }
        3 => {
            let stats = Rc::new(BufStats::default());
            let mb = MyBuf::new(&h.buf, stats.clone());
            let p = mb.as_ptr() as usize;
            let n = mb.len();
            let mut out = run_history(KINDS[3], EndianReader::new(mb, en), p, n, h, full);
            // every handle is gone and the allocation was released exactly once
            if stats.live.get() != 0 || stats.freed.get() != 1 {
                out.problems.push((
                    format!("buffer.lifetime|{}", KINDS[3]),
                    format!("after dropping every reader: {} buffer handles live, buffer released {} times ({} clones)", stats.live.get(), stats.freed.get(), stats.clones.get()),
                ));
                out.completed = false;
            }
            out
        }
        4 => {
            let b: Box<[u8]> = h.buf.clone().into_boxed_slice();
            let p = b.as_ptr() as usize;
            run_history(KINDS[4], RelocateReader::new(EndianSlice::new(&b, en), Ident), p, b.len(), h, full)
        }
        _ => {
            let rc: Rc<[u8]> = Rc::from(&h.buf[..]);
            let p = rc.as_ptr() as usize;
            let n = rc.len();
            run_history(KINDS[5], RelocateReader::new(EndianReader::new(rc, en), Ident), p, n, h, full)
        }
    }
}

// ---------------------------------------------------------------- two-thread workload

/// One thread's script: (skip, split length, byte to find) triples, each run on a fresh clone
/// of the shared section reader.
pub type Script = Vec<(usize, usize, u8)>;

/// What a script item yields (model and threads compute the same tuple).
#[derive(Debug, PartialEq, Clone)]
pub struct Seen {
    pub offset: usize,
    pub sub: (usize, usize, u64),
    pub rest_len: usize,
    pub first: Option<u8>,
    pub found: Option<usize>,
    pub lookup: Option<usize>,
}

pub fn script_model(buf: &[u8], sc: &Script) -> Vec<Option<Seen>> {
    sc.iter()
        .map(|&(skip, split, byte)| {
            if skip > buf.len() || split > buf.len() - skip {
                return None;
            }
            let sub = &buf[skip..skip + split];
            let rest = &buf[skip + split..];
            Some(Seen {
                offset: skip + split,
                sub: (skip, split, digest(sub)),
                rest_len: rest.len(),
                first: rest.first().copied(),
                found: rest.iter().position(|x| *x == byte),
                lookup: Some(skip + split),
            })
        })
        .collect()
}

fn script_run(shared: &EndianReader<RunTimeEndian, Arc<[u8]>>, mine: EndianReader<RunTimeEndian, Arc<[u8]>>, sc: &Script) -> Vec<Option<Seen>> {
    let mut out = vec![];
    for &(skip, split, byte) in sc {
        // alternate between cloning the shared reader (through &, needs Sync) and the owned one
        let mut r = if skip % 2 == 0 { shared.clone() } else { mine.clone() };
        if r.skip(skip).is_err() {
            out.push(None);
            continue;
        }
        let Ok(sub) = r.split(split) else {
            out.push(None);
            continue;
        };
        let sub_off = sub.offset_from(shared);
        let sub_d = digest(sub.bytes());
        let sub_len = sub.len();
        drop(sub);
        let found = Reader::find(&r, byte).ok();
        let lookup = shared.lookup_offset_id(r.offset_id());
        let offset = r.offset_from(shared);
        let rest_len = r.len();
        let first = r.clone().read_u8().ok();
        out.push(Some(Seen { offset, sub: (sub_off, sub_len, sub_d), rest_len, first, found, lookup }));
    }
    out
}

/// Two threads read the same `Arc<[u8]>` section concurrently through clones of one
/// `EndianArcSlice` (Send) and through a shared reference to it (Sync).
pub fn arc_threads(buf: &[u8], le: bool, scripts: &[Script; 2]) -> Result<[Vec<Option<Seen>>; 2], String> {
    let arc: Arc<[u8]> = Arc::from(buf);
    let section = EndianReader::new(arc, endian(le));
    let (a, b) = (section.clone(), section.clone());
    let res = std::thread::scope(|s| {
        let sh = &section;
        let t0 = s.spawn(move || script_run(sh, a, &scripts[0]));
        let t1 = s.spawn(move || script_run(sh, b, &scripts[1]));
        (t0.join(), t1.join())
    });
    match res {
        (Ok(x), Ok(y)) => Ok([x, y]),
        _ => Err("a reader thread panicked".to_string()),
    }
}

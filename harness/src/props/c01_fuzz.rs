//! C01 — coverage-guided complement (thorough tier): glue between libFuzzer inputs and the
//! entry-point registry.
//!
//! A fuzz input is `[entry index, configuration index, flags, resume-answer seed]` followed
//! by the entry point's input slots: every slot but the last is prefixed by a 2-byte
//! little-endian length, the last slot takes the rest.  The same decoding is used by the
//! fuzz target (`harness/fuzz`), by `gv fuzz-seeds` (valid seed sections written in this
//! format) and by the `fuzzart` stream of the C01 check, which re-executes every artifact
//! libFuzzer saved (crash-*, timeout-*, oom-*) under the ordinary monitors in both build
//! profiles — so the verdict is always the harness's, never libFuzzer's exit code.

use crate::asm::Enc;
use crate::mon::entries::{Mon, PlainMk, Secs, P};
use crate::props::c01::{dispatch, run_case, slot_get, slot_set, Entry, ENTRIES};
use crate::rt::Ctx;
use serde_json::json;
use std::path::Path;

pub fn decode(data: &[u8]) -> Option<(&'static Entry, Secs, P)> {
    if data.len() < 4 {
        return None;
    }
    let e = &ENTRIES[data[0] as usize % ENTRIES.len()];
    let enc = Enc::nth(data[1] as u64);
    let p = P { enc, dwo: data[2] & 1 != 0, aarch64: data[2] & 2 != 0, seed: data[3] as u64 };
    let mut rest = &data[4..];
    let mut s = Secs::default();
    for (i, slot) in e.slots.iter().enumerate() {
        if i + 1 == e.slots.len() {
            slot_set(&mut s, *slot, rest.to_vec());
            rest = &[];
        } else {
            if rest.len() < 2 {
                break;
            }
            let n = (rest[0] as usize | (rest[1] as usize) << 8).min(rest.len() - 2);
            slot_set(&mut s, *slot, rest[2..2 + n].to_vec());
            rest = &rest[2 + n..];
        }
    }
    Some((e, s, p))
}

pub fn encode(entry_index: usize, s: &Secs, p: &P) -> Option<Vec<u8>> {
    let e = &ENTRIES[entry_index];
    let enc_index = Enc::all().iter().position(|x| *x == p.enc)? as u8;
    let mut out = vec![entry_index as u8, enc_index, (p.dwo as u8) | (p.aarch64 as u8) << 1, p.seed as u8];
    for (i, slot) in e.slots.iter().enumerate() {
        let b = slot_get(s, *slot);
        if i + 1 == e.slots.len() {
            out.extend_from_slice(b);
        } else {
            if b.len() > 0xffff {
                return None;
            }
            out.extend_from_slice(&(b.len() as u16).to_le_bytes());
            out.extend_from_slice(b);
        }
    }
    Some(out)
}

/// Body of the fuzz target: run the entry point; a monitor problem (non-termination, sticky
/// iterator) that is not an open known finding becomes a panic so that libFuzzer saves the
/// input.  Panics of gimli itself propagate.
pub fn fuzz_one(data: &[u8], known_open: &[String]) {
    let Some((e, s, p)) = decode(data) else { return };
    if s.total_len() > 1 << 16 {
        return;
    }
    let mut mon = Mon::new(400_000);
    dispatch(e.name, &PlainMk(p.enc.endian()), &s, &p, &mut mon);
    for (sig, what) in &mon.problems {
        if !known_open.iter().any(|k| k == sig) {
            panic!("gv monitor: {sig}: {what}");
        }
    }
}

pub fn known_open(path: &Path) -> Vec<String> {
    crate::rt::load_known_findings(path).into_iter().filter(|k| k.status == "open" && k.property == "C01").map(|k| k.signature).collect()
}

/// Write the valid seed pool in fuzz-input format into `dir` (one file per seed x entry).
pub fn write_seeds(ctx: &Ctx, dir: &Path) -> usize {
    let _ = std::fs::create_dir_all(dir);
    let mut n = 0;
    for seed in crate::props::c01::seed_pool(ctx) {
        for (ei, e) in ENTRIES.iter().enumerate() {
            if !e.slots.iter().any(|sl| !slot_get(&seed.secs, *sl).is_empty()) {
                continue;
            }
            let p = P { enc: seed.enc, dwo: false, aarch64: false, seed: 7 };
            if let Some(b) = encode(ei, &seed.secs, &p) {
                if b.len() <= 16 * 1024 {
                    let name = format!("{:016x}", crate::rt::fnv(&b));
                    if std::fs::write(dir.join(name), &b).is_ok() {
                        n += 1;
                    }
                }
            }
        }
    }
    n
}

/// Stream `fuzzart`: every libFuzzer artifact found in `<work>/fuzz/artifacts`, sorted by
/// name, re-executed under the monitors (skipped when the directory does not exist).
pub fn family_fuzzart(ctx: &mut Ctx) {
    let dir = ctx.work.join("fuzz").join("artifacts");
    if ctx.shard == 0 && ctx.only.is_none() && !ctx.dbg() {
        if let Ok(t) = std::fs::read_to_string(ctx.work.join("fuzz").join("stats.txt")) {
            for l in t.lines() {
                if let Some((k, v)) = l.split_once(' ') {
                    ctx.obs_n(&format!("fuzz.{k}"), v.trim().parse().unwrap_or(0));
                }
            }
        }
    }
    let Ok(rd) = std::fs::read_dir(&dir) else { return };
    let mut files: Vec<_> = rd.flatten().map(|e| e.path()).filter(|p| p.is_file())
        .filter(|p| {
            let n = p.file_name().map(|n| n.to_string_lossy().to_string()).unwrap_or_default();
            // slow-unit-* files are informational (and depend on machine load), not failures
            ["crash-", "timeout-", "oom-", "leak-"].iter().any(|pre| n.starts_with(pre))
        })
        .collect();
    files.sort();
    for (i, f) in files.iter().enumerate() {
        if !ctx.want("fuzzart", i as u64) {
            continue;
        }
        let Ok(data) = std::fs::read(f) else { continue };
        let Some((e, s, p)) = decode(&data) else { continue };
        ctx.obs("fuzz.artifacts_replayed");
        let name = f.file_name().map(|n| n.to_string_lossy().to_string()).unwrap_or_default();
        run_case(ctx, e, &s, p, None, "fuzzart", &name);
        ctx.sample("fuzzart", || json!({"artifact": name, "entry": e.name, "enc": p.enc.label(), "bytes": data.len()}));
    }
}
